"""Constants of the bar loop and the triggers (demeter/core/actuator.py, demeter/strategy/trigger.py) and the one market
constant the look-ahead views need (SqueethMarket.TWAP_PERIOD) for Demeter/Gen/ConstsCore.lean.

Everything is read from the source text with `ast`; a source that no longer has the expected shape raises ShapeError."""
import ast
import re


def _seconds(text, ShapeError):
    m = re.fullmatch(r"\s*(\d+)\s*(min|T|s|h|H)\s*", text)
    if not m:
        raise ShapeError(f"cannot read the time span {text!r}")
    return int(m.group(1)) * {"min": 60, "T": 60, "s": 1, "h": 3600, "H": 3600}[m.group(2)]


def register(add, parse, find_func, const_int, rat_of, ShapeError, module_assign):
    act = parse("demeter/core/actuator.py")
    # BASIC_INTERVAL = pd.Timedelta("1min")
    basic = None
    for n in act.body:
        if isinstance(n, ast.Assign) and getattr(n.targets[0], "id", "") == "BASIC_INTERVAL":
            v = n.value
            if not (isinstance(v, ast.Call) and getattr(v.func, "attr", "") == "Timedelta" and isinstance(v.args[0], ast.Constant)):
                raise ShapeError("BASIC_INTERVAL is not pd.Timedelta(<literal>)")
            basic = _seconds(v.args[0].value, ShapeError)
    if basic is None:
        raise ShapeError("BASIC_INTERVAL not found in actuator.py")
    add("coreBasicIntervalSec", "Int", f"({basic})", "BASIC_INTERVAL of actuator.py in seconds: _check_backtest refuses shorter bar intervals")
    # the interval string for which run() does not resample: default in __init__ and the literal compared in run()
    init = find_func(act, "__init__", cls="Actuator")
    default = None
    for n in ast.walk(init):
        if isinstance(n, ast.AnnAssign) and getattr(n.target, "attr", "") == "interval" and isinstance(n.value, ast.Constant):
            default = n.value.value
    run = find_func(act, "run", cls="Actuator")
    # the body of the run may live in a helper `_run` that `run` wraps (trigger reset before, trigger list handed back after)
    bodies = [run]
    for c in act.body:
        if isinstance(c, ast.ClassDef) and c.name == "Actuator":
            bodies += [f for f in c.body if isinstance(f, ast.FunctionDef) and f.name == "_run"]
    compared = None
    for body in bodies:
        for n in ast.walk(body):
            if isinstance(n, ast.Compare) and getattr(n.left, "attr", "") == "interval" and isinstance(n.ops[0], ast.NotEq) \
                    and isinstance(n.comparators[0], ast.Constant):
                compared = n.comparators[0].value
    # source flag: does a run start every installed trigger afresh — a loop `for t in <…>.triggers: t.reset()` in `run` or, so that the triggers
    # installed by initialize() are covered as well, in `_run` AFTER the call of init_strategy() — and hand the strategy's trigger list back as it
    # found it (`finally: self._strategy.triggers = <the list taken before>`)?  (C02 rerun clause, C18 "every bar grid")
    def reset_loops(fn):
        return [n for n in ast.walk(fn) if isinstance(n, ast.For) and getattr(n.iter, "attr", getattr(n.iter, "id", "")) in ("triggers", "triggers_before_run")
                and any(isinstance(c, ast.Call) and getattr(c.func, "attr", "") == "reset" and
                        getattr(c.func.value, "id", None) == getattr(n.target, "id", 0) for c in ast.walk(n))]
    resets_all = False            # every trigger installed when the loop starts, including the ones initialize() installs
    resets_given = bool(reset_loops(run))   # only the ones installed before the run
    for body in bodies[1:]:
        inits = [n.lineno for n in ast.walk(body) if isinstance(n, ast.Call) and getattr(n.func, "attr", "") == "init_strategy"]
        loops = [n.lineno for n in ast.walk(body) if isinstance(n, (ast.With, ast.For)) and n not in reset_loops(body)
                 and any(isinstance(c, ast.Call) and getattr(c.func, "attr", "") == "before_bar" for c in ast.walk(n))]
        for n in reset_loops(body):
            if getattr(n.iter, "attr", "") == "triggers" and inits and min(inits) < n.lineno and (not loops or n.lineno < min(loops)):
                resets_all = True
    restores = any(isinstance(n, ast.Try) and any(isinstance(a, ast.Assign) and getattr(a.targets[0], "attr", "") == "triggers"
                                                  for f in n.finalbody for a in ast.walk(f)) for n in ast.walk(run))
    add("coreRunResetsTriggers", "Bool", "true" if (resets_all and restores) else "false",
        "Actuator.run starts every installed trigger afresh (after initialize(), before the first bar) and restores strategy.triggers afterwards")
    # how `run` remembers the list it hands back: `<name> = list(<…>.triggers)` / `.copy()` / `[:]` (a NEW list: what initialize() appends to
    # strategy.triggers afterwards is not in it) or `<name> = <…>.triggers` (the very list object initialize() appends to).  E-7 / seeded C02-m7.
    saved_names = {getattr(a.value, "id", None) for n in ast.walk(run) if isinstance(n, ast.Try) for f in n.finalbody for a in ast.walk(f)
                   if isinstance(a, ast.Assign) and getattr(a.targets[0], "attr", "") == "triggers"}
    by_copy = None
    for n in ast.walk(run):
        if isinstance(n, ast.Assign) and getattr(n.targets[0], "id", None) in saved_names and n.targets[0].id is not None:
            v = n.value
            if isinstance(v, ast.Call) and ((getattr(v.func, "id", "") in ("list", "tuple") and len(v.args) == 1 and getattr(v.args[0], "attr", "") == "triggers")
                                            or (getattr(v.func, "attr", "") == "copy" and getattr(v.func.value, "attr", "") == "triggers")
                                            or (getattr(v.func, "attr", getattr(v.func, "id", "")) in ("copy", "deepcopy") and v.args
                                                and getattr(v.args[0], "attr", "") == "triggers" and getattr(v.func, "attr", "") != "deepcopy"
                                                and getattr(v.func, "id", "") != "deepcopy")):
                by_copy = True
            elif isinstance(v, ast.Subscript) and getattr(v.value, "attr", "") == "triggers" and isinstance(v.slice, ast.Slice) \
                    and v.slice.lower is None and v.slice.upper is None and v.slice.step is None:
                by_copy = True
            elif isinstance(v, ast.Attribute) and v.attr == "triggers":
                by_copy = False
            else:
                raise ShapeError("Actuator.run: the trigger list handed back in `finally` is saved in a way this extractor does not know: "
                                 + ast.unparse(n))
    add("coreRunSavesTriggerListByCopy", "Bool", "true" if (restores and by_copy) else "false",
        "Actuator.run saves a COPY of strategy.triggers (list(...)) before _run and hands that copy back: triggers appended by initialize() are not in it")
    add("coreRunResetsGivenTriggersOnly", "Bool", "true" if (resets_given and not resets_all and restores) else "false",
        "Actuator.run resets only the triggers installed before the run (those installed by initialize() keep their state)")
    # --- how a run ends when a hook raises (C05) and how the trigger loop iterates (C18) -------------------------------------------------
    # class DemeterError(<base>): is an uncaught refusal of an operation a RuntimeError (what the handler around the bar loop catches)?
    typ = parse("demeter/_typing.py")
    bases = None
    for n in typ.body:
        if isinstance(n, ast.ClassDef) and n.name == "DemeterError":
            bases = [getattr(b, "id", getattr(b, "attr", "?")) for b in n.bases]
    if bases is None:
        raise ShapeError("class DemeterError not found in demeter/_typing.py")
    add("coreDemeterErrorIsRuntimeError", "Bool", "true" if "RuntimeError" in bases else "false",
        f"DemeterError derives from RuntimeError (bases {bases}): the except clause around the bar loop catches it")
    # the bar loop: the `for` over the bar index whose body calls before_bar
    loop_fn = bodies[-1]
    bar_loops = [n for n in ast.walk(loop_fn) if isinstance(n, ast.For)
                 and any(isinstance(c, ast.Call) and getattr(c.func, "attr", "") == "before_bar" for c in ast.walk(n))]
    if len(bar_loops) != 1:
        raise ShapeError(f"expected one bar loop (a `for` whose body calls before_bar) in {loop_fn.name}, found {len(bar_loops)}")
    bar_loop = bar_loops[0]
    # the `try` that encloses it: does a handler for RuntimeError build the account frame (`_generate_account_status_df`) before re-raising?
    builds = False
    for t in ast.walk(loop_fn):
        if isinstance(t, ast.Try) and any(bar_loop is x for b in t.body for x in ast.walk(b)):
            for h in t.handlers:
                names = [getattr(x, "id", getattr(x, "attr", "")) for x in ([h.type] if not isinstance(h.type, ast.Tuple) else h.type.elts)] if h.type is not None else ["BaseException"]
                if "RuntimeError" not in names:
                    if any(nm in ("Exception", "BaseException") for nm in names):
                        raise ShapeError("the bar loop is guarded by a handler for every exception: the model of a raising hook must be revised")
                    continue
                calls = [getattr(c.func, "attr", "") for x in h.body for c in ast.walk(x) if isinstance(c, ast.Call)]
                reraises = any(isinstance(x, ast.Raise) for y in h.body for x in ast.walk(y))
                if not reraises:
                    raise ShapeError("the RuntimeError handler around the bar loop no longer re-raises")
                guarded = any(isinstance(x, (ast.If, ast.Try)) and any(isinstance(c, ast.Call) and getattr(c.func, "attr", "") == "_generate_account_status_df"
                                                                       for c in ast.walk(x)) for y in h.body for x in ast.walk(y))
                if "_generate_account_status_df" in calls:
                    if guarded:
                        raise ShapeError("the RuntimeError handler builds the account frame under a guard: the model of a raising hook must be revised")
                    builds = True
    add("coreRuntimeErrorHandlerBuildsFrame", "Bool", "true" if builds else "false",
        "the `except RuntimeError` clause around the bar loop calls _generate_account_status_df() unguarded before re-raising: with no account row "
        "yet (a hook raising on the first bar) pandas raises IndexError there, which replaces the hook's exception")
    # --- finalize(): are the action records of the operations it issues delivered to notify() afterwards (C05)? ------------------------------
    # straight-line statements of the function that holds the bar loop: `<…>.finalize()` followed (before anything else that could record
    # or raise: only comments in between) by `self.notify(<…>, self._currents.actions)` and `self._currents.actions = []`
    def _is_call_stmt(x, attr):
        return isinstance(x, ast.Expr) and isinstance(x.value, ast.Call) and getattr(x.value.func, "attr", "") == attr
    fin_at = [i for i, x in enumerate(loop_fn.body) if _is_call_stmt(x, "finalize")]
    if len(fin_at) != 1:
        raise ShapeError(f"expected exactly one top-level `….finalize()` statement in {loop_fn.name}, found {len(fin_at)}")
    after_fin = loop_fn.body[fin_at[0] + 1:fin_at[0] + 3]
    delivers = False
    if len(after_fin) == 2 and _is_call_stmt(after_fin[0], "notify"):
        call = after_fin[0].value
        hands_currents = len(call.args) == 2 and ast.unparse(call.args[1]) == "self._currents.actions" and not call.keywords
        clears = (isinstance(after_fin[1], ast.Assign) and ast.unparse(after_fin[1].targets[0]) == "self._currents.actions"
                  and isinstance(after_fin[1].value, ast.List) and not after_fin[1].value.elts)
        if hands_currents and clears:
            delivers = True
        else:
            raise ShapeError("finalize() is followed by a notify(...) call of an unexpected shape (expected notify(strategy, self._currents.actions) "
                             "and `self._currents.actions = []`)")
    elif any(_is_call_stmt(x, "notify") for x in loop_fn.body[fin_at[0] + 1:]):
        raise ShapeError("a notify(...) call follows finalize() but not directly: the model of the deliveries after finalize() must be revised")
    add("coreFinalizeDeliversActions", "Bool", "true" if delivers else "false",
        "after strategy.finalize() the run hands self._currents.actions to notify() and clears it: the records of operations issued by "
        "finalize() are delivered like any other")
    # --- the clock the action records are stamped from (C05): `_record_action_list` stamps `self._currents.timestamp`; the bar loop assigns it
    # from the loop variable after the first status refresh and before before_bar(); before initialize() it is the first bar
    rec_fn = find_func(act, "_record_action_list", cls="Actuator")
    stamps = [n for n in ast.walk(rec_fn) if isinstance(n, ast.Assign) and ast.unparse(n.targets[0]).endswith(".timestamp")]
    if len(stamps) != 1:
        raise ShapeError("_record_action_list: expected one assignment to <action>.timestamp")
    add("coreActionStampedFromCurrents", "Bool", "true" if ast.unparse(stamps[0].value) == "self._currents.timestamp" else "false",
        "_record_action_list stamps a record with self._currents.timestamp")
    loop_var = bar_loop.target.id if isinstance(bar_loop.target, ast.Name) else None
    pos_assign = [i for i, x in enumerate(bar_loop.body) if isinstance(x, ast.Assign) and ast.unparse(x.targets[0]) == "self._currents.timestamp"]
    pos_before = [i for i, x in enumerate(bar_loop.body) if any(isinstance(c, ast.Call) and getattr(c.func, "attr", "") == "before_bar" for c in ast.walk(x))]
    pos_set = [i for i, x in enumerate(bar_loop.body) if any(isinstance(c, ast.Call) and "set_market_snapshot" in getattr(c.func, "attr", "") for c in ast.walk(x))]
    if len(pos_before) != 1 or not pos_set:
        raise ShapeError("bar loop: expected one top-level statement calling before_bar and the status refresh before it")
    clock_ok = (len(pos_assign) == 1 and pos_set[0] < pos_assign[0] < pos_before[0] and loop_var is not None
                and ast.unparse(bar_loop.body[pos_assign[0]].value) in (f"{loop_var}.to_pydatetime()", loop_var)
                and not any(isinstance(n, ast.Assign) and ast.unparse(n.targets[0]) == "self._currents.timestamp"
                            for x in bar_loop.body for n in ast.walk(x) if n is not bar_loop.body[pos_assign[0]]))
    add("coreClockSetBeforeBeforeBar", "Bool", "true" if clock_ok else "false",
        "the bar loop assigns self._currents.timestamp exactly once per bar, from the loop variable, after the first status refresh and before "
        "before_bar(): everything a hook of the bar records is stamped with that bar")
    init_pos = [i for i, x in enumerate(loop_fn.body) if _is_call_stmt(x, "init_strategy")]
    pre_assign = [i for i, x in enumerate(loop_fn.body) if isinstance(x, ast.Assign) and ast.unparse(x.targets[0]) == "self._currents.timestamp"]
    add("coreClockSetBeforeInitialize", "Bool",
        "true" if (len(init_pos) == 1 and len(pre_assign) == 1 and pre_assign[0] < init_pos[0]
                   and ast.unparse(loop_fn.body[pre_assign[0]].value).startswith("index_array[0]")) else "false",
        "before initialize() the clock is set to the first bar of the index: what initialize() records is stamped with the first bar")
    # --- which market classes raise KeyError from set_market_status on a bar their frame has no row for (C05) ---------------------------------
    # `<frame>.loc[<timestamp>]` in set_market_status, unguarded (strict: KeyError when the market is closed) or only under an
    # `if <timestamp> in <frame>.index` (tolerant: an empty status instead)
    def strict_of(path, cls):
        fn = find_func(parse(path), "set_market_status", cls=cls)
        locs = []

        def walk(node, guarded):
            if isinstance(node, ast.If):
                g = guarded or any(isinstance(c, ast.Compare) and any(isinstance(o, ast.In) for o in c.ops) and ast.unparse(c.comparators[0]).endswith(".index")
                                   for c in ast.walk(node.test))
                for x in node.body:
                    walk(x, g)
                for x in node.orelse:
                    walk(x, guarded)
                return
            if isinstance(node, (ast.Try, ast.While, ast.For, ast.With)):
                raise ShapeError(f"{cls}.set_market_status: unexpected {type(node).__name__} statement: the model of a closed market's status refresh must be revised")
            if isinstance(node, ast.Subscript) and isinstance(node.value, ast.Attribute) and node.value.attr == "loc":
                locs.append(guarded)
            for ch in ast.iter_child_nodes(node):
                walk(ch, guarded)
        for st_ in fn.body:
            walk(st_, False)
        if not locs:
            raise ShapeError(f"{cls}.set_market_status: no `<frame>.loc[...]` lookup found")
        if all(locs):
            return False
        if not any(locs):
            return True
        raise ShapeError(f"{cls}.set_market_status: guarded and unguarded row lookups mixed")
    for nm, path, cls in (("Uni", "demeter/uniswap/market.py", "UniLpMarket"), ("Aave", "demeter/aave/market.py", "AaveV3Market"),
                          ("Squeeth", "demeter/squeeth/market.py", "SqueethMarket"), ("Gmx", "demeter/gmx/market.py", "GmxMarket"),
                          ("GmxV2", "demeter/gmx/market2.py", "GmxV2Market"), ("Deribit", "demeter/deribit/market.py", "DeribitOptionMarket")):
        add(f"coreStrictStatus{nm}", "Bool", "true" if strict_of(path, cls) else "false",
            f"{cls}.set_market_status looks the bar's row up unguarded (`.loc[timestamp]`): on a bar its frame has no row for it raises KeyError "
            f"(false: the lookup is guarded by `in ….index`, the market is just closed)")
    # the trigger loop: `for <t> in <expr>: if <t>.when(…): <t>.do(…)` — over the live list `….triggers` or over a copy?
    trig_loops = [n for n in ast.walk(bar_loop) if isinstance(n, ast.For) and n is not bar_loop
                  and any(isinstance(c, ast.Call) and getattr(c.func, "attr", "") == "when" for c in ast.walk(n))]
    if len(trig_loops) != 1:
        raise ShapeError(f"expected one trigger loop (a `for` calling .when) inside the bar loop, found {len(trig_loops)}")
    it = trig_loops[0].iter
    if isinstance(it, ast.Attribute) and it.attr == "triggers":
        live = True
    elif (isinstance(it, ast.Call) and getattr(it.func, "id", getattr(it.func, "attr", "")) in ("list", "tuple", "copy") and it.args
          and getattr(it.args[0], "attr", "") == "triggers") or (isinstance(it, ast.Subscript) and getattr(it.value, "attr", "") == "triggers"
                                                                   and isinstance(it.slice, ast.Slice)):
        live = False
    else:
        raise ShapeError("the trigger loop iterates neither strategy.triggers nor a copy of it")
    add("coreTriggerLoopOverLiveList", "Bool", "true" if live else "false",
        "the trigger loop of the bar loop iterates strategy.triggers itself (index by index), not a copy: a do() that changes the list changes what "
        "the rest of the loop sees")
    if default is None or compared is None or default != compared:
        raise ShapeError(f"Actuator.interval default {default!r} and the literal run() compares with {compared!r} should be the same string")
    add("coreRawIntervalSec", "Int", f"({_seconds(default, ShapeError)})", f"the interval string {default!r} for which run() does not resample, in seconds")
    # _check_time_delta: delta.total_seconds() % 60 != 0 or delta.total_seconds() <= 0
    trg = parse("demeter/strategy/trigger.py")
    chk = find_func(trg, "_check_time_delta")
    mod = low = None
    for n in ast.walk(chk):
        if isinstance(n, ast.Compare) and isinstance(n.left, ast.BinOp) and isinstance(n.left.op, ast.Mod) and isinstance(n.ops[0], ast.NotEq):
            mod = const_int(n.left.right)
            if const_int(n.comparators[0]) != 0:
                raise ShapeError("_check_time_delta: remainder is not compared with 0")
        if isinstance(n, ast.Compare) and isinstance(n.ops[0], ast.LtE) and isinstance(n.left, ast.Call):
            low = const_int(n.comparators[0])
    if mod is None or low is None:
        raise ShapeError("_check_time_delta: expected `total_seconds() % m != 0 or total_seconds() <= c`")
    add("coreTrigDeltaMod", "Int", f"({mod})", "_check_time_delta: a period must be a multiple of this many seconds")
    add("coreTrigDeltaLow", "Int", f"({low})", "_check_time_delta: a period must be greater than this many seconds")
    # to_minute keeps year..minute: five arguments to datetime(...)
    tm = find_func(trg, "to_minute")
    call = [n for n in ast.walk(tm) if isinstance(n, ast.Call) and getattr(n.func, "id", "") == "datetime"]
    if len(call) != 1 or [getattr(a, "attr", "") for a in call[0].args] != ["year", "month", "day", "hour", "minute"]:
        raise ShapeError("to_minute no longer builds datetime(year, month, day, hour, minute)")
    add("coreMinuteSec", "Int", "(60)", "to_minute drops seconds: times are floored to multiples of this many seconds")
    # SqueethMarket.TWAP_PERIOD
    sq = parse("demeter/squeeth/market.py")
    twap = None
    for n in ast.walk(sq):
        if isinstance(n, ast.ClassDef) and n.name == "SqueethMarket":
            for b in n.body:
                if isinstance(b, ast.Assign) and getattr(b.targets[0], "id", "") == "TWAP_PERIOD":
                    twap = const_int(b.value)
    if twap is None:
        raise ShapeError("SqueethMarket.TWAP_PERIOD not found")
    add("coreTwapPeriodMin", "Int", f"({twap})", "SqueethMarket.TWAP_PERIOD in minutes: the TWAP window is the last TWAP_PERIOD minutes ending now")
