#!/usr/bin/env python3
"""Validate MANIFEST.json and evidence/*.json against the schemas in /root/.vp (run with python3-vt: needs jsonschema)."""
import json, glob, os, sys
import jsonschema
V = os.path.dirname(os.path.dirname(os.path.abspath(__file__)))
bad = 0
man = json.load(open(os.path.join(V, "MANIFEST.json")))
try:
    jsonschema.validate(man, json.load(open("/root/.vp/MANIFEST.schema.json")))
    print("MANIFEST.json ok:", len(man["checks"]), "checks,", len(man.get("not_applicable", [])), "not applicable")
except jsonschema.ValidationError as e:
    bad += 1; print("MANIFEST.json INVALID:", e.message)
ids = [json.loads(l)["id"] for l in open(os.path.join(V, "properties.jsonl"))]
claimed = [c["property_id"] for c in man["checks"]]
na = [n["property_id"] for n in man.get("not_applicable", [])]
if sorted(claimed + na) != sorted(ids):
    bad += 1; print("claimed + not_applicable != properties:", sorted(set(ids) - set(claimed) - set(na)), sorted(set(claimed) & set(na)))
es = json.load(open("/root/.vp/EVIDENCE.schema.json"))
for pid in claimed:
    p = os.path.join(V, "evidence", pid + ".json")
    if not os.path.exists(p):
        bad += 1; print(pid, "evidence missing"); continue
    ev = json.load(open(p))
    try:
        jsonschema.validate(ev, es)
        c = ev["coverage"]
        flag = "" if c.get("obligations") == c.get("discharged") and ev.get("violations", 0) == 0 else "  <-- CHECK"
        print(f"{pid} evidence ok: tier={ev['tier']} obligations {c.get('discharged')}/{c.get('obligations')} evals {c.get('evaluations')} distinct {c.get('distinct_nontrivial')} violations {ev.get('violations')} wall {ev['wall_s']}s{flag}")
    except jsonschema.ValidationError as e:
        bad += 1; print(pid, "evidence INVALID:", e.message)
sys.exit(1 if bad else 0)
