"""Constants of demeter/squeeth/market.py (class SqueethMarket) and the token names of demeter/squeeth/_typing.py,
pulled out of the source with ast -> lean/Demeter/Gen/ConstsSqueeth.lean (namespace Demeter.Gen)."""
import ast


def register(add, parse, find_func, const_int, rat_of, ShapeError, module_assign):
    tree = parse("demeter/squeeth/market.py")
    cls = None
    for n in tree.body:
        if isinstance(n, ast.ClassDef) and n.name == "SqueethMarket":
            cls = n
    if cls is None:
        raise ShapeError("class SqueethMarket not found")
    consts = {}
    for n in cls.body:
        if isinstance(n, ast.Assign) and len(n.targets) == 1 and isinstance(n.targets[0], ast.Name):
            consts[n.targets[0].id] = n.value

    def dec(name):
        """Decimal("0.5") / Decimal(3) / Decimal(1e4): the value Python's Decimal constructor gives (float -> exact binary)"""
        if name not in consts:
            raise ShapeError(f"SqueethMarket.{name} not found")
        v = consts[name]
        if not (isinstance(v, ast.Call) and getattr(v.func, "id", None) == "Decimal" and len(v.args) == 1
                and isinstance(v.args[0], ast.Constant) and isinstance(v.args[0].value, (str, int, float))):
            raise ShapeError(f"SqueethMarket.{name} is not Decimal(<literal>)")
        return v.args[0].value

    if "TWAP_PERIOD" not in consts:
        raise ShapeError("SqueethMarket.TWAP_PERIOD not found")
    add("sqTwapPeriod", "Nat", str(const_int(consts["TWAP_PERIOD"])), "SqueethMarket.TWAP_PERIOD (minutes = one-minute data points)")
    for lean, py in (("sqMinDeposit", "MIN_DEPOSIT_AMOUNT"), ("sqCrNum", "CR_NUMERATOR"), ("sqCrDen", "CR_DENOMINATOR"),
                     ("sqReduceDebtBounty", "REDUCE_DEBT_BOUNTY"), ("sqLiquidationBounty", "LIQUIDATION_BOUNTY"),
                     ("sqIndexScale", "INDEX_SCALE")):
        val = dec(py)
        add(lean, "Rat", rat_of(val), f"SqueethMarket.{py} = Decimal({val!r})")

    # `_get_liquidation_result` halves the debt: `vault_short_amount / 2`
    fn = find_func(tree, "_get_liquidation_result", cls="SqueethMarket")
    half = None
    for n in ast.walk(fn):
        if isinstance(n, ast.BinOp) and isinstance(n.op, ast.Div) and getattr(n.left, "id", "") == "vault_short_amount":
            half = const_int(n.right)
    if half is None:
        raise ShapeError("_get_liquidation_result: vault_short_amount / <int> not found")
    add("sqLiqDivisor", "Rat", rat_of(half), "_get_liquidation_result liquidates vault_short_amount / this")

    # get_twap_price: start = now - timedelta(minutes=TWAP_PERIOD - k)
    fn = find_func(tree, "get_twap_price", cls="SqueethMarket")
    k = None
    for n in ast.walk(fn):
        if isinstance(n, ast.Call) and getattr(n.func, "id", "") == "timedelta":
            for kw in n.keywords:
                if kw.arg == "minutes" and isinstance(kw.value, ast.BinOp) and isinstance(kw.value.op, ast.Sub) \
                        and getattr(kw.value.left, "attr", "") == "TWAP_PERIOD":
                    k = const_int(kw.value.right)
    if k is None:
        raise ShapeError("get_twap_price: timedelta(minutes=TWAP_PERIOD - k) not found")
    add("sqTwapBack", "Nat", str(k), "get_twap_price: start = now - (TWAP_PERIOD - this) minutes")

    # token names (TokenInfo upper-cases its name) and decimals
    ttree = parse("demeter/squeeth/_typing.py")
    for lean, py in (("sqOsqth", "oSQTH"), ("sqWeth", "WETH")):
        v = module_assign(ttree, py)
        if not (isinstance(v, ast.Call) and getattr(v.func, "id", "") == "TokenInfo" and isinstance(v.args[0], ast.Constant)):
            raise ShapeError(f"_typing.{py} is not TokenInfo(<str>, <int>)")
        add(lean + "Name", "String", '"' + v.args[0].value.upper() + '"', f"squeeth/_typing.py {py}.name (TokenInfo upper-cases)")
        add(lean + "Decimals", "Nat", str(const_int(v.args[1])), f"squeeth/_typing.py {py}.decimal")
