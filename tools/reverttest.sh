#!/bin/sh
# tools/reverttest.sh <fix-commit> <property> [<property> ...]
# Re-introduces the defect repaired by a "fix:" commit of /repo (reverse patch on a scratch worktree) and runs the named
# checks against it, through tools/seedtest.sh.  A check that stays quiet does not detect the return of that defect.
set -u
C="$1"; shift
D=/var/tmp/revert.$$.$C
mkdir -p "$D"
git -C /repo diff "$C" "$C~1" > "$D/patch.diff"
sh "$(dirname "$0")/seedtest.sh" "$D" "$@"
rc=$?
rm -rf "$D"
exit $rc
