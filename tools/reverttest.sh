#!/bin/sh
# tools/reverttest.sh <fix-commit>[+<fix-commit>...] <property> [<property> ...]
# Re-introduces the defect repaired by a "fix:" commit of /repo (reverse patch on a scratch worktree) and runs the named
# checks against it, through tools/seedtest.sh.  A check that stays quiet does not detect the return of that defect.
# Several commits joined by "+" are reverted together, newest first (a later fix that rewrote the same lines makes the reverse patch
# of the earlier one conflict on its own: c510ccb is only revertible together with 7afdd12, `reverttest.sh 7afdd12+c510ccb C02 C18`).
# The reverse patch is made with `git revert --no-commit` in a scratch worktree, so context that moved since the fix is handled by git's merge.
set -u
C="$1"; shift
D=/var/tmp/revert.$$
mkdir -p "$D"
git -C /repo worktree add -q --detach "$D/wt" HEAD || exit 2
ok=1
for c in $(echo "$C" | tr '+' ' '); do
  git -C "$D/wt" revert --no-commit "$c" >/dev/null 2>&1 || ok=0
done
if [ "$ok" = 1 ]; then git -C "$D/wt" diff HEAD > "$D/patch.diff"; else git -C /repo diff "$C" "$C~1" > "$D/patch.diff" 2>/dev/null; fi
git -C "$D/wt" revert --abort >/dev/null 2>&1
git -C /repo worktree remove --force "$D/wt"
if [ "$ok" != 1 ]; then echo "reverting $C on /repo HEAD conflicts (a later fix rewrote the same lines: revert them together, e.g. 7afdd12+c510ccb)"; fi
sh "$(dirname "$0")/seedtest.sh" "$D" "$@"
rc=$?
rm -rf "$D"
exit $rc
