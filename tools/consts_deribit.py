"""Constants of the Deribit option market (demeter/deribit/market.py, _typing.py) -> lean/Demeter/Gen/ConstsDeribit.lean."""
import ast


def register(add, parse, find_func, const_int, rat_of, ShapeError, module_assign):
    tree = parse("demeter/deribit/market.py")
    cls = None
    for n in ast.walk(tree):
        if isinstance(n, ast.ClassDef) and n.name == "DeribitOptionMarket":
            cls = n
    if cls is None:
        raise ShapeError("class DeribitOptionMarket not found")

    def dec_text(node):
        # Decimal("...") with a string literal -> its text
        from gen_common import resolve
        node = resolve(node)
        if isinstance(node, ast.Call) and getattr(node.func, "id", None) == "Decimal" and len(node.args) == 1 \
                and isinstance(node.args[0], ast.Constant) and isinstance(node.args[0].value, str):
            return node.args[0].value
        raise ShapeError("expected Decimal(\"literal\"): " + ast.dump(node))

    max_fee = None
    configs = {}
    for n in cls.body:
        if isinstance(n, ast.Assign) and getattr(n.targets[0], "id", "") == "MAX_FEE_RATE":
            max_fee = dec_text(n.value)
        if isinstance(n, ast.Assign) and getattr(n.targets[0], "id", "") == "TOKEN_CONFIGS":
            if not isinstance(n.value, ast.Dict):
                raise ShapeError("TOKEN_CONFIGS is not a dict literal")
            for k, v in zip(n.value.keys, n.value.values):
                if not (isinstance(v, ast.Call) and getattr(v.func, "id", "") == "DeribitTokenConfig"):
                    raise ShapeError("TOKEN_CONFIGS value is not DeribitTokenConfig(...)")
                kw = {a.arg: a.value for a in v.keywords}
                for f in ("trade_fee_rate", "delivery_fee_rate", "min_trade_decimal", "min_fee_decimal"):
                    if f not in kw:
                        raise ShapeError(f"DeribitTokenConfig lacks {f}")
                configs[getattr(k, "id", None)] = kw
    if max_fee is None or set(configs) != {"ETH", "BTC"}:
        raise ShapeError("MAX_FEE_RATE / TOKEN_CONFIGS[ETH,BTC] not found")
    add("deribitMaxFeeRate", "Rat", rat_of(max_fee), f"DeribitOptionMarket.MAX_FEE_RATE = Decimal(\"{max_fee}\")")
    for tok, kw in configs.items():
        t = tok.capitalize()
        add(f"deribit{t}TradeFeeRate", "Rat", rat_of(dec_text(kw["trade_fee_rate"])), f"TOKEN_CONFIGS[{tok}].trade_fee_rate")
        add(f"deribit{t}DeliveryFeeRate", "Rat", rat_of(dec_text(kw["delivery_fee_rate"])), f"TOKEN_CONFIGS[{tok}].delivery_fee_rate")
        add(f"deribit{t}MinTradeDecimal", "Int", f"({const_int(kw['min_trade_decimal'])})", f"TOKEN_CONFIGS[{tok}].min_trade_decimal (exponent of the contract step)")
        add(f"deribit{t}MinFeeDecimal", "Int", f"({const_int(kw['min_fee_decimal'])})", f"TOKEN_CONFIGS[{tok}].min_fee_decimal (exponent of the fee step)")

    # the +-0.1 % window of _find_available_orders
    fn = find_func(tree, "_find_available_orders", cls="DeribitOptionMarket")
    err = None
    for n in fn.body:
        if isinstance(n, ast.Assign) and getattr(n.targets[0], "id", "") == "error":
            err = dec_text(n.value)
    if err is None:
        raise ShapeError("_find_available_orders: error = Decimal(...) not found")
    add("deribitPriceMatchError", "Rat", rat_of(err), f"_find_available_orders: error = Decimal(\"{err}\")")

    # hourly grid: DERIBIT_OPTION_FREQ = "1h"
    ttree = parse("demeter/deribit/_typing.py")
    freq = module_assign(ttree, "DERIBIT_OPTION_FREQ")
    if not (isinstance(freq, ast.Constant) and isinstance(freq.value, str)):
        raise ShapeError("DERIBIT_OPTION_FREQ is not a string literal")
    units = {"h": 60, "min": 1, "d": 1440}
    import re
    m = re.fullmatch(r"(\d+)\s*(h|min|d)", freq.value.lower())
    if not m:
        raise ShapeError("DERIBIT_OPTION_FREQ has an unexpected form: " + freq.value)
    add("deribitFreqMinutes", "Nat", str(int(m.group(1)) * units[m.group(2)]), f"DERIBIT_OPTION_FREQ = \"{freq.value}\" in minutes")
