#!/usr/bin/env python3
"""py2lean — translate a small, explicitly delimited subset of Python (the pure arithmetic core of demeter)
into Lean 4 definitions, so that the hand-written Lean model can be tied to what the code says NOW by
kernel-checked theorems (lean/Proofs/Tie/*.lean).  See lean/Proofs/Tie/README.md for the grammar.

Only `ast` is used; nothing of /repo is imported or executed.  The translator is syntax directed and keeps
the source's statement structure: one Python statement = one statement of a Lean `do` block in the monad
`Demeter.Py.M = Except Err` (`let mut` variables, `if/else`, early `return`, `for` over a dict).  Expressions
are emitted in A-normal form: every operation that can raise (`//`, `%`, `/` with a non-constant divisor,
`**` with a non-constant exponent, calls, dict lookups) becomes its own `let t ← …` line, in Python's
left-to-right evaluation order; everything else is a pure term.  Every Decimal `+ - * /` becomes
`cx.add/sub/mul/div` in the source's order, so the generated definition is parametric in the rounding context.

Anything outside the subset raises `ShapeError` naming the construct; that function (and every function that
calls it) is then NOT emitted, a `-- SHAPE-ERROR` comment is, and the tie theorem that mentions it stops
compiling — the failure is loud and local to the properties guarded by that function.

Types:  'int' ↦ Int,  'dec' ↦ Rat,  'bool' ↦ Bool (Prop in conditions),  'str' ↦ String,
        'tok' ↦ String (a TokenInfo is identified with its `.name`: its __eq__/__hash__ use only the name),
        'xdec' ↦ Py.XDec (a Decimal that may be Decimal("inf"); only built and returned, never operated on),
        'frame' ↦ String → String → M Rat (a pandas frame read as `frame.loc[row].column`; row/column misses raise inside),
        ('tuple', [τ…]) ↦ τ × …,  ('dict', τ) ↦ List (String × τ) in insertion order (keys are 'tok').
"""
import ast, copy, os, re, sys

sys.path.insert(0, os.path.dirname(os.path.abspath(__file__)))
from gen_common import REPO, OUT, ShapeError

LEAN_TY = {"int": "Int", "dec": "Rat", "dec0": "Rat", "bool": "Bool", "str": "String", "tok": "String", "xdec": "Py.XDec",
           "frame": "String → String → M Rat",
           # a datetime / timedelta on the whole-second grid: seconds since an epoch / seconds (the trigger classes; sub-second parts are outside)
           "time": "Int", "delta": "Int", "trange": "Int × Int", "unit": "Unit",
           # float mode: a Python float is a value of the abstract number type α of the generated file (see Demeter/PyFloat.lean)
           "flt": "α"}

RECORDS = {}      # record class name -> [(field, type)]: filled by Unit.check_records (NamedTuples and dataclasses of the source, as tuples of their fields)



def lean_ty(t):
    if isinstance(t, tuple) and t[0] == "tuple":
        return " × ".join(("(" + lean_ty(x) + ")") if isinstance(x, tuple) else lean_ty(x) for x in t[1])
    if isinstance(t, tuple) and t[0] == "dict":
        return f"List (String × {lean_ty(t[1])})"
    if isinstance(t, tuple) and t[0] == "opt":
        return f"Option ({lean_ty(t[1])})"
    if isinstance(t, tuple) and t[0] == "list":
        return f"List ({lean_ty(t[1])})"
    if isinstance(t, tuple) and t[0] == "rec":
        return lean_ty(("tuple", [ft for _, ft in RECORDS[t[1]]]))
    return LEAN_TY[t]


def placeholder(t):
    """a value of the type, for a variable that is declared before an `if` whose every continuing branch assigns it (no path reads the placeholder)"""
    if isinstance(t, tuple) and t[0] == "tuple":
        return "(" + ", ".join(placeholder(x) for x in t[1]) + ")"
    if isinstance(t, tuple) and t[0] == "rec":
        return placeholder(("tuple", [ft for _, ft in RECORDS[t[1]]])) if len(RECORDS[t[1]]) > 1 else placeholder(RECORDS[t[1]][0][1])
    if isinstance(t, tuple) and t[0] == "opt":
        return "none"
    if isinstance(t, tuple) and t[0] in ("list", "dict"):
        return "[]"
    return {"int": "(0 : Int)", "dec": "(0 : Rat)", "dec0": "(0 : Rat)", "flt": "(0 : α)", "bool": "false", "str": '""', "tok": '""',
            "time": "(0 : Int)", "delta": "(0 : Int)", "xdec": "(Py.XDec.fin 0)", "trange": "((0 : Int), (0 : Int))"}[t]


def rec_proj(term, fields, name):
    """projection of a field out of the right-nested tuple of a record's fields"""
    names = [f for f, _ in fields]
    i, n = names.index(name), len(names)
    if n == 1:
        return term
    return f"{term}" + ".2" * i + ("" if i == n - 1 else ".1")


def fail(node, what):
    line = getattr(node, "lineno", "?")
    raise ShapeError(f"line {line}: {what}")


def const_value(node):
    """value of a constant int expression, or None (used only to decide that a divisor / exponent / shift is a
    known non-zero / non-negative constant; the expression itself is emitted unfolded)"""
    try:
        if isinstance(node, ast.Constant) and type(node.value) is int:
            return node.value
        if isinstance(node, ast.UnaryOp) and isinstance(node.op, ast.USub):
            v = const_value(node.operand)
            return None if v is None else -v
        if isinstance(node, ast.BinOp):
            a, b = const_value(node.left), const_value(node.right)
            if a is None or b is None:
                return None
            op = node.op
            if isinstance(op, ast.Add): return a + b
            if isinstance(op, ast.Sub): return a - b
            if isinstance(op, ast.Mult): return a * b
            if isinstance(op, ast.Pow) and 0 <= b <= 4096: return a ** b
            if isinstance(op, ast.LShift) and 0 <= b <= 4096: return a << b
            if isinstance(op, ast.RShift) and b >= 0: return a >> b
            if isinstance(op, ast.FloorDiv) and b != 0: return a // b
    except Exception:
        return None
    return None


def dec_literal(s, node):
    """Lean Rat term for Decimal("<s>") — finite literals only"""
    from decimal import Decimal, InvalidOperation
    from fractions import Fraction
    try:
        d = Decimal(s)
    except InvalidOperation:
        fail(node, f"Decimal({s!r}) is not a number")
    if not d.is_finite():
        fail(node, f"Decimal({s!r}) is not finite (Rat has no inf/nan)")
    fr = Fraction(d)
    if fr.denominator == 1:
        return f"({fr.numerator} : Rat)", fr
    return f"(({fr.numerator} : Rat) / {fr.denominator})", fr


class Sig:
    def __init__(self, name, lean_name, params, ret=None, uses_cx=False, uses_pow=False):
        self.name, self.lean_name, self.params, self.ret, self.uses_cx, self.uses_pow = name, lean_name, params, ret, uses_cx, uses_pow


class Fn:
    """translation of one function definition"""

    def __init__(self, unit, fdef, params, consts):
        self.unit, self.fdef, self.consts = unit, fdef, consts
        self.params = params            # [(name, type)]
        self.lines = []
        self.ntmp = 0
        self.uses_cx = False
        self.uses_pow = False
        self.uses_fuel = False
        self.uses_o = False
        self.hoist = {}            # (line, col) of an `if` -> [(name, type)] first assigned in every continuing branch: declared before it (N3)
        self.hoisted = {}          # such names that are declared and not yet in scope as assigned variables
        self.promote = set()       # float mode: variables that hold the int literal 0 at one point and a float at another: the float zero
        self.probing = False
        self.used_reads = {}
        self.ret_types = []
        self.ret = None
        # `let mut` only for variables that are really re-assigned: found by a first pass (see translate())
        self.mut = None
        self.reassigned = set()

    # ---------------------------------------------------------------- helpers
    def emit(self, ind, s):
        self.lines.append("  " * ind + s)

    def tmp(self):
        self.ntmp += 1
        return f"t{self.ntmp}"

    def cx(self):
        self.uses_cx = True
        return "cx"

    def as_dec(self, term, ty, node):
        if ty == "dec":
            return term
        if ty == "int":
            m = re.fullmatch(r"\((-?\d+) : Int\)", term)
            if m:
                return f"({m.group(1)} : Rat)"      # an int literal: the same number as a Rat literal
            return f"(({term} : Int) : Rat)"
        fail(node, f"a {ty} where a Decimal or int is needed")

    def as_flt(self, term, ty, node):
        """float mode: a float, or the int literal 0 (CPython converts an int operand of float arithmetic exactly; only the literal 0 is supported)"""
        if ty == "flt":
            return term
        if ty == "int" and term == "(0 : Int)":
            return "(0 : α)"
        if ty == "int" and self.probing and re.fullmatch(r"[A-Za-z_]\w*", term) and self.unit.float_mode:
            self.promote.add(term)      # pass 1: an int variable used among floats — in pass 2 it is a float from its first assignment (which must be the literal 0)
            return term
        fail(node, f"a {ty} where a float is needed (among floats only the int literal 0 is converted)")

    def ops(self):
        self.uses_o = True
        return "o"

    def as_prop(self, term, ty, node):
        if ty == "prop":
            return term
        if ty == "bool":
            return f"({term} = true)"
        fail(node, f"truth value of a non-bool ({ty}) — only comparisons and bools are conditions")

    def as_bool(self, term, ty, node):
        if ty == "bool":
            return term
        if ty == "prop":
            return f"(decide ({term}))"
        fail(node, f"a {ty} where a bool is needed")

    def val(self, a, ta, ind):
        """an Optional used as a value: None raises TypeError in CPython (`None < x`, `None + x`)"""
        if isinstance(ta, tuple) and ta[0] == "opt":
            return self.effect(ind, f"Py.unwrap {a}", ta[1])
        return a, ta

    # ---------------------------------------------------------------- expressions
    def effect(self, ind, action, ty):
        """bind the result of a monadic action to a fresh temporary"""
        t = self.tmp()
        self.emit(ind, f"let {t} ← {action}")
        return t, ty

    def expr(self, n, env, ind):
        """returns (lean term, type); emits `let t ← …` lines for the raising sub-operations, in evaluation order"""
        if self.unit.cur_reads and isinstance(n, (ast.Attribute, ast.Subscript, ast.Call)):
            key = ast.unparse(n)
            if key in self.unit.cur_reads:      # an input of the function, named by its exact source text (see Unit.reads)
                name, ty = self.unit.cur_reads[key]
                self.used_reads[name] = ty
                return name, ty
        if isinstance(n, ast.Constant):
            if type(n.value) is bool:
                return ("true" if n.value else "false"), "bool"
            if type(n.value) is int:
                return f"({n.value} : Int)", "int"
            if type(n.value) is str:
                return '"' + n.value.replace("\\", "\\\\").replace('"', '\\"') + '"', "str"
            if n.value is None:
                return "none", "none"
            if type(n.value) is float and n.value == n.value and abs(n.value) != float("inf"):
                # a float literal: usable only as an operand of a comparison with a Decimal / int, which CPython decides on the exact
                # binary value of the float (no rounding, no context)
                num, den = n.value.as_integer_ratio()
                return f"(({num} : Rat) / ({den} : Rat))", "fconst"
            fail(n, f"constant of type {type(n.value).__name__} (None, bytes, non-finite floats are outside the subset)")
        if isinstance(n, ast.Name):
            if n.id in env:
                return n.id, env[n.id]
            if n.id in self.consts:
                return self.consts[n.id]
            auto = self.unit.auto_consts.get(n.id)
            if auto is not None:      # a module- or class-level `NAME = <literal>` of the same file, assigned exactly once (a literal given a name)
                return auto
            fail(n, f"name '{n.id}' is not a (definitely assigned) local, parameter or known constant")
        if isinstance(n, ast.Attribute):
            # ClassName.CONST
            if isinstance(n.value, ast.Name) and n.value.id == self.unit.cur_cls and n.attr in self.consts:
                return self.consts[n.attr]
            # frame.loc[row].column
            v = n.value
            if isinstance(v, ast.Subscript) and isinstance(v.value, ast.Attribute) and v.value.attr == "loc" \
                    and isinstance(v.value.value, ast.Name) and env.get(v.value.value.id) == "frame":
                k, tk = self.expr(v.slice, env, ind)
                if tk not in ("str", "tok"):
                    fail(n, f".loc[] with a {tk} row key")
                return self.effect(ind, f'{v.value.value.id} {k} "{n.attr}"', "dec")
            if n.attr in ("start", "end") and isinstance(n.value, ast.Name) and env.get(n.value.id) == "trange":
                return f"{n.value.id}.{1 if n.attr == 'start' else 2}", "time"     # TimeRange(start, end)
            if isinstance(n.value, ast.Name) and n.value.id not in env and (n.value.id, n.attr) in self.unit.enums:
                return f"({self.unit.enums[(n.value.id, n.attr)]} : Int)", "int"      # a member of an int-valued Enum of the source: its value
            if isinstance(n.value, ast.Name) and isinstance(env.get(n.value.id), tuple) and env[n.value.id][0] == "rec":
                fields = RECORDS[env[n.value.id][1]]
                if n.attr not in dict(fields):
                    fail(n, f"{env[n.value.id][1]} has no field {n.attr}")
                return rec_proj(n.value.id, fields, n.attr), dict(fields)[n.attr]
            if n.attr == "name":
                a, ta = self.expr(n.value, env, ind)
                if ta == "tok":
                    return a, "str"       # a TokenInfo is represented by its name
            fail(n, f"attribute access .{n.attr}")
        if isinstance(n, ast.UnaryOp):
            if isinstance(n.op, ast.Not):
                a, ta = self.expr(n.operand, env, ind)
                return f"(¬ {self.as_prop(a, ta, n)})", "prop"
            a, ta = self.expr(n.operand, env, ind)
            if isinstance(n.op, ast.USub):
                if ta == "int":
                    return f"(-{a})", "int"
                if ta == "dec":
                    return f"(Py.dneg {self.cx()} {a})", "dec"
                if ta == "flt":
                    return f"(-{a})", "flt"
            if isinstance(n.op, ast.UAdd):
                if ta == "int":
                    return a, "int"
                if ta == "dec":
                    return f"(Py.dpos {self.cx()} {a})", "dec"
            fail(n, f"unary {type(n.op).__name__} on {ta}")
        if isinstance(n, ast.BinOp):
            return self.binop(n, env, ind)
        if isinstance(n, ast.Compare):
            terms = []
            left, tl = self.expr(n.left, env, ind)
            for op, rn in zip(n.ops, n.comparators):
                right, tr = self.expr(rn, env, ind)
                if not isinstance(op, (ast.Is, ast.IsNot)):
                    left, tl = self.val(left, tl, ind)
                    right, tr = self.val(right, tr, ind)
                terms.append(self.compare(n, op, left, tl, right, tr))
                left, tl = right, tr
            return ("(" + " ∧ ".join(terms) + ")" if len(terms) > 1 else terms[0]), "prop"
        if isinstance(n, ast.BoolOp):
            parts = []
            for i, v in enumerate(n.values):
                mark = len(self.lines)
                a, ta = self.expr(v, env, ind)
                if i > 0 and len(self.lines) != mark:
                    fail(n, "an operand of and/or after the first can raise (short-circuit order is not modelled)")
                parts.append(self.as_prop(a, ta, v))
            return "(" + (" ∧ " if isinstance(n.op, ast.And) else " ∨ ").join(parts) + ")", "prop"
        if isinstance(n, ast.IfExp):
            c, tc = self.expr(n.test, env, ind)
            c = self.as_prop(c, tc, n)
            mark = len(self.lines)
            a, ta = self.expr(n.body, env, ind + 1)
            la = self.lines[mark:]; del self.lines[mark:]
            b, tb = self.expr(n.orelse, env, ind + 1)
            lb = self.lines[mark:]; del self.lines[mark:]
            if ta == "prop": a, ta = self.as_bool(a, ta, n), "bool"
            if tb == "prop": b, tb = self.as_bool(b, tb, n), "bool"
            if isinstance(ta, str) and isinstance(tb, str) and ta != tb and {ta, tb} <= {"int", "dec", "dec0"}:
                # an int on one path, a Decimal on the other: a 'num' (type dec0) — the value, usable only where an int
                # and a Decimal of that value behave alike (arithmetic with a Decimal partner, comparisons, Decimal())
                a, b = self.as_dec(a, ta, n) if ta == "int" else a, self.as_dec(b, tb, n) if tb == "int" else b
                ta = tb = "dec0"
            if isinstance(ta, str) and isinstance(tb, str) and {ta, tb} == {"int", "flt"}:
                a, b = self.as_flt(a, ta, n), self.as_flt(b, tb, n)
                ta = tb = "flt"
            if isinstance(ta, str) and isinstance(tb, str) and {ta, tb} == {"dec", "xdec"}:
                if ta == "dec": a, ta = f"(Py.XDec.fin {a})", "xdec"
                if tb == "dec": b, tb = f"(Py.XDec.fin {b})", "xdec"
            if ta != tb:
                fail(n, f"conditional expression with branches of different types ({ta}, {tb})")
            if not la and not lb:
                return f"(if {c} then {a} else {b})", ta
            # a branch can raise: evaluate only the chosen branch
            t = self.tmp()
            self.emit(ind, f"let {t} ← (do")
            self.emit(ind + 1, f"if {c} then")
            self.lines += ["  " + l for l in la]
            self.emit(ind + 2, f"pure {a}")
            self.emit(ind + 1, "else")
            self.lines += ["  " + l for l in lb]
            self.emit(ind + 2, f"pure {b})")
            return t, ta
        if isinstance(n, ast.Tuple):
            parts, tys = [], []
            for e in n.elts:
                a, ta = self.expr(e, env, ind)
                if ta == "prop": a, ta = self.as_bool(a, ta, e), "bool"
                parts.append(a); tys.append(ta)
            return "(" + ", ".join(parts) + ")", ("tuple", tys)
        if isinstance(n, ast.List):
            if not n.elts:
                fail(n, "empty list literal (its element type is not known)")
            parts, tys = [], []
            for e in n.elts:
                a, ta = self.expr(e, env, ind)
                parts.append(a); tys.append(ta)
            if any(t != tys[0] for t in tys) or tys[0] not in ("int", "dec", "time", "delta"):
                fail(n, f"list literal with elements of types {tys} (one of int / Decimal / time is needed)")
            return "[" + ", ".join(parts) + "]", ("list", tys[0])
        if isinstance(n, ast.ListComp):
            if len(n.generators) != 1 or n.generators[0].ifs or n.generators[0].is_async or not isinstance(n.generators[0].target, ast.Name):
                fail(n, "list comprehension with several generators, a filter or a tuple target")
            g = n.generators[0]
            l, tl = self.expr(g.iter, env, ind)
            if not (isinstance(tl, tuple) and tl[0] == "list"):
                fail(n, f"list comprehension over a {tl}")
            env2 = dict(env); env2[g.target.id] = tl[1]
            mark = len(self.lines)
            e, te = self.expr(n.elt, env2, ind)
            if len(self.lines) != mark:
                fail(n, "list comprehension whose element expression can raise")
            return f"({l}.map (fun {g.target.id} => {e}))", ("list", te)
        if isinstance(n, ast.Call):
            return self.call(n, env, ind)
        if isinstance(n, ast.Subscript):
            d, td = self.expr(n.value, env, ind)
            if isinstance(td, tuple) and td[0] == "dict":
                k, tk = self.expr(n.slice, env, ind)
                if tk != "str":
                    fail(n, "dict subscript with a non-str key")
                return self.effect(ind, f"Py.lookup {d} {k}", td[1])
            if isinstance(td, tuple) and td[0] == "list":
                if isinstance(n.slice, ast.Slice):
                    fail(n, "slice of a list")
                k, tk = self.expr(n.slice, env, ind)
                if tk != "int":
                    fail(n, f"list index of type {tk}")
                return self.effect(ind, f"Py.index {d} {k}", td[1])       # IndexError when out of range; negative indices count from the end
            fail(n, f"subscript of a {td}")
        fail(n, f"expression {type(n).__name__}")

    def compare(self, n, op, a, ta, b, tb):
        sym = {ast.Lt: "<", ast.LtE: "≤", ast.Gt: ">", ast.GtE: "≥", ast.Eq: "=", ast.NotEq: "≠"}.get(type(op))
        if isinstance(op, (ast.Is, ast.IsNot)):
            if tb == "none" and isinstance(ta, tuple) and ta[0] == "opt":
                return f"({a} = none)" if isinstance(op, ast.Is) else f"({a} ≠ none)"
            fail(n, f"`is` between {ta} and {tb} (only `<optional> is [not] None`)")
        if isinstance(op, (ast.In, ast.NotIn)) and isinstance(tb, tuple) and tb[0] == "list" and ta == tb[1] and ta in ("time", "int", "delta"):
            return f"({a} ∈ {b})" if isinstance(op, ast.In) else f"(¬ ({a} ∈ {b}))"
        if isinstance(op, (ast.In, ast.NotIn)):
            # `k in d` / `k in d.keys()` : b was compiled from the right operand
            if isinstance(tb, tuple) and tb[0] in ("dict", "keys") and ta in ("tok", "str"):
                r = f"(Py.hasKey {b} {a} = true)"
                return r if isinstance(op, ast.In) else f"(¬ {r})"
            fail(n, f"membership test of a {ta} in a {tb}")
        if sym is None:
            fail(n, f"comparison {type(op).__name__}")
        if ta == "prop": a, ta = self.as_bool(a, ta, n), "bool"
        if tb == "prop": b, tb = self.as_bool(b, tb, n), "bool"
        if ta == "dec0": ta = "dec"       # comparisons are exact: int 0 and Decimal 0 compare alike
        if tb == "dec0": tb = "dec"
        if ta == tb and ta in ("time", "delta"):          # datetimes / timedeltas on the second grid compare as their second counts
            return f"({a} {sym} {b})"
        if {ta, tb} == {"delta", "int"}:                  # delta.total_seconds() against an int literal
            return f"({a} {sym} {b})"
        if "fconst" in (ta, tb):           # Decimal/int against a float literal: exact comparison of the two values
            if ta == tb or not {ta, tb} <= {"fconst", "dec", "int"}:
                fail(n, f"comparison {sym} between {ta} and {tb}")
            a = a if ta == "fconst" else self.as_dec(a, ta, n)
            b = b if tb == "fconst" else self.as_dec(b, tb, n)
            return f"({a} {sym} {b})"
        if "flt" in (ta, tb):
            if sym in ("=", "≠"):
                fail(n, "== / != between floats (not in the subset: use an ordering comparison)")
            return f"({self.as_flt(a, ta, n)} {sym} {self.as_flt(b, tb, n)})"
        if ta == tb and ta in ("int", "dec"):
            return f"({a} {sym} {b})"
        if {ta, tb} == {"int", "dec"}:  # exact comparison, no rounding
            return f"({self.as_dec(a, ta, n)} {sym} {self.as_dec(b, tb, n)})"
        if ta == tb and ta in ("str", "bool", "tok") and sym in ("=", "≠"):
            return f"({a} {sym} {b})"
        fail(n, f"comparison {sym} between {ta} and {tb}")

    def binop(self, n, env, ind):
        op = n.op
        a, ta = self.expr(n.left, env, ind)
        b, tb = self.expr(n.right, env, ind)
        a, ta = self.val(a, ta, ind)
        b, tb = self.val(b, tb, ind)
        if {ta, tb} <= {"time", "delta"} and "delta" in (ta, tb) and isinstance(op, ast.Add):
            return f"({a} + {b})", ("time" if "time" in (ta, tb) else "delta")     # datetime + timedelta, timedelta + timedelta
        if ta in ("delta",) and tb == "int" and isinstance(op, ast.Mod) and const_value(n.right) not in (None, 0):
            return f"(Int.fmod {a} {b})", "int"                                     # delta.total_seconds() % 60
        cb = const_value(n.right)
        if cb is None:
            rn = n.right
            nm = rn.id if isinstance(rn, ast.Name) else (rn.attr if isinstance(rn, ast.Attribute) else None)
            if nm in self.consts and isinstance(self.unit.const_values.get(nm), int):
                cb = self.unit.const_values[nm]
        if "flt" in (ta, tb):
            a, b = self.as_flt(a, ta, n), self.as_flt(b, tb, n)
            if isinstance(op, ast.Add): return f"({a} + {b})", "flt"
            if isinstance(op, ast.Sub): return f"({a} - {b})", "flt"
            if isinstance(op, ast.Mult): return f"({a} * {b})", "flt"
            if isinstance(op, ast.Div): return self.effect(ind, f"Py.fdiv {self.ops()} {a} {b}", "flt")      # ZeroDivisionError when b == 0
            if isinstance(op, ast.Pow): return self.effect(ind, f"Py.fpow {self.ops()} {a} {b}", "flt")      # CPython's float_pow
            fail(n, f"float operator {type(op).__name__} (only + - * / ** are translated)")
        if ta == "int" and tb == "int":
            if isinstance(op, ast.Add): return f"({a} + {b})", "int"
            if isinstance(op, ast.Sub): return f"({a} - {b})", "int"
            if isinstance(op, ast.Mult): return f"({a} * {b})", "int"
            if isinstance(op, ast.FloorDiv):
                if cb is not None and cb != 0: return f"(Int.fdiv {a} {b})", "int"
                return self.effect(ind, f"Py.floordiv {a} {b}", "int")
            if isinstance(op, ast.Mod):
                if cb is not None and cb != 0: return f"(Int.fmod {a} {b})", "int"
                return self.effect(ind, f"Py.mod {a} {b}", "int")
            if isinstance(op, ast.Pow):
                if cb is not None and cb >= 0: return f"({a} ^ ({cb} : Nat))", "int"
                return self.effect(ind, f"Py.ipow {a} {b}", "int")
            if isinstance(op, ast.RShift):
                if cb is not None and cb >= 0: return f"({a} >>> ({cb} : Nat))", "int"
                return self.effect(ind, f"Py.shr {a} {b}", "int")
            if isinstance(op, ast.LShift):
                if cb is not None and cb >= 0: return f"(Py.shlc {a} {cb})", "int"
                return self.effect(ind, f"Py.shl {a} {b}", "int")
            if isinstance(op, ast.BitAnd): return f"(Py.band {a} {b})", "int"
            if isinstance(op, ast.BitOr): return f"(Py.bor {a} {b})", "int"
            if isinstance(op, ast.Div): fail(n, "int / int is a float (outside the subset)")
            fail(n, f"int operator {type(op).__name__}")
        # sum(...) is the int 0 when empty: with a Decimal operand it then acts exactly as Decimal(0); with an int or
        # another sum the empty case would be int arithmetic (no rounding) — not modelled
        if "dec0" in (ta, tb):
            if {ta, tb} != {"dec0", "dec"}:
                fail(n, f"arithmetic between the result of sum() and a {tb if ta == 'dec0' else ta}")
            ta = tb = "dec"
        if ta == "dec" and tb == "int" and isinstance(op, ast.Pow):
            if cb is None or cb <= 0:
                fail(n, "Decimal ** <non-constant or non-positive exponent>")
            self.uses_pow = True
            return f"(dpow {a} {cb})", "dec"
        if "dec" in (ta, tb) and ta in ("int", "dec") and tb in ("int", "dec"):
            a, b = self.as_dec(a, ta, n), self.as_dec(b, tb, n)
            if isinstance(op, ast.Add): return f"({self.cx()}.add {a} {b})", "dec"
            if isinstance(op, ast.Sub): return f"({self.cx()}.sub {a} {b})", "dec"
            if isinstance(op, ast.Mult): return f"({self.cx()}.mul {a} {b})", "dec"
            if isinstance(op, ast.Div):
                nz = (cb is not None and cb != 0) or self.nonzero_dec_const(n.right)
                if nz: return f"({self.cx()}.div {a} {b})", "dec"
                return self.effect(ind, f"Py.ddiv {self.cx()} {a} {b}", "dec")
            fail(n, f"Decimal operator {type(op).__name__} (only + - * / are translated)")
        fail(n, f"operator {type(op).__name__} between {ta} and {tb}")

    def nonzero_dec_const(self, node):
        if isinstance(node, ast.Call) and getattr(node.func, "id", None) == "Decimal" and len(node.args) == 1:
            a = node.args[0]
            if isinstance(a, ast.Constant) and isinstance(a.value, str):
                try:
                    return dec_literal(a.value, node)[1] != 0
                except ShapeError:
                    return False
            v = const_value(a)
            return v is not None and v != 0
        name = node.id if isinstance(node, ast.Name) else (node.attr if isinstance(node, ast.Attribute) else None)
        if name in self.consts and name in self.unit.const_values:
            return self.unit.const_values[name] != 0
        return False

    def call(self, n, env, ind):
        f = n.func
        if isinstance(f, ast.Name) and f.id in self.unit.records and f.id not in env:
            return self.record_call(n, env, ind)
        if n.keywords and not (isinstance(f, ast.Attribute) and f.attr == "quantize"):
            fail(n, "keyword arguments")
        fname = None
        if isinstance(f, ast.Name) and f.id in env:
            fail(n, f"call of the local variable '{f.id}'")
        if isinstance(f, ast.Name) and (self.unit.cur_parent, f.id) in self.unit.nested_alias:
            fname = self.unit.nested_alias[(self.unit.cur_parent, f.id)]      # a function defined inside the function being translated (or a sibling)
        elif isinstance(f, ast.Name):
            fname = f.id
        elif isinstance(f, ast.Attribute) and isinstance(f.value, ast.Name) and f.value.id not in env \
                and f"{f.value.id}.{f.attr}" in self.unit.by_src:
            fname = f"{f.value.id}.{f.attr}"       # ClassName.static_method(...), the class being this one or one of a used file
        elif isinstance(f, ast.Attribute) and isinstance(f.value, ast.Name) and f.value.id == self.unit.cur_cls:
            fname = f.attr       # ClassName.static_method(...)
        elif isinstance(f, ast.Attribute) and isinstance(f.value, ast.Name) and f.value.id == "self" and self.unit.cur_cls \
                and self.unit.method_alias.get((self.unit.cur_cls, f.attr)) in self.unit.sigs:
            fname = self.unit.method_alias[(self.unit.cur_cls, f.attr)]       # self.method(...) of the same class, itself translated
        # ---- builtins
        if isinstance(f, ast.Name) and fname not in self.unit.sigs and fname not in self.unit.by_src:
            args = n.args
            if fname == "Decimal":
                if len(args) != 1: fail(n, "Decimal() with other than one argument")
                if isinstance(args[0], ast.Constant) and isinstance(args[0].value, str):
                    if args[0].value.strip().lower() in ("inf", "infinity", "+inf", "+infinity"):
                        return "Py.XDec.inf", "xdec"
                    return dec_literal(args[0].value, n)[0], "dec"
                a, ta = self.expr(args[0], env, ind)
                if ta == "int": return self.as_dec(a, ta, n), "dec"         # exact, no rounding
                if ta in ("dec", "dec0"): return a, "dec"                    # Decimal(Decimal) is the identity; Decimal(0) of an empty sum
                fail(n, f"Decimal() of a {ta}")
            if fname == "int":
                if len(args) != 1: fail(n, "int() with other than one argument")
                a, ta = self.expr(args[0], env, ind)
                if ta == "int": return a, "int"
                if ta == "dec": return f"(truncInt {a})", "int"
                fail(n, f"int() of a {ta}")
            if fname == "abs":
                a, ta = self.expr(args[0], env, ind)
                if ta == "int": return f"(Py.iabs {a})", "int"
                if ta == "dec": return f"(Py.dabs {self.cx()} {a})", "dec"
                if ta == "flt": return f"(Py.fabs {a})", "flt"
                fail(n, f"abs() of a {ta}")
            if fname == "datetime" and len(args) == 5 and all(isinstance(x, ast.Attribute) and isinstance(x.value, ast.Name) for x in args) \
                    and [x.attr for x in args] == ["year", "month", "day", "hour", "minute"] and len({x.value.id for x in args}) == 1 \
                    and env.get(args[0].value.id) == "time":
                # datetime(t.year, t.month, t.day, t.hour, t.minute): the same instant with seconds and below dropped (recognised idiom)
                return f"(Py.floorMinute {args[0].value.id})", "time"
            if fname == "max" and len(args) == 1:
                l, tl = self.expr(args[0], env, ind)
                if isinstance(tl, tuple) and tl[0] == "list" and tl[1] in ("time", "int", "delta"):
                    return self.effect(ind, f"Py.listMax {l}", tl[1])            # ValueError on an empty list
                fail(n, f"max() of a {tl}")
            if fname in ("min", "max"):
                if len(args) != 2: fail(n, f"{fname}() with other than two arguments")
                a, ta = self.expr(args[0], env, ind)
                b, tb = self.expr(args[1], env, ind)
                if "flt" in (ta, tb):
                    a, b = self.as_flt(a, ta, n), self.as_flt(b, tb, n)
                    ta = tb = "flt"
                if ta != tb or ta not in ("int", "dec", "flt"):
                    fail(n, f"{fname}() of {ta} and {tb}")
                # CPython: min(a, b) = b if b < a else a ; max(a, b) = b if b > a else a
                rel = "<" if fname == "min" else ">"
                return f"(if {b} {rel} {a} then {b} else {a})", ta
            if fname == "len":
                if len(args) != 1: fail(n, "len() with other than one argument")
                l, tl = self.expr(args[0], env, ind)
                if not (isinstance(tl, tuple) and tl[0] in ("list", "dict")):
                    fail(n, f"len() of a {tl}")
                return f"(({l}.length : Nat) : Int)", "int"
            if fname == "sorted":
                if len(args) != 1: fail(n, "sorted() with other than one argument")
                l, tl = self.expr(args[0], env, ind)
                if tl != ("list", "int"):
                    fail(n, f"sorted() of a {tl} (only lists of ints)")
                return f"(Py.sorted {l})", tl        # a new list: ints compare by value, so every correct sort gives this list
            if fname == "sum":
                return self.sum_call(n, env, ind)
            if fname == "isinstance" and len(args) == 2 and isinstance(args[0], ast.Name) and getattr(args[1], "id", None) in ("Decimal", "int"):
                # decided by the static type of the translated signature
                ta = env.get(args[0].id)
                if ta in ("int", "dec"):
                    return ("true" if (ta == "dec") == (args[1].id == "Decimal") else "false"), "bool"
                fail(n, f"isinstance() of a {ta}")
            fail(n, f"call of '{fname}' (not a translated function or supported builtin)")
        # ---- method calls on locals
        if isinstance(f, ast.Attribute) and fname is None:
            if f.attr == "quantize":
                return self.quantize(n, env, ind)
            if f.attr == "total_seconds" and not n.args:
                d, td = self.expr(f.value, env, ind)
                if td == "delta":
                    return d, "delta"       # whole seconds (the subset's timedeltas live on the second grid)
            if f.attr == "keys" and not n.args:
                d, td = self.expr(f.value, env, ind)
                if isinstance(td, tuple) and td[0] == "dict":
                    return d, ("keys", td[1])
            fail(n, f"method call .{f.attr}()")
        if fname not in self.unit.sigs and fname not in self.unit.by_src:
            fail(n, f"call of '{fname}', which is not translated")
        r = self.translated_call(n, fname, env, ind, as_statement=False)
        return r

    def translated_call(self, n, fname, env, ind, as_statement):
        """a call of a translated function.  The arguments are evaluated first (left to right); among several translations of the same source
        function (the same code read under different argument types, `as` in the signature table) the first whose parameter types fit is taken.
        `obj` parameters (objects reachable only through the read table) take a plain name and pass no value: what the callee reads from them
        the caller must read too — the callee's read `pos.lower_tick` with `pos := position_info` is the caller's read `position_info.lower_tick`."""
        cands = list(self.unit.by_src.get(fname, []))
        if fname in self.unit.sigs and fname not in cands:
            cands.insert(0, fname)
        args = []
        for arg in n.args:
            if self.is_obj_expr(arg, env):
                args.append((arg, "obj"))
                continue
            a, ta = self.expr(arg, env, ind)
            if ta == "prop": a, ta = self.as_bool(a, ta, arg), "bool"
            args.append((a, ta))
        sig, why = None, ""
        for c in cands:
            sg = self.unit.sigs[c]
            if sg.ret is None:
                why = why or f"call of '{c}', whose translation failed"
                continue
            if len(args) != len(sg.params):
                why = why or f"call of {c} with {len(args)} arguments (expects {len(sg.params)})"
                continue
            def fits(ta, pt):       # an Optional parameter takes a value or None
                return ta == pt or (isinstance(pt, tuple) and pt[0] == "opt" and ta in (pt[1], "none")) \
                    or (pt == "flt" and ta == "int")       # float mode: the literal 0 (checked by as_flt below)
            bad = [(pn, pt, ta) for (a, ta), (pn, pt) in zip(args, sg.params) if not fits(ta, pt)]
            if bad:
                pn, pt, ta = bad[0]
                why = why or f"argument '{pn}' of {c}: a {ta} is passed where the translated signature has {pt}"
                continue
            sig = sg
            break
        if sig is None:
            fail(n, why or f"call of '{fname}', which is not translated")
        fname = sig.name
        objmap = {pn: a for (a, ta), (pn, pt) in zip(args, sig.params) if pt == "obj"}
        terms = []
        for (a, ta), (pn, pt) in zip(args, sig.params):
            if pt == "obj":
                continue
            if isinstance(pt, tuple) and pt[0] == "opt" and ta == pt[1]:
                a = f"(some {a})"
            elif pt == "flt" and ta == "int":
                a = self.as_flt(a, ta, n)
            terms.append(a)
        unit = self.unit

        class _Subst(ast.NodeTransformer):
            """the callee's read, written in the caller's terms: its object parameters replaced by the argument expressions; a field of an object
            built at the call site (`Params(a, b, …).f`) is the constructor's argument for that field"""
            def visit_Name(self, node):
                return copy.deepcopy(objmap[node.id]) if node.id in objmap else node

            def visit_Attribute(self, node):
                node = self.generic_visit(node)
                v = node.value
                if isinstance(v, ast.Call) and isinstance(v.func, ast.Name) and v.func.id in unit.obj_records:
                    fields = unit.obj_records[v.func.id]
                    if isinstance(fields, str):
                        fail(n, fields)
                    given = dict(zip(fields, v.args))
                    for kw in v.keywords:
                        given[kw.arg] = kw.value
                    if node.attr not in given:
                        fail(n, f"{v.func.id}(…) is built without its field {node.attr}")
                    return given[node.attr]
                return node

        def caller_text(key):
            if not objmap:
                return key
            return ast.unparse(_Subst().visit(ast.parse(key, mode="eval").body))
        read_args = []
        state_vars = []
        if getattr(sig, "reads", None):
            # the callee reads object attributes / data rows: the caller reads the same ones (same object, same bar) and hands them on
            st_keys = getattr(sig, "state", None) or {}
            if st_keys and not (as_statement and getattr(sig, "state_only", False)):
                fail(n, f"call of '{fname}', which updates object fields" + ("" if not as_statement else " and returns a value"))
            table = {nm: ty for nm, ty in self.unit.cur_reads.values()}
            for key, nm, ty in sig.read_keys:
                if objmap:
                    here = caller_text(key)
                    got = self.unit.cur_reads.get(here)
                    if got is None:
                        # not a read of the caller: a value the caller computed and put into the object it hands over (a local, a constant)
                        mark = len(self.lines)
                        a_, ta_ = self.expr(ast.parse(here, mode="eval").body, env, ind)
                        if len(self.lines) != mark:
                            fail(n, f"call of '{fname}': its input `{key}` is `{here}` here, which can raise")
                        if ta_ == "prop": a_, ta_ = self.as_bool(a_, ta_, n), "bool"
                        if ty == "flt" and ta_ == "int": a_, ta_ = self.as_flt(a_, ta_, n), "flt"
                        if ta_ != ty:
                            fail(n, f"call of '{fname}': its input `{key}` (here `{here}`, a {ta_}) is a {ty} in its read table")
                        read_args.append(a_)
                        continue
                    if got[1] != ty:
                        fail(n, f"call of '{fname}': its input `{key}` (here `{here}`) has another type in the calling function's read table")
                    nm = got[0]
                elif table.get(nm) != ty:
                    fail(n, f"call of '{fname}': its input '{nm}' is not an input of the calling function's read table")
                self.used_reads[nm] = ty
                read_args.append(nm)
            for key, (nm, ty) in st_keys.items():
                got = (self.unit.cur_state or {}).get(caller_text(key))
                if got is None or got[1] != ty:
                    fail(n, f"call of '{fname}': the field `{key}` it updates (here `{caller_text(key)}`) is not a field of the calling function's state table")
                state_vars.append(got[0])
                read_args.append(got[0])
        cxs = (self.cx() + " ") if sig.uses_cx else ""
        if getattr(sig, "uses_o", False):
            cxs = self.ops() + " " + cxs
        if sig.uses_pow:
            self.uses_pow = True
            cxs += "dpow "
        if getattr(sig, "uses_fuel", False):
            fail(n, f"call of '{fname}', which contains a while loop (fuel is not threaded through calls)")
        action = f"{sig.lean_name} {cxs}" + " ".join(read_args + terms)
        if as_statement:
            if state_vars:
                for v in state_vars:
                    self.reassigned.add(v)
                pat = state_vars[0] if len(state_vars) == 1 else "(" + ", ".join(state_vars) + ")"
                self.emit(ind, f"{pat} ← {action}")
            elif sig.ret == "unit":
                self.emit(ind, f"let _ ← {action}")
            else:
                fail(n, f"the result of '{fname}' is discarded")
            return None
        return self.effect(ind, action, sig.ret)

    def is_obj_expr(self, arg, env):
        """an argument that is an object of the read tables: a parameter of type obj, an attribute chain on one that is not itself a read
        (`params.pool_config`), or an object built at the call site from a class of `obj_records`"""
        if isinstance(arg, ast.Name):
            return env.get(arg.id) == "obj"
        if isinstance(arg, ast.Attribute):
            root = arg
            while isinstance(root, ast.Attribute):
                root = root.value
            return isinstance(root, ast.Name) and env.get(root.id) == "obj" and ast.unparse(arg) not in self.unit.cur_reads
        if isinstance(arg, ast.Call) and isinstance(arg.func, ast.Name) and arg.func.id in self.unit.obj_records and arg.func.id not in env:
            fields = self.unit.obj_records[arg.func.id]
            if isinstance(fields, str):
                fail(arg, fields)
            names = list(fields[:len(arg.args)]) + [kw.arg for kw in arg.keywords]
            if len(arg.args) > len(fields) or sorted(names) != sorted(fields):
                fail(arg, f"{arg.func.id}(…) is not built with exactly its fields {fields}")
            return True
        return False

    def record_call(self, n, env, ind):
        """`PositionInfo(lower_tick=a, upper_tick=b)`: a NamedTuple of the source (fields checked against its class definition) is the tuple of its fields"""
        name = n.func.id
        fields = self.unit.records[name]
        if isinstance(fields, str):
            fail(n, fields)
        given = {}
        for (fn_, ft), arg in zip(fields, n.args):
            given[fn_] = arg
        if len(n.args) > len(fields):
            fail(n, f"{name}() with too many arguments")
        for kw in n.keywords:
            if kw.arg is None or kw.arg in given or kw.arg not in dict(fields):
                fail(n, f"{name}() with an unknown or repeated field {kw.arg}")
            given[kw.arg] = kw.value
        if len(given) != len(fields):
            fail(n, f"{name}() without all of its fields (defaults are not modelled)")
        # Python evaluates positional arguments, then keywords, in source order
        order = list(n.args) + [kw.value for kw in n.keywords]
        vals = {}
        for arg in order:
            a, ta = self.expr(arg, env, ind)
            vals[id(arg)] = (a, ta)
        parts, tys = [], []
        for fn_, ft in fields:
            a, ta = vals[id(given[fn_])]
            if ta == "prop": a, ta = self.as_bool(a, ta, n), "bool"
            if ft == "flt" and ta == "int":
                a, ta = self.as_flt(a, ta, n), "flt"
            if ta != ft:
                fail(n, f"field {fn_} of {name}: a {ta} where the record table has {ft}")
            parts.append(a); tys.append(ft)
        return ("(" + ", ".join(parts) + ")" if len(parts) > 1 else parts[0]), ("rec", name)

    def quantize(self, n, env, ind):
        """`x.quantize(Decimal(f"1e{k}") | Decimal(<int or "literal">) [, rounding=decimal.ROUND_*])`  ↦  `Py.quantize mode x k`"""
        x, tx = self.expr(n.func.value, env, ind)
        if tx != "dec":
            fail(n, f"quantize of a {tx}")
        mode = "halfEven"      # the context default
        for kw in n.keywords:
            r = kw.value
            rn = r.attr if isinstance(r, ast.Attribute) else getattr(r, "id", None)
            if kw.arg != "rounding" or rn not in ("ROUND_HALF_UP", "ROUND_HALF_EVEN", "ROUND_DOWN"):
                fail(n, "quantize with an unsupported keyword / rounding mode")
            mode = {"ROUND_HALF_UP": "halfUp", "ROUND_HALF_EVEN": "halfEven", "ROUND_DOWN": "down"}[rn]
        if len(n.args) != 1 or not (isinstance(n.args[0], ast.Call) and getattr(n.args[0].func, "id", None) == "Decimal" and len(n.args[0].args) == 1):
            fail(n, "quantize to something other than Decimal(…)")
        e = n.args[0].args[0]
        if isinstance(e, ast.JoinedStr):
            # f"1e{k}"
            v = e.values
            if not (len(v) == 2 and isinstance(v[0], ast.Constant) and v[0].value in ("1e", "1E") and isinstance(v[1], ast.FormattedValue)
                    and v[1].conversion == -1 and v[1].format_spec is None):
                fail(n, 'quantize pattern is not Decimal(f"1e{k}")')
            k, tk = self.expr(v[1].value, env, ind)
            if tk != "int":
                fail(n, f"quantize exponent of type {tk}")
        elif isinstance(e, ast.Constant) and type(e.value) is int:
            k = "(0 : Int)"
        elif isinstance(e, ast.Constant) and isinstance(e.value, str):
            from decimal import Decimal
            try:
                k = f"({Decimal(e.value).as_tuple().exponent} : Int)"
            except Exception:
                fail(n, f"quantize to Decimal({e.value!r})")
        else:
            fail(n, "quantize to a non-literal exponent")
        return self.effect(ind, f"Py.quantize Py.Rounding.{mode} {x} {k}", "dec")

    def sum_call(self, n, env, ind):
        """`sum(d.values())` and `sum([e for k, v in d.items()])`: left fold starting from int 0 — the first
        step is `0 + x`, a Decimal addition that ROUNDS x; an empty sum is the int 0."""
        if len(n.args) != 1:
            fail(n, "sum() with a start value")
        a = n.args[0]
        if isinstance(a, ast.Call) and isinstance(a.func, ast.Attribute) and a.func.attr == "values" and not a.args:
            d, td = self.expr(a.func.value, env, ind)
            if not (isinstance(td, tuple) and td[0] == "dict" and td[1] == "dec"):
                fail(n, f"sum(x.values()) of a {td}")
            return f"(Py.dsum {self.cx()} ({d}.map (·.2)))", "dec0"
        if isinstance(a, (ast.ListComp, ast.GeneratorExp)):
            if len(a.generators) != 1 or a.generators[0].ifs or a.generators[0].is_async:
                fail(n, "comprehension with several generators or a filter")
            g = a.generators[0]
            pat, env2 = self.loop_header(g.target, g.iter, env, ind, n)
            t = self.tmp()
            self.emit(ind, f"let {t} ← ({self.iter_term}).mapM (fun {pat} => do")
            e, te = self.expr(a.elt, env2, ind + 1)
            if te != "dec":
                fail(n, f"sum of a comprehension of {te}")
            self.emit(ind + 1, f"pure {e})")
            return f"(Py.dsum {self.cx()} {t})", "dec0"
        fail(n, "sum() of something other than d.values() or a comprehension over d.items()")

    def loop_header(self, target, it, env, ind, n):
        """`for k, v in d.items()` / `for k in d` / `for v in d.values()`: returns (lean pattern, env in the body)"""
        if isinstance(it, ast.Call) and isinstance(it.func, ast.Name) and it.func.id == "range" and "range" not in env:
            # `for i in range(b)` / `range(a, b)`: the ints a, a+1, …, b-1 (none when b ≤ a); the bounds are evaluated once, before the loop
            if it.keywords or len(it.args) not in (1, 2) or not isinstance(target, ast.Name):
                fail(n, "range() with a step / keywords, or a tuple target")
            bounds = []
            for a_ in it.args:
                t_, ty_ = self.expr(a_, env, ind)
                if ty_ != "int":
                    fail(n, f"range() bound of type {ty_}")
                bounds.append(t_)
            lo_, hi_ = ("(0 : Int)", bounds[0]) if len(bounds) == 1 else bounds
            env2 = dict(env)
            env2[target.id] = "int"
            self.iter_term = f"(Py.range {lo_} {hi_})"
            return target.id, env2
        if isinstance(it, ast.Call) and isinstance(it.func, ast.Attribute) and not it.args and it.func.attr in ("items", "values", "keys"):
            d, td = self.expr(it.func.value, env, ind)
            kind = it.func.attr
        else:
            d, td = self.expr(it, env, ind)
            kind = "keys"
        if isinstance(td, tuple) and td[0] == "list" and kind == "keys" and isinstance(target, ast.Name):
            env2 = dict(env)
            env2[target.id] = td[1]
            self.iter_term = d
            return target.id, env2
        if not (isinstance(td, tuple) and td[0] == "dict"):
            fail(n, f"iteration over a {td} (only dicts and lists are iterable in the subset)")
        env2 = dict(env)
        if kind == "items":
            if not (isinstance(target, ast.Tuple) and len(target.elts) == 2 and all(isinstance(e, ast.Name) for e in target.elts)):
                fail(n, "for-target over .items() must be `k, v`")
            k, v = target.elts[0].id, target.elts[1].id
            env2[k], env2[v] = "tok", td[1]
            self.iter_term = d
            return f"({k}, {v})", env2
        if not isinstance(target, ast.Name):
            fail(n, "for-target must be a name")
        if kind == "values":
            env2[target.id] = td[1]
            self.iter_term = f"{d}.map (·.2)"
        else:
            env2[target.id] = "tok"
            self.iter_term = f"{d}.map (·.1)"
        return target.id, env2

    # ---------------------------------------------------------------- statements
    def undec0(self, term, ty):
        """'dec0' = result of sum(): int 0 when empty, else Decimal — usable only through Decimal(...) or arithmetic
        with a Decimal, where int 0 and Decimal 0 behave alike"""
        return term, ty

    def block(self, stmts, env, ind):
        """returns (env after the block, terminated?)"""
        env = dict(env)
        emitted = False
        for i, s in enumerate(stmts):
            if isinstance(s, ast.Expr) and isinstance(s.value, ast.Constant) and isinstance(s.value.value, str):
                continue  # docstring
            if isinstance(s, (ast.Import, ast.ImportFrom)):
                continue  # a local import binds names; using one of them fails at the use
            if isinstance(s, ast.Pass):
                continue
            emitted_before = emitted
            emitted = True
            if isinstance(s, ast.Return):
                if s.value is None:
                    fail(s, "bare return (None)")
                w = getattr(self, "want_ret", None)
                if isinstance(w, tuple) and w[0] == "tuple" and isinstance(s.value, ast.Tuple) and len(s.value.elts) == len(w[1]):
                    # the unified return type is a tuple some of whose components are an int on one path and a Decimal on another
                    parts = []
                    for e, wt in zip(s.value.elts, w[1]):
                        a, ta = self.expr(e, env, ind)
                        if ta == "prop": a, ta = self.as_bool(a, ta, s), "bool"
                        if wt == "dec0" and ta in ("int", "dec", "dec0"):
                            a, ta = (self.as_dec(a, ta, s) if ta == "int" else a), "dec0"
                        if wt == "flt" and ta == "int":
                            a, ta = self.as_flt(a, ta, s), "flt"
                        if ta != wt:
                            fail(s, f"return statements of different types ({w}, component {ta})")
                        parts.append(a)
                    a, ta = "(" + ", ".join(parts) + ")", w
                else:
                    a, ta = self.expr(s.value, env, ind)
                if ta == "prop": a, ta = self.as_bool(a, ta, s), "bool"
                a, ta = self.coerce_ret(a, ta, s)
                self.set_ret(ta, s)
                self.emit(ind, f"return {a}")
                if i + 1 < len(stmts):
                    fail(stmts[i + 1], "unreachable statement after return")
                return env, True
            if isinstance(s, ast.Raise):
                cls = None
                if isinstance(s.exc, ast.Call) and isinstance(s.exc.func, ast.Name):
                    cls = s.exc.func.id
                elif isinstance(s.exc, ast.Name):
                    cls = s.exc.id
                if cls is None:
                    fail(s, "raise of something other than a named exception class")
                self.emit(ind, f'throw (Py.Err.Raised "{cls}")')
                if i + 1 < len(stmts):
                    fail(stmts[i + 1], "unreachable statement after raise")
                return env, True
            if isinstance(s, ast.Assert):
                c, tc = self.expr(s.test, env, ind)
                self.emit(ind, f"if ¬ {self.as_prop(c, tc, s)} then throw Py.Err.AssertionError")
                continue
            if isinstance(s, (ast.Assign, ast.AnnAssign)):
                if isinstance(s, ast.Assign):
                    if len(s.targets) != 1:
                        if not (isinstance(s.value, ast.Constant) and all(isinstance(tg, ast.Name) for tg in s.targets)):
                            fail(s, "chained assignment (only `a = b = <constant>` is translated)")
                        for tg in s.targets:          # the constant is assigned to each name, left to right
                            self.assign(tg, s.value, None, env, ind, s)
                        continue
                    target, value, ann = s.targets[0], s.value, None
                else:
                    target, value, ann = s.target, s.value, s.annotation
                    if value is None:
                        fail(s, "annotation without a value")
                self.assign(target, value, ann, env, ind, s)
                continue
            if isinstance(s, ast.AugAssign):
                if isinstance(s.target, ast.Attribute) and isinstance(s.target.value, ast.Name):
                    left = ast.Attribute(value=ast.Name(id=s.target.value.id, ctx=ast.Load()), attr=s.target.attr, ctx=ast.Load())
                elif isinstance(s.target, ast.Name):
                    left = ast.Name(id=s.target.id, ctx=ast.Load())
                else:
                    fail(s, "augmented assignment to something other than a name or a field of a local record")
                fake = ast.BinOp(left=left, op=s.op, right=s.value)
                ast.fix_missing_locations(ast.copy_location(fake, s))
                self.assign(s.target, fake, None, env, ind, s)
                continue
            if isinstance(s, ast.If):
                c, tc = self.expr(s.test, env, ind)
                if self.conditional_assignment(s, self.as_prop(c, tc, s), env, ind):
                    continue
                key, pre = (s.lineno, s.col_offset), []
                if not self.probing:
                    # N3: a variable first assigned inside every continuing branch is declared before the `if` with a placeholder no path can read
                    for nm, ty in self.hoist.get(key, []):
                        if nm not in env and nm not in self.hoisted:
                            self.emit(ind, f"let mut {nm} := {placeholder(ty)}")
                            self.hoisted[nm] = ty
                            pre.append(nm)
                self.emit(ind, f"if {self.as_prop(c, tc, s)} then")
                env_a, term_a = self.block(s.body, env, ind + 1)
                term_b, env_b = False, env
                if s.orelse:
                    self.emit(ind, "else")
                    env_b, term_b = self.block(s.orelse, env, ind + 1)
                live = [e for e, dead in ((env_a, term_a), (env_b, term_b)) if not dead]
                common = [nm for nm in live[0] if nm not in env and all(nm in e and e[nm] == live[0][nm] for e in live)] if live else []
                if self.probing:
                    self.hoist[key] = [(nm, live[0][nm]) for nm in common]
                    for nm in common:
                        env[nm] = live[0][nm]
                else:
                    for nm in pre:
                        self.hoisted.pop(nm, None)
                    for nm in common:
                        if nm in dict(self.hoist.get(key, [])):
                            env[nm] = live[0][nm]
                # after the statement: only variables declared BEFORE it are in scope (a `let` inside a branch is
                # local to the branch in Lean); their types must agree on every path that continues
                for live_env, dead in ((env_a, term_a), (env_b, term_b)):
                    if dead:
                        continue
                    for k in env:
                        if isinstance(live_env[k], str) and isinstance(env[k], str) and {live_env[k], env[k]} == {"dec", "dec0"}:
                            env[k] = "dec0"
                        elif self.probing and isinstance(live_env[k], str) and isinstance(env[k], str) and {live_env[k], env[k]} == {"int", "flt"}:
                            self.promote.add(k)       # float mode, pass 1: the int literal 0 on one path, a float on another
                            env[k] = "flt"
                        elif live_env[k] != env[k]:
                            fail(s, f"variable '{k}' changes type inside a branch")
                if term_a and term_b:
                    if i + 1 < len(stmts):
                        fail(stmts[i + 1], "unreachable statement after if/else that always returns")
                    return env, True
                if term_a and not s.orelse and self.unit.narrow:
                    # N2: after `if x is None [or y is None]: return / raise`, x (and y) hold values: `x ← Py.unwrap x` (cannot fail here) shadows the
                    # Optional by its value
                    tests = s.test.values if isinstance(s.test, ast.BoolOp) and isinstance(s.test.op, ast.Or) else [s.test]
                    if all(isinstance(t_, ast.Compare) and len(t_.ops) == 1 and isinstance(t_.ops[0], ast.Is) and isinstance(t_.left, ast.Name)
                           and isinstance(t_.comparators[0], ast.Constant) and t_.comparators[0].value is None
                           and isinstance(env.get(t_.left.id), tuple) and env[t_.left.id][0] == "opt" for t_ in tests):
                        for t_ in tests:
                            nm = t_.left.id
                            m_ = "mut " if nm in self.mut else ""
                            self.emit(ind, f"let {m_}{nm} ← Py.unwrap {nm}")
                            env[nm] = env[nm][1]
                continue
            if isinstance(s, ast.For):
                if s.orelse:
                    fail(s, "for/else")
                pat, env2 = self.loop_header(s.target, s.iter, env, ind, s)
                self.emit(ind, f"for {pat} in {self.iter_term} do")
                for m in ast.walk(s):
                    if isinstance(m, (ast.Break, ast.Continue)) or (isinstance(m, ast.Return) and not self.unit.cur_opts.get("return_in_for")):
                        fail(m, f"{type(m).__name__.lower()} inside a for loop")
                env_l, term_l = self.block(s.body, env2, ind + 1)
                for k in env:
                    if self.probing and isinstance(env_l[k], str) and isinstance(env[k], str) and {env_l[k], env[k]} == {"int", "flt"}:
                        self.promote.add(k)
                        env[k] = "flt"
                    elif env_l[k] != env[k]:
                        fail(s, f"variable '{k}' changes type inside the loop")
                continue
            if isinstance(s, ast.While):
                self.while_loop(s, env, ind)
                continue
            if isinstance(s, ast.FunctionDef):
                if (self.unit.cur_parent, s.name) in self.unit.nested_alias and s.name in {d.name for d in self.unit.cur_nested_ok}:
                    emitted = emitted_before          # translated on its own (see `nested_in` in the signature table); the layout was checked
                    continue
                fail(s, f"nested function '{s.name}' (not in the signature table, or not defined at the top of the enclosing function)")
            if isinstance(s, ast.Expr) and isinstance(s.value, ast.Call):
                self.call_statement(s.value, env, ind)
                continue
            fail(s, f"statement {type(s).__name__}")
        if not emitted:
            self.emit(ind, "pure ()")
        return env, False

    def call_statement(self, c, env, ind):
        """an expression statement that is a call: `xs.sort()` on a local list of ints; a translated procedure; a translated function that only
        updates the object fields of the state table (the caller's fields are re-assigned from its result)"""
        f = c.func
        if isinstance(f, ast.Attribute) and f.attr == "sort" and isinstance(f.value, ast.Name):
            if c.args or c.keywords:
                fail(c, ".sort() with arguments")
            nm = f.value.id
            if env.get(nm) != ("list", "int"):
                fail(c, f".sort() of a {env.get(nm)} (only local lists of ints)")
            self.check_unaliased_list(nm, c)
            self.reassigned.add(nm)
            self.emit(ind, f"{nm} := Py.sorted {nm}")
            return
        if c.keywords:
            fail(c, "keyword arguments")
        fname = None
        if isinstance(f, ast.Name) and f.id in env:
            fail(c, f"call of the local variable '{f.id}'")
        if isinstance(f, ast.Name) and (self.unit.cur_parent, f.id) in self.unit.nested_alias:
            fname = self.unit.nested_alias[(self.unit.cur_parent, f.id)]
        elif isinstance(f, ast.Name):
            fname = f.id
        elif isinstance(f, ast.Attribute) and isinstance(f.value, ast.Name) and f.value.id not in env \
                and f"{f.value.id}.{f.attr}" in self.unit.by_src:
            fname = f"{f.value.id}.{f.attr}"
        elif isinstance(f, ast.Attribute) and isinstance(f.value, ast.Name) and f.value.id == self.unit.cur_cls:
            fname = f.attr
        elif isinstance(f, ast.Attribute) and isinstance(f.value, ast.Name) and f.value.id == "self" and self.unit.cur_cls \
                and self.unit.method_alias.get((self.unit.cur_cls, f.attr)) in self.unit.sigs:
            fname = self.unit.method_alias[(self.unit.cur_cls, f.attr)]
        if fname is None or (fname not in self.unit.sigs and fname not in self.unit.by_src):
            fail(c, f"expression statement: call of '{ast.unparse(f)}', which is not translated")
        self.translated_call(c, fname, env, ind, as_statement=True)

    def check_unaliased_list(self, nm, node):
        """`xs.sort()` mutates the list object: sound as a re-assignment of the variable only if no other name can hold the same object.  Required:
        `xs` is a local (not a parameter / read), every binding of it is a fresh list (literal, comprehension, `sorted(…)`), and it is used only in
        `xs[i]`, `for … in xs`, `… in xs`, `sorted(xs)`, `max(xs)`, `xs.sort()`"""
        if nm in dict(self.params):
            fail(node, f".sort() of the parameter '{nm}' (the caller's list would change)")
        parents = {}
        for m in ast.walk(self.fdef):
            for ch in ast.iter_child_nodes(m):
                parents[ch] = m
        for m in ast.walk(self.fdef):
            if not (isinstance(m, ast.Name) and m.id == nm):
                continue
            par = parents.get(m)
            if isinstance(m.ctx, ast.Store):
                ok = isinstance(par, ast.Assign) and len(par.targets) == 1 and par.targets[0] is m and (
                    isinstance(par.value, (ast.List, ast.ListComp))
                    or (isinstance(par.value, ast.Call) and isinstance(par.value.func, ast.Name) and par.value.func.id == "sorted"))
                if not ok:
                    fail(m, f"'{nm}' is sorted in place, so every binding of it must be a fresh list (literal, comprehension or sorted())")
                continue
            ok = (isinstance(par, ast.Subscript) and par.value is m) \
                or (isinstance(par, ast.For) and par.iter is m) \
                or (isinstance(par, ast.comprehension) and par.iter is m) \
                or (isinstance(par, ast.Compare) and m in par.comparators and all(isinstance(o, (ast.In, ast.NotIn)) for o in par.ops)) \
                or (isinstance(par, ast.Call) and isinstance(par.func, ast.Name) and par.func.id in ("sorted", "max", "len") and par.args == [m]) \
                or (isinstance(par, ast.Attribute) and par.attr == "sort" and par.value is m and isinstance(parents.get(par), ast.Call))
            if not ok:
                fail(m, f"'{nm}' is sorted in place and used where another name could come to hold the same list (line {getattr(m, 'lineno', '?')})")

    def check_unaliased_record(self, nm, node):
        """`r.f = e` mutates the dataclass instance: sound as a re-assignment of the variable only if no other name can hold the same object.  Required:
        `r` is a local (not a parameter), every binding of it is a fresh object (the constructor, or the result of a translated call — a translated
        function has no globals and may not return a parameter that is a record, see Unit.generate), and it is used only in `r.f`, `r.f = e`, and in a
        `return`"""
        if nm in dict(self.params):
            fail(node, f"assignment to a field of the parameter '{nm}' (the caller's object would change)")
        parents = {}
        for m in ast.walk(self.fdef):
            for ch in ast.iter_child_nodes(m):
                parents[ch] = m
        for m in ast.walk(self.fdef):
            if not (isinstance(m, ast.Name) and m.id == nm):
                continue
            par = parents.get(m)
            if isinstance(m.ctx, ast.Store):
                tgt_par = par
                ok = False
                if isinstance(par, (ast.Assign, ast.AnnAssign)):
                    ok = isinstance(par.value, ast.Call)
                elif isinstance(par, ast.Tuple) and isinstance(parents.get(par), ast.Assign):
                    ok = isinstance(parents[par].value, ast.Call)
                if not ok:
                    fail(m, f"a field of '{nm}' is assigned, so every binding of it must be a fresh object (a constructor or a call)")
                continue
            ok = (isinstance(par, ast.Attribute) and par.value is m)
            if not ok:
                up, node_ = par, m
                while isinstance(up, ast.Tuple):
                    up, node_ = parents.get(up), up
                ok = isinstance(up, ast.Return)
            if not ok:
                fail(m, f"a field of '{nm}' is assigned and '{nm}' is used where another name could come to hold the same object (line {getattr(m, 'lineno', '?')})")

    def while_loop(self, s, env, ind):
        """`while c: body` ↦ `vars ← Py.whileFuel (fun vars => do …; pure (decide c)) (fun vars => do body; pure vars) fuel vars`: the variables the
        body assigns are the loop state; `fuel : Nat` is a leading parameter of the generated function (running out of fuel with the condition
        still true is `Err.Unsupported`, so the tie theorem states how much fuel suffices); the body may only assign existing variables"""
        if s.orelse:
            fail(s, "while/else")
        names = []
        for m in ast.walk(s):
            if isinstance(m, (ast.Return, ast.Break, ast.Continue, ast.While)) and m is not s:
                fail(m, f"{type(m).__name__.lower()} inside a while loop")
            if isinstance(m, (ast.Assign, ast.AugAssign, ast.AnnAssign)):
                for tg in (m.targets if isinstance(m, ast.Assign) else [m.target]):
                    if not isinstance(tg, ast.Name) or tg.id not in env:
                        fail(m, "a while body may only assign variables that exist before the loop")
                    if tg.id not in names:
                        names.append(tg.id)
        if not names:
            fail(s, "while loop that assigns nothing")
        self.uses_fuel = True
        pat = names[0] if len(names) == 1 else "(" + ", ".join(names) + ")"
        for nm in names:
            self.reassigned.add(nm)
        self.emit(ind, f"{pat} ← Py.whileFuel (fun {pat} => do")
        c, tc = self.expr(s.test, env, ind + 2)
        self.emit(ind + 2, f"pure (decide {self.as_prop(c, tc, s)})) (fun {pat} => do")
        for nm in names:
            self.emit(ind + 2, f"let mut {nm} := {nm}")
        env_b, term = self.block(s.body, env, ind + 2)
        for nm in names:
            if env_b[nm] != env[nm]:
                fail(s, f"variable '{nm}' changes type inside the loop")
        self.emit(ind + 2, f"pure {pat}) fuel {pat}")

    def conditional_assignment(self, s, cond, env, ind):
        """Normalisation N1:  `if c: x = e`  (no else, one assignment to already declared variables, `e` cannot raise)
        is emitted as  `x := if c then e else x`  — the same state transformer, but a straight-line term instead of a
        join point, which keeps the tie proofs of long `if` chains (get_sqrt_ratio_at_tick) linear."""
        if s.orelse or len(s.body) != 1 or not isinstance(s.body[0], ast.Assign) or len(s.body[0].targets) != 1:
            return False
        tg = s.body[0].targets[0]
        names = [e for e in (tg.elts if isinstance(tg, ast.Tuple) else [tg])]
        if not all(isinstance(e, ast.Name) and e.id in env for e in names):
            return False
        mark, ntmp = len(self.lines), self.ntmp
        a, ta = self.expr(s.body[0].value, env, ind)
        t_ = s.test
        if self.unit.narrow and len(self.lines) == mark and isinstance(tg, ast.Name) and isinstance(t_, ast.Compare) and len(t_.ops) == 1 and isinstance(t_.ops[0], ast.Is) \
                and isinstance(t_.left, ast.Name) and t_.left.id == tg.id and isinstance(t_.comparators[0], ast.Constant) and t_.comparators[0].value is None \
                and isinstance(env[tg.id], tuple) and env[tg.id][0] == "opt" and env[tg.id][1] == ta:
            # N2: `if x is None: x = e` on an Optional x (e cannot raise): from here on x is a value — `x` is shadowed by `x.getD e`
            m_ = "mut " if tg.id in self.mut else ""
            self.emit(ind, f"let {m_}{tg.id} := (Option.getD {tg.id} {a})")
            env[tg.id] = ta
            return True
        if len(self.lines) != mark:          # the right-hand side can raise: keep the statement form
            del self.lines[mark:]
            self.ntmp = ntmp
            return False
        if ta == "prop": a, ta = self.as_bool(a, ta, s), "bool"
        want = env[names[0].id] if not isinstance(tg, ast.Tuple) else ("tuple", [env[e.id] for e in names])
        if isinstance(ta, str) and isinstance(want, str) and {ta, want} == {"dec", "dec0"}:
            env[names[0].id] = want = ta = "dec0"      # Decimal on one path, int-or-Decimal on the other
        if isinstance(tg, ast.Name) and ta == "int" and tg.id in self.promote:
            a, ta = self.as_flt(a, ta, s), "flt"
        if self.probing and isinstance(ta, str) and isinstance(want, str) and {ta, want} == {"int", "flt"}:
            self.promote.add(names[0].id)
            env[names[0].id] = want = ta = "flt"
        if isinstance(want, tuple) and want[0] == "opt" and not isinstance(tg, ast.Tuple):
            if ta == want[1]:
                a, ta = f"(some {a})", want             # an Optional variable given a value
            elif ta == "none":
                ta = want
        if ta != want:
            fail(s, f"conditional assignment changes the type of {[e.id for e in names]}")
        for e in names:
            self.reassigned.add(e.id)
        if isinstance(tg, ast.Tuple):
            pat = "(" + ", ".join(e.id for e in names) + ")"
            self.emit(ind, f"{pat} := (if {cond} then {a} else {pat})")
        else:
            self.emit(ind, f"{names[0].id} := (if {cond} then {a} else {names[0].id})")
        return True

    def set_ret(self, ty, node):
        self.ret_types.append(ty)
        if self.ret is None:
            self.ret = ty
        elif self.ret != ty:
            fail(node, f"return statements of different types ({self.ret}, {ty})")

    def coerce_ret(self, a, ta, node):
        """pass 2: the unified return type is known (self.want_ret)"""
        w = getattr(self, "want_ret", None)
        if w is None or w == ta:
            return a, ta
        if w == "dec0" and ta in ("int", "dec"):
            return (self.as_dec(a, ta, node) if ta == "int" else a), "dec0"
        if w == "xdec" and ta == "dec":
            return f"(Py.XDec.fin {a})", "xdec"
        if w == "flt" and ta == "int":
            return self.as_flt(a, ta, node), "flt"
        fail(node, f"return statements of different types ({w}, {ta})")

    def check_ann(self, ann, ty, node):
        if ann is None:
            return
        if isinstance(ty, tuple) and ty[0] == "rec" and getattr(ann, "id", None) == ty[1]:
            return
        want = {"int": "int", "Decimal": "dec", "bool": "bool", "str": "str", "float": "flt"}.get(getattr(ann, "id", None))
        if want is None:
            fail(node, "unsupported annotation on a local")
        if {want, ty} == {"int", "flt"} and self.unit.float_mode:
            return          # float mode: `x: float = 0` and `impactFactor: int = <a float>` — the annotations of this code base do not separate the two
        if want != ty:
            fail(node, f"local annotated {ann.id} but the value is a {ty}")

    def assign(self, target, value, ann, env, ind, s):
        if isinstance(target, ast.Tuple):
            if not all(isinstance(e, ast.Name) for e in target.elts):
                fail(s, "tuple target with non-names")
            names = [e.id for e in target.elts]
            if isinstance(value, ast.Tuple) and len(value.elts) == len(names) and any(nm in self.promote for nm in names):
                # float mode: `g, hi, lo = 0, 0, 0` where g also holds floats — that component is the float zero
                parts, tys = [], []
                for nm, e in zip(names, value.elts):
                    a_, t_ = self.expr(e, env, ind)
                    if t_ == "prop": a_, t_ = self.as_bool(a_, t_, s), "bool"
                    if nm in self.promote and t_ == "int":
                        a_, t_ = self.as_flt(a_, t_, s), "flt"
                    parts.append(a_); tys.append(t_)
                a, ta = "(" + ", ".join(parts) + ")", ("tuple", tys)
            else:
                a, ta = self.expr(value, env, ind)
            if not (isinstance(ta, tuple) and ta[0] == "tuple" and len(ta[1]) == len(names)):
                fail(s, f"tuple assignment from a {ta}")
            if "_" in names:
                # `x, _ = …`: the conventional name of a value that is not used; never a variable of the translation (a later use of `_` fails)
                if names.count("_") == len(names):
                    fail(s, "tuple assignment to `_` only")
                keep = [(nm, t) for nm, t in zip(names, ta[1]) if nm != "_"]
                if any(nm in env for nm, _ in keep):
                    for nm, t in keep:
                        if env.get(nm) != t:
                            fail(s, f"variable '{nm}' changes type ({env.get(nm)} → {t})")
                        self.reassigned.add(nm)
                    # through fresh names (`x'` is no Python identifier), then plain re-assignments
                    fresh = [f"{nm}'" if nm != "_" else "_" for nm in names]
                    self.emit(ind, "let (" + ", ".join(fresh) + f") := {a}")
                    for nm, fr in zip(names, fresh):
                        if nm != "_":
                            self.emit(ind, f"{nm} := {fr}")
                else:
                    m_ = "mut " if any(nm in self.mut for nm, _ in keep) else ""
                    self.emit(ind, f"let {m_}(" + ", ".join(names) + f") := {a}")
                    for nm, t in keep:
                        env[nm] = t
                return
            old = [nm in env for nm in names]
            pat = "(" + ", ".join(names) + ")"
            if all(old):
                for nm, t in zip(names, ta[1]):
                    if env[nm] != t:
                        fail(s, f"variable '{nm}' changes type ({env[nm]} → {t})")
                    self.reassigned.add(nm)
                self.emit(ind, f"{pat} := {a}")
            elif not any(old):
                if any(nm in self.mut for nm in names):
                    mpat = "(" + ", ".join(names) + ")"
                    self.emit(ind, f"let mut {mpat} := {a}")
                else:
                    self.emit(ind, f"let {pat} := {a}")
                for nm, t in zip(names, ta[1]):
                    env[nm] = t
            else:
                fail(s, "tuple assignment mixing new and existing variables")
            return
        if isinstance(target, ast.Attribute) and isinstance(target.value, ast.Name) and isinstance(env.get(target.value.id), tuple) \
                and env[target.value.id][0] == "rec":
            # `r.f = e` on a local dataclass instance: the variable is re-assigned the record with that field replaced (sound only while no other
            # name holds the same object: check_unaliased_record)
            rn = target.value.id
            fields = RECORDS[env[rn][1]]
            if target.attr not in dict(fields):
                fail(s, f"{env[rn][1]} has no field {target.attr}")
            self.check_unaliased_record(rn, s)
            a, ta = self.expr(value, env, ind)
            if dict(fields)[target.attr] == "flt" and ta == "int":
                a, ta = self.as_flt(a, ta, s), "flt"
            if ta != dict(fields)[target.attr]:
                fail(s, f"field {target.attr} of {env[rn][1]}: a {ta} where the record table has {dict(fields)[target.attr]}")
            parts = [a if f == target.attr else rec_proj(rn, fields, f) for f, _ in fields]
            self.reassigned.add(rn)
            self.emit(ind, f"{rn} := " + ("(" + ", ".join(parts) + ")" if len(parts) > 1 else parts[0]))
            return
        if not isinstance(target, ast.Name):
            fail(s, f"assignment to {type(target).__name__}")
        name = target.id
        if name == "_":
            fail(s, "assignment to `_`")
        a, ta = self.expr(value, env, ind)
        if ta == "prop": a, ta = self.as_bool(a, ta, s), "bool"
        if ta == "int" and name in self.promote:
            a, ta = self.as_flt(a, ta, s), "flt"      # float mode: the int literal 0 in a variable that also holds floats is the float zero
        if self.probing and name in env and isinstance(ta, str) and isinstance(env[name], str) and {env[name], ta} == {"int", "flt"}:
            self.promote.add(name)
            env[name] = ta = "flt"
        self.check_ann(ann, ta, s)
        # peephole: `let t ← act; x := t`  ⇒  `x ← act`
        direct = None
        if self.lines and a == f"t{self.ntmp}" and self.lines[-1].strip().startswith(f"let {a} ← ") \
                and not self.lines[-1].strip().endswith("(do"):
            direct = self.lines.pop().strip()[len(f"let {a} ← "):]
            self.ntmp -= 1
        if name in env and isinstance(env[name], tuple) and env[name][0] == "opt":
            if ta == "none":
                ta = env[name]
            elif ta == env[name][1]:
                a, ta = f"(some {a})", env[name]
        if name in env:
            if isinstance(ta, str) and isinstance(env[name], str) and {env[name], ta} == {"dec", "dec0"}:
                env[name] = ta = "dec0"
            if env[name] != ta:
                fail(s, f"variable '{name}' changes type ({env[name]} → {ta})")
            self.reassigned.add(name)
            self.emit(ind, f"{name} ← {direct}" if direct else f"{name} := {a}")
        elif name in self.hoisted:
            if self.hoisted[name] != ta:
                fail(s, f"variable '{name}' is assigned a {ta} here and a {self.hoisted[name]} on another path")
            self.reassigned.add(name)
            self.emit(ind, f"{name} ← {direct}" if direct else f"{name} := {a}")
            env[name] = ta
        else:
            m = "mut " if name in self.mut else ""
            self.emit(ind, f"let {m}{name} ← {direct}" if direct else f"let {m}{name} := {a}")
            env[name] = ta

    # ---------------------------------------------------------------- whole function
    def translate(self):
        if self.mut is None:
            # pass 1: everything mutable, record which names are re-assigned; pass 2: only those
            probe = Fn(self.unit, self.fdef, self.params, self.consts)
            probe.mut = {n.id for n in ast.walk(self.fdef) if isinstance(n, ast.Name)} | {p for p, _ in self.params}
            probe.set_ret = lambda ty, node: probe.ret_types.append(ty)      # pass 1 only collects the return types
            probe.probing = True
            probe.translate()
            self.promote = set(probe.promote)
            self.hoist = dict(probe.hoist)
            self.mut = probe.reassigned | {v for v, _ in (self.unit.cur_state or {}).values()}
            rts = set(map(repr, probe.ret_types))
            if len(rts) > 1:
                kinds = set(probe.ret_types) if all(isinstance(t, str) for t in probe.ret_types) else None
                if kinds and kinds <= {"int", "dec", "dec0"}:
                    self.want_ret = "dec0"     # int on one path, Decimal on another: the number (see README: type `num`)
                elif kinds and kinds <= {"dec", "xdec"}:
                    self.want_ret = "xdec"
                elif kinds and kinds == {"int", "flt"}:
                    self.want_ret = "flt"
                elif all(isinstance(t, tuple) and t[0] == "tuple" for t in probe.ret_types) and len({len(t[1]) for t in probe.ret_types}) == 1:
                    # tuples that differ only in components that are an int on one path and a Decimal on another (`return 0, 0` / `return a0, a1`)
                    uni = []
                    for comp in zip(*[t[1] for t in probe.ret_types]):
                        if all(c == comp[0] for c in comp):
                            uni.append(comp[0])
                        elif all(isinstance(c, str) for c in comp) and set(comp) <= {"int", "dec", "dec0"}:
                            uni.append("dec0")
                        elif all(isinstance(c, str) for c in comp) and set(comp) == {"int", "flt"}:
                            uni.append("flt")       # float mode: the int literal 0 on one path, a float on another
                        else:
                            uni = None
                            break
                    if uni is not None:
                        self.want_ret = ("tuple", uni)
        env = {}
        for p, t in self.params:
            env[p] = t
            if p in self.mut and t != "obj":      # an 'obj' parameter is reachable only through the read table: it has no binder
                self.emit(1, f"let mut {p} := {p}")
        env_out, term = self.block(self.fdef.body, env, 1)
        if not term:
            st = self.unit.cur_state
            fields_ty = None
            if st:
                tys = [t for _, t in st.values()]
                fields_ty = tys[0] if len(tys) == 1 else ("tuple", tys)
            if st and all(rt == fields_ty for rt in self.ret_types):
                # a method that only updates its fields (bare `return`s at most) and falls off the end: the fields on exit
                names = [v for v, _ in st.values()]
                self.set_ret(fields_ty, self.fdef)
                self.emit(1, "return " + (names[0] if len(names) == 1 else "(" + ", ".join(names) + ")"))
            elif not self.ret_types and not st:
                self.set_ret("unit", self.fdef)       # a procedure: returns None on every path
                self.emit(1, "return ()")
            else:
                fail(self.fdef, "control can reach the end of the function (returns None) while other paths return a value")
        return self.lines, self.ret, self.uses_cx, self.uses_pow


ANN = {"int": "int", "Decimal": "dec", "bool": "bool", "str": "str", "float": "flt"}

# Python identifiers that are reserved words / commands of Lean 4 (or names the generated code itself uses): written `«name»` in the output
LEAN_RESERVED = set("""end from at fun let do then else if match with open in show have by where structure class instance def theorem lemma example
namespace section variable universe import export mut return for unless try catch finally macro syntax notation deriving inductive abbrev axiom
opaque private protected noncomputable partial unsafe calc suffices obtain using this nomatch nofun termination_by decreasing_by attribute
set_option local scoped prefix infix infixl infixr postfix mutual extends deprecated elab register_simp_attr initialize builtin_initialize
Type Prop Sort""".split())
# names the generated code itself uses: a Python variable of that name would capture them
GENERATED_NAMES = {"cx", "dpow", "fuel", "pure", "throw", "bind", "true", "false", "none", "some", "decide", "truncInt", "Py", "M", "Int", "Rat", "Nat"}


def lid(name):
    return f"«{name}»" if name in LEAN_RESERVED else name


class _LeanNames(ast.NodeTransformer):
    def visit_Name(self, node):
        node.id = lid(node.id)
        return node

    def visit_arg(self, node):
        node.arg = lid(node.arg)
        return node


class _StateRewriter(ast.NodeTransformer):
    """object fields listed in Unit.state become plain variables: `self.balance` (read or written) ↦ `balance`, `return self` ↦ `return
    <the fields>`.  Purely textual: an attribute is rewritten iff its source text is a key of the table."""

    def __init__(self, state):
        self.state = state

    def visit_Attribute(self, node):
        key = ast.unparse(node)
        if key in self.state:
            return ast.copy_location(ast.Name(id=self.state[key][0], ctx=node.ctx), node)
        return self.generic_visit(node)

    def visit_FunctionDef(self, node):
        if getattr(self, "top", None) is None:
            self.top = node
            return self.generic_visit(node)
        return node            # a function defined inside: translated on its own, with its own table

    def visit_Return(self, node):
        names = [ast.Name(id=v, ctx=ast.Load()) for v, _ in self.state.values()]
        if node.value is None:            # bare `return` of a function that updates fields: the fields on exit
            node.value = names[0] if len(names) == 1 else ast.Tuple(elts=names, ctx=ast.Load())
            return node
        if isinstance(node.value, ast.Name) and node.value.id == "self":
            node.value = names[0] if len(names) == 1 else ast.Tuple(elts=names, ctx=ast.Load())
            return node
        node = self.generic_visit(node)
        if node.value is not None:          # `return e` of a method with fields: the value and the fields on exit
            node.value = ast.Tuple(elts=[node.value] + names, ctx=ast.Load())
        return node


class Unit:
    """one Python source file (optionally one class of static methods) → one generated Lean file"""

    def __init__(self, module, src, funcs, cls=None, consts=(), prefix="", reads=None, state=None, allow_defaults=False, records=None,
                 float_mode=False, enums=None, obj_records=None, narrow=False):
        self.module, self.src, self.funcs, self.cls, self.const_names, self.prefix = module, src, funcs, cls, consts, prefix
        # state: {exact source text of an attribute of self: (variable, type)} — an object field the method reads AND writes.  The field becomes
        # a leading parameter (its value on entry) that the body may re-assign; `return self` returns the fields' values on exit, in the
        # order of this table (one field: the value itself).  A method of an object is thereby read as a function old fields -> new fields.
        self.state = state or {}
        # defaults in the signature are ignored (the generated function takes every parameter explicitly)
        self.allow_defaults = allow_defaults
        # reads: {exact source text of an expression: (parameter name, type)} — attribute / data-row reads of a method
        # that become extra leading parameters of the generated definition (pure inputs; if the text changes in the
        # source the expression is no longer recognised and the translation fails loudly)
        self.reads = reads or {}
        self.auto_consts = {}
        self.cur_reads, self.cur_cls, self.cur_state, self.cur_opts = self.reads, self.cls, self.state, {}
        # records: {NamedTuple class name: (source file, [(field, type)])} — `Name(field=e, …)` builds the tuple of the fields; the field list is
        # checked against the class definition in the source on every run (a changed field list makes every use a ShapeError)
        self.record_specs = records or {}
        self.records = {}
        # obj_records: {dataclass name: source file} — objects that are only built and handed to a translated function, which reads their fields
        # through its read table (the callee's read `params.f` is then the constructor's argument for `f`); field order from the class definition
        # narrow: flow typing of Optionals (N2) — after `if x is None: return/raise` and `if x is None: x = e`, x is a value.  Opt-in per file: the
        # translations made before it existed keep the Optional and unwrap it at each use
        self.narrow = narrow
        self.obj_record_specs = obj_records or {}
        self.obj_records = {}
        # float_mode: the file computes with Python floats: they are values of an abstract number type α (Demeter/PyFloat.lean)
        self.float_mode = float_mode
        # enums: {Enum class name: source file}: `Cls.MEMBER` is the int value the class definition gives it
        self.enum_specs = enums or {}
        self.enums = {}
        self.cur_parent, self.nested_alias, self.cur_nested_ok, self.by_src = None, {}, (), {}
        self.method_alias = {}
        self.uses = []           # other units whose translated functions may be called (their generated module is imported)
        self.sigs = {}
        self.const_values = {}

    def check_records(self):
        for name, (src, fields) in self.record_specs.items():
            try:
                with open(os.path.join(REPO, src)) as f:
                    tree = ast.parse(f.read())
                cdef = [n for n in tree.body if isinstance(n, ast.ClassDef) and n.name == name]
                if len(cdef) != 1:
                    raise ShapeError(f"class {name} not found (once) in {src}")
                cdef = cdef[0]
                bases, decos = [ast.unparse(b) for b in cdef.bases], [ast.unparse(d_) for d_ in cdef.decorator_list]
                is_nt = bases in (["NamedTuple"], ["typing.NamedTuple"]) and not decos
                is_dc = bases in ([], ["object"]) and decos in (["dataclass"], ["dataclasses.dataclass"])
                if not (is_nt or is_dc):
                    raise ShapeError(f"class {name} is neither a plain NamedTuple nor a plain @dataclass")
                got = []
                for m in cdef.body:
                    if isinstance(m, ast.AnnAssign) and isinstance(m.target, ast.Name):
                        if m.value is not None:
                            raise ShapeError(f"field {m.target.id} of {name} has a default")
                        want = dict(fields).get(m.target.id)
                        an = ANN.get(getattr(m.annotation, "id", None))
                        if self.float_mode and {an, want} == {"int", "flt"}:
                            an = want       # this code base annotates float fields `int` here and there; the record table decides
                        got.append((m.target.id, an))
                    elif isinstance(m, ast.Expr) and isinstance(m.value, ast.Constant) and isinstance(m.value.value, str):
                        continue
                    elif isinstance(m, ast.FunctionDef) and m.name in ("__new__", "__init__", "__post_init__", "__setattr__", "__getattr__",
                                                                       "__getattribute__", "_make", "_replace"):
                        raise ShapeError(f"class {name} overrides {m.name}")
                if got != [(fn_, ft) for fn_, ft in fields]:
                    raise ShapeError(f"fields of {name} in {src} are {got}, the record table says {fields}")
                self.records[name] = list(fields)
                RECORDS[name] = list(fields)
            except (ShapeError, OSError, SyntaxError) as e:
                self.records[name] = f"record {name}: {e}"
                RECORDS.setdefault(name, list(fields))
        for name, src in self.obj_record_specs.items():
            try:
                with open(os.path.join(REPO, src)) as f:
                    tree = ast.parse(f.read())
                cdef = [n for n in tree.body if isinstance(n, ast.ClassDef) and n.name == name]
                if len(cdef) != 1 or [ast.unparse(d_) for d_ in cdef[0].decorator_list] not in (["dataclass"], ["dataclasses.dataclass"]) \
                        or [ast.unparse(b) for b in cdef[0].bases] not in ([], ["object"]):
                    raise ShapeError(f"class {name} is not a plain @dataclass (once) in {src}")
                fields = []
                for m in cdef[0].body:
                    if isinstance(m, ast.AnnAssign) and isinstance(m.target, ast.Name):
                        if m.value is not None:
                            raise ShapeError(f"field {m.target.id} of {name} has a default")
                        fields.append(m.target.id)
                    elif isinstance(m, ast.Expr) and isinstance(m.value, ast.Constant):
                        continue
                    else:
                        raise ShapeError(f"class {name} has a member that is not a plain field ({type(m).__name__})")
                self.obj_records[name] = fields
            except (ShapeError, OSError, SyntaxError) as e:
                self.obj_records[name] = f"object class {name}: {e}"
        for name, src in self.enum_specs.items():
            try:
                with open(os.path.join(REPO, src)) as f:
                    tree = ast.parse(f.read())
                cdef = [n for n in tree.body if isinstance(n, ast.ClassDef) and n.name == name]
                if len(cdef) != 1 or [ast.unparse(b) for b in cdef[0].bases] not in (["enum.Enum"], ["Enum"]) or cdef[0].decorator_list:
                    raise ShapeError(f"class {name} is not a plain Enum (once) in {src}")
                vals = {}
                for m in cdef[0].body:
                    if isinstance(m, ast.Assign) and len(m.targets) == 1 and isinstance(m.targets[0], ast.Name) and const_value(m.value) is not None:
                        vals[m.targets[0].id] = const_value(m.value)
                    elif isinstance(m, ast.Expr) and isinstance(m.value, ast.Constant):
                        continue
                    else:
                        raise ShapeError(f"class {name} has a member that is not `NAME = <int>`")
                if len(set(vals.values())) != len(vals):
                    raise ShapeError(f"enum {name} has aliases (two names with one value)")
                for k, v in vals.items():
                    self.enums[(name, k)] = v
            except (ShapeError, OSError, SyntaxError):
                pass        # its members are then unknown names: every function that mentions one fails loudly

    def check_nested_layout(self, fdef, parent_name):
        """functions defined inside `fdef` must be direct children of its body, precede every other statement (so each exists whenever one of them
        or the body runs), be in the signature table, and their names must not be rebound; returns the accepted FunctionDef nodes"""
        inner = [m for m in ast.walk(fdef) if isinstance(m, (ast.FunctionDef, ast.AsyncFunctionDef, ast.Lambda, ast.ClassDef)) and m is not fdef]
        if not inner:
            return ()
        ok, seen_stmt = [], False
        for st in fdef.body:
            if isinstance(st, ast.Expr) and isinstance(st.value, ast.Constant) and isinstance(st.value.value, str):
                continue
            if isinstance(st, ast.FunctionDef):
                if seen_stmt:
                    fail(st, f"nested function '{st.name}' is defined after other statements of '{parent_name}'")
                if (parent_name, st.name) not in self.nested_alias:
                    fail(st, f"nested function '{st.name}' of '{parent_name}' is not in the signature table")
                if st.decorator_list:
                    fail(st, f"decorated nested function '{st.name}'")
                ok.append(st)
            else:
                seen_stmt = True
        names = [st.name for st in ok]
        if len(set(names)) != len(names):
            fail(fdef, "a nested function is defined twice")
        for m in inner:
            if m not in ok and not any(m is not o and m in ast.walk(o) for o in ok):
                fail(m, f"{type(m).__name__} nested inside '{parent_name}' other than a function defined at the top of its body")
        for o in ok:
            if any(isinstance(m, (ast.FunctionDef, ast.AsyncFunctionDef, ast.Lambda, ast.ClassDef)) and m is not o for m in ast.walk(o)):
                fail(o, f"nested function '{o.name}' itself defines functions")
        for m in ast.walk(fdef):
            if isinstance(m, ast.Name) and m.id in names and not isinstance(m.ctx, ast.Load):
                fail(m, f"the name of the nested function '{m.id}' is re-assigned")
            if isinstance(m, (ast.Global, ast.Nonlocal)):
                fail(m, "global / nonlocal declaration")
            if isinstance(m, ast.arg) and m.arg in names:
                fail(fdef, f"a parameter is named like the nested function '{m.arg}'")
        return tuple(ok)

    def find(self, tree, name, cls=None):
        body = tree.body
        cls = cls if cls is not None else self.cls
        if cls:
            for n in tree.body:
                if isinstance(n, ast.ClassDef) and n.name == cls:
                    body = n.body
                    break
            else:
                raise ShapeError(f"class {cls} not found")
        for n in body:
            if isinstance(n, ast.FunctionDef) and n.name == name:
                return n, body
        raise ShapeError("function not found")

    def literal_constants(self, tree):
        """every module-level (and, for a class unit, class-level) `NAME = <int / float literal | Decimal("…") | Decimal(<int>)>` that is assigned
        exactly once in the file and never declared global/rebound: a literal that was given a name.  Resolved only when a function uses a name
        that is neither a local nor a configured constant, so moving a literal into a named constant does not leave the subset."""
        out, count = {}, {}
        bodies = [tree.body] + [n.body for n in tree.body if isinstance(n, ast.ClassDef) and n.name == self.cls]
        for n in ast.walk(tree):
            if isinstance(n, (ast.Assign, ast.AnnAssign, ast.AugAssign)):
                for tg in (n.targets if isinstance(n, ast.Assign) else [n.target]):
                    if isinstance(tg, ast.Name):
                        count[tg.id] = count.get(tg.id, 0) + 1
            elif isinstance(n, ast.Global):
                for nm in n.names:
                    count[nm] = count.get(nm, 0) + 2
        for body in bodies:
            for n in body:
                if not isinstance(n, (ast.Assign, ast.AnnAssign)) or n.value is None:
                    continue
                tg = n.targets[0] if isinstance(n, ast.Assign) else n.target
                if not isinstance(tg, ast.Name) or count.get(tg.id) != 1:
                    continue
                v = n.value
                try:
                    cv = const_value(v)
                    if cv is not None:
                        out[tg.id] = (f"({cv} : Int)", "int")
                    elif isinstance(v, ast.Constant) and type(v.value) is float and v.value == v.value and abs(v.value) != float("inf"):
                        num, den = v.value.as_integer_ratio()
                        out[tg.id] = (f"(({num} : Rat) / ({den} : Rat))", "fconst")
                    elif isinstance(v, ast.Call) and getattr(v.func, "id", None) == "Decimal" and len(v.args) == 1 and not v.keywords:
                        if isinstance(v.args[0], ast.Constant) and isinstance(v.args[0].value, str):
                            out[tg.id] = (dec_literal(v.args[0].value, v)[0], "dec")
                        elif const_value(v.args[0]) is not None:
                            out[tg.id] = (f"({const_value(v.args[0])} : Rat)", "dec")
                except ShapeError:
                    pass
        return out

    def read_consts(self, body):
        """class/module level `NAME = <int literal>` / `NAME = Decimal("…")` that the config lists"""
        out = {}
        for n in body:
            if isinstance(n, (ast.Assign, ast.AnnAssign)):
                tg = n.targets[0] if isinstance(n, ast.Assign) else n.target
                if isinstance(tg, ast.Name) and tg.id in self.const_names:
                    v = n.value
                    cv = const_value(v)
                    if cv is not None:
                        out[tg.id] = (f"({cv} : Int)", "int")
                        self.const_values[tg.id] = cv
                    elif isinstance(v, ast.Call) and getattr(v.func, "id", None) == "Decimal" and len(v.args) == 1 \
                            and isinstance(v.args[0], ast.Constant) and isinstance(v.args[0].value, (str, int)):
                        term, fr = dec_literal(str(v.args[0].value), v)
                        out[tg.id] = (term, "dec")
                        self.const_values[tg.id] = fr
                    elif isinstance(v, ast.Call) and getattr(v.func, "id", None) == "Decimal" and len(v.args) == 1 \
                            and const_value(v.args[0]) is not None:
                        from fractions import Fraction
                        out[tg.id] = (f"({const_value(v.args[0])} : Rat)", "dec")       # Decimal(<constant int expression>): exact
                        self.const_values[tg.id] = Fraction(const_value(v.args[0]))
                    elif isinstance(v, ast.Call) and getattr(v.func, "id", None) == "Decimal" and len(v.args) == 1 \
                            and isinstance(v.args[0], ast.Constant) and type(v.args[0].value) is float and v.args[0].value == v.args[0].value \
                            and abs(v.args[0].value) != float("inf"):
                        from fractions import Fraction
                        fr = Fraction(v.args[0].value)                                   # Decimal(<float literal>) is the float's exact binary value
                        out[tg.id] = (f"(({fr.numerator} : Rat) / ({fr.denominator} : Rat))" if fr.denominator != 1 else f"({fr.numerator} : Rat)", "dec")
                        self.const_values[tg.id] = fr
                    else:
                        raise ShapeError(f"constant {tg.id} is not an int / Decimal literal")
        return out

    def generate(self):
        path = os.path.join(REPO, self.src)
        with open(path) as f:
            tree = ast.parse(f.read(), path)
        defs, failures = [], []
        self.auto_consts = self.literal_constants(tree)
        for u in self.uses:
            self.sigs.update(u.sigs)
        # an entry of `funcs` is (name, {param: type}) or (name, {param: type}, opts): opts may give this function its own class ("cls"),
        # read table ("reads"), fields ("state"), generated name ("as") and switches ("return_in_for")
        entries = [(f[0], f[1], (f[2] if len(f) > 2 else {})) for f in self.funcs]
        self.method_alias = {(o.get("cls", self.cls), n): o.get("as", n) for n, pt, o in entries if not o.get("nested_in")}
        # nested_in: the entry is a function defined inside another one (a closure that reaches the enclosing function's objects through the same read /
        # state tables); by_src: the translations of one source function under different argument types (the call picks the one that fits)
        self.nested_alias = {(o["nested_in"], n): o.get("as", n) for n, pt, o in entries if o.get("nested_in")}
        for u in self.uses:
            for k, v in u.by_src.items():
                self.by_src.setdefault(k, [])
                self.by_src[k] += [x for x in v if x not in self.by_src[k]]
        for n, pt, o in entries:
            if not o.get("nested_in"):
                self.by_src.setdefault(n, []).append(o.get("as", n))
                c = o.get("cls", self.cls)
                if c:
                    self.by_src.setdefault(f"{c}.{n}", []).append(o.get("as", n))      # `Cls.f(…)`: a static method of a class of this or a used file
        self.check_records()
        for u in self.uses:
            for k, v in u.records.items():
                self.records.setdefault(k, v)
            for k, v in u.enums.items():
                self.enums.setdefault(k, v)
            for k, v in u.obj_records.items():
                self.obj_records.setdefault(k, v)
        self.funcs = [(o.get("as", n), pt) for n, pt, o in entries]
        for (n, pt, o) in entries:
            key = o.get("as", n)
            self.sigs[key] = Sig(key, self.prefix + key, [(lid(pn), pty) for pn, pty in pt.items()])
        consts = {}
        for src_name, ptypes, opts in entries:
            name = opts.get("as", src_name)
            sig = self.sigs[name]
            self.cur_cls, self.cur_reads, self.cur_state, self.cur_opts = opts.get("cls", self.cls), opts.get("reads", self.reads), opts.get("state", self.state), opts
            self.cur_parent, self.cur_nested_ok = opts.get("nested_in") or src_name, ()
            try:
                if opts.get("nested_in"):
                    pdef, body = self.find(tree, opts["nested_in"], self.cur_cls)
                    inner = [d for d in self.check_nested_layout(pdef, opts["nested_in"]) if d.name == src_name]
                    if not inner:
                        raise ShapeError(f"no function '{src_name}' is defined at the top of '{opts['nested_in']}'")
                    fdef = inner[0]
                else:
                    fdef, body = self.find(tree, src_name, self.cur_cls)
                    self.cur_nested_ok = self.check_nested_layout(fdef, src_name)
                orig_fdef = fdef
                if not consts and self.const_names:
                    consts = self.read_consts(body)
                    consts.update(EXTERNAL_CONSTS)
                a = fdef.args
                if a.vararg or a.kwarg or a.kwonlyargs or (a.defaults and not self.allow_defaults) or a.posonlyargs:
                    fail(fdef, "defaults / *args / **kwargs in the signature")
                if self.cur_state:
                    fdef = _StateRewriter(self.cur_state).visit(copy.deepcopy(fdef))
                    ast.fix_missing_locations(fdef)
                argnames = [x.arg for x in a.args]
                if argnames and argnames[0] == "self" and self.cur_cls:
                    argnames = argnames[1:]          # a method: `self` is reachable only through Unit.reads
                if opts.get("nested_in") and len(argnames) == len(ptypes) and argnames != list(ptypes):
                    # a function defined inside another one has no outside callers and the translated calls are positional: its parameters are
                    # matched by position, so renaming one is not a change
                    ptypes = dict(zip(argnames, ptypes.values()))
                    sig.params = [(lid(pn), pty) for pn, pty in ptypes.items()]
                if argnames != list(ptypes):
                    fail(fdef, f"parameters {[x.arg for x in a.args]} differ from the translator's signature table {list(ptypes)}")
                # a read / field of the tables becomes a binder of that name: a Python variable of the same name would capture it
                table_names = {nm for nm, _ in self.cur_reads.values()} | {v for v, _ in self.cur_state.values()}
                same_value = set()       # `x = <the read that the table calls x>`: the variable holds the input itself, nothing is captured
                for m in ast.walk(orig_fdef):
                    if isinstance(m, ast.Assign) and len(m.targets) == 1 and isinstance(m.targets[0], ast.Name) \
                            and self.cur_reads.get(ast.unparse(m.value), (None,))[0] == m.targets[0].id:
                        same_value.add(m.targets[0])
                for m in ast.walk(orig_fdef):
                    nm = m.id if isinstance(m, ast.Name) and not isinstance(m.ctx, ast.Load) else (m.arg if isinstance(m, ast.arg) else None)
                    if nm is not None and nm in table_names and m not in same_value:
                        fail(m, f"the variable '{nm}' has the name the read / state table gives to an input of this function")
                for x in a.args:
                    an = getattr(x.annotation, "id", None)
                    if self.float_mode and an in ANN and {ANN[an], ptypes.get(x.arg)} == {"int", "flt"}:
                        continue        # float mode: this code base annotates float parameters `int` here and there (impactFactor: int); the table decides
                    if x.arg in ptypes and an in ANN and ANN[an] != ptypes[x.arg] and x.arg not in opts.get("override_ann", ()):
                        fail(fdef, f"parameter {x.arg} is annotated {an}, the signature table says {ptypes[x.arg]}")
                for d in fdef.decorator_list:
                    if getattr(d, "id", None) != "staticmethod":
                        fail(fdef, "decorator other than @staticmethod")
                for x in a.args:
                    if x.arg in ptypes and ptypes[x.arg] in ("time", "delta") and getattr(x.annotation, "id", None) not in (None, "datetime", "timedelta"):
                        fail(fdef, f"parameter {x.arg} is annotated {getattr(x.annotation, 'id', None)}, the signature table says {ptypes[x.arg]}")
                for m in ast.walk(fdef):
                    nm = m.id if isinstance(m, ast.Name) and not isinstance(m.ctx, ast.Load) else (m.arg if isinstance(m, ast.arg) else None)
                    if nm is not None and (nm in GENERATED_NAMES or re.fullmatch(r"t\d+", nm)):
                        fail(m, f"the variable name '{nm}' is used by the generated code itself")
                if any(isinstance(m, ast.Name) and m.id in LEAN_RESERVED for m in ast.walk(fdef)) or any(x.arg in LEAN_RESERVED for x in a.args):
                    fdef = _LeanNames().visit(copy.deepcopy(fdef))      # `end`, `from`, … are fine in Python and reserved in Lean
                fn = Fn(self, fdef, list(self.cur_state.values()) + sig.params, consts or dict(EXTERNAL_CONSTS))
                lines, ret, uses_cx, uses_pow = fn.translate()
                sig.ret, sig.uses_cx, sig.uses_pow = ret, uses_cx, uses_pow
                sig.reads = [(nm, ty) for nm, ty in self.cur_reads.values() if nm in fn.used_reads] + list(self.cur_state.values())
                sig.read_keys = [(key, nm, ty) for key, (nm, ty) in self.cur_reads.items() if nm in fn.used_reads]
                sig.state = dict(self.cur_state)
                sig.uses_fuel = fn.uses_fuel
                own = [m for m in ast.walk(orig_fdef) if isinstance(m, ast.Return)
                       and not any(m in ast.walk(d) for d in self.cur_nested_ok)]
                sig.state_only = bool(self.cur_state) and all(m.value is None or (isinstance(m.value, ast.Name) and m.value.id == "self") for m in own)
                sig.uses_o = fn.uses_o
                binders = ("(o : FloatOps α) " if fn.uses_o else "") + ("(cx : NumCtx) " if uses_cx else "") + ("(dpow : Rat → Nat → Rat) " if uses_pow else "") + ("(fuel : Nat) " if fn.uses_fuel else "") \
                    + "".join(f"({nm} : {lean_ty(ty)}) " for nm, ty in sig.reads) + " ".join(f"({p} : {lean_ty(t)})" for p, t in sig.params if t != "obj")
                head = f"/-- `{self.src}` line {fdef.lineno}: `{(self.cur_cls + '.') if self.cur_cls else ''}{(opts['nested_in'] + '.') if opts.get('nested_in') else ''}{src_name}` -/\ndef {sig.lean_name} {binders} : M ({lean_ty(ret)}) := do"
                defs.append(head + "\n" + "\n".join(lines))
            except ShapeError as e:
                sig.ret = None
                failures.append((name, str(e)))
                defs.append(f"-- SHAPE-ERROR {name}: {e}\n-- (no definition is generated: the tie theorem for `{name}` cannot compile)")
        ok = [n for n, _ in self.funcs if self.sigs[n].ret is not None]
        head = [f"-- GENERATED by tools/py2lean.py from /repo/{self.src} — do not edit",
                f"-- translated: {', '.join(ok) if ok else '(none)'}"]
        if failures:
            head.append(f"-- NOT translated: {', '.join(n for n, _ in failures)}")
        imports = ["import Demeter.PyFloat" if self.float_mode else "import Demeter.PyPrelude"] + [f"import Demeter.Gen.Py{u.module}" for u in self.uses]
        opening = ["namespace Demeter.Py", "set_option linter.unusedVariables false"]
        if self.float_mode:
            opening += ["section", "variable {α : Type} [Add α] [Sub α] [Mul α] [Div α] [Neg α] [LT α] [LE α] [OfNat α 0] [DecidableLT α] [DecidableLE α]"]
        text = "\n".join(head + imports + opening + [""]) \
            + "\n\n".join(defs) + ("\n\nend" if self.float_mode else "") + "\n\nend Demeter.Py\n"
        return text, failures


def _external_consts():
    """demeter/_typing.py: `DECIMAL_0 = Decimal(0)`, `DECIMAL_1 = Decimal(1)` — read from the source (module-level, assigned once); a name that is
    not found there is simply unknown to the functions that use it"""
    out = {}
    try:
        with open(os.path.join(REPO, "demeter", "_typing.py")) as f:
            tree = ast.parse(f.read())
        lits = Unit("_", "demeter/_typing.py", []).literal_constants(tree)
    except (OSError, SyntaxError):
        return out
    for name in ("DECIMAL_0", "DECIMAL_1"):
        if name in lits and lits[name][1] == "dec":
            out[name] = lits[name]
    return out


EXTERNAL_CONSTS = _external_consts()

I, D, B, S, T, F = "int", "dec", "bool", "str", "tok", "frame"
DD = ("dict", "dec")

UNITS = [
    Unit("LiquitidyMath", "demeter/uniswap/liquitidy_math.py", [
        ("get_sqrt_ratio_at_tick", {"tick": I}),
        ("mul_div", {"a": I, "b": I, "denominator": I}),
        ("get_liquidity_for_amount0", {"sqrtA": I, "sqrtB": I, "amount": I}),
        ("get_liquidity_for_amount1", {"sqrtA": I, "sqrtB": I, "amount": I}),
        ("to_wei", {"amount": D, "decimals": I}),
        ("get_liquidity", {"sqrt_price_x96": I, "tickA": I, "tickB": I, "amount0": D, "amount1": D, "decimal0": I, "decimal1": I}),
        ("get_amount0", {"sqrtA": I, "sqrtB": I, "liquidity": I, "decimals": I}),
        ("get_amount1", {"sqrtA": I, "sqrtB": I, "liquidity": I, "decimals": I}),
        ("get_amounts", {"sqrt_price_x96": I, "tickA": I, "tickB": I, "liquidity": I, "decimal0": I, "decimal1": I}),
        # the same three functions read with a Decimal liquidity (annotated int; a position's liquidity is a Decimal after a partial removal through
        # the public API, whose decorator converts the int argument): the products with it round through the context
        ("get_amount0", {"sqrtA": I, "sqrtB": I, "liquidity": D, "decimals": I}, {"as": "get_amount0_dliq", "override_ann": ("liquidity",)}),
        ("get_amount1", {"sqrtA": I, "sqrtB": I, "liquidity": D, "decimals": I}, {"as": "get_amount1_dliq", "override_ann": ("liquidity",)}),
        ("get_amounts", {"sqrt_price_x96": I, "tickA": I, "tickB": I, "liquidity": D, "decimal0": I, "decimal1": I},
         {"as": "get_amounts_dliq", "override_ann": ("liquidity",)}),
    ]),
]


UNITS.append(Unit("AaveCore", "demeter/aave/core.py", [
    ("safe_div", {"a": D, "b": D}),
    ("rate_to_apy", {"rate": D}),
    ("get_amount", {"base_amount": D, "liquidity_index": D}),
    ("get_base_amount", {"amount": D, "liquidity_index": D}),
    ("health_factor", {"collaterals": DD, "borrows": DD, "risk_parameters": F}),
    ("max_ltv", {"collaterals": DD, "risk_parameters": F}),
    ("total_liquidation_threshold", {"collaterals": DD, "risk_parameters": F}),
    ("get_min_withdraw_kept_amount", {"token": T, "collaterals": DD, "borrows": DD, "risk_parameters": F, "price": D}),
], cls="AaveV3CoreLib", consts=("SECONDS_IN_A_YEAR", "HEALTH_FACTOR_LIQUIDATION_THRESHOLD", "DEFAULT_LIQUIDATION_CLOSE_FACTOR",
                                 "MAX_LIQUIDATION_CLOSE_FACTOR", "CLOSE_FACTOR_HF_THRESHOLD"), prefix="aave_"))


UNITS.append(Unit("GmxMarket", "demeter/gmx/market.py", [
    ("get_fee_basis_points", {"token": T, "usdg_amount": D, "increase": B}),
    ("_collect_swap_fee", {"token": T, "token_amount": D, "fee_point": D}),
], cls="GmxMarket", prefix="gmx_", reads={
    "self.market_status.data[f'{token.name.lower()}_usdg']": ("usdg_of_token", D),     # text as printed by ast.unparse
    "self.get_target_amount(token)": ("target_amount_of_token", D),
    "self.mint_burn_fee_basis_points": ("mint_burn_fee_basis_points", I),
    "self.tax_basis_points": ("tax_basis_points", I),
}))


DERIBIT_HELPER = Unit("DeribitHelper", "demeter/deribit/helper.py", [
    ("round_decimal", {"num": D, "exponent": I}),
], prefix="deribit_")
UNITS.append(DERIBIT_HELPER)
DERIBIT_MARKET = Unit("DeribitMarket", "demeter/deribit/market.py", [
    ("get_trade_fee", {"amount": D, "total_premium": D}),
    ("get_deliver_fee", {"amount": D, "total_premium": D}),
], cls="DeribitOptionMarket", consts=("MAX_FEE_RATE",), prefix="deribit_", reads={
    "self.token_config.trade_fee_rate": ("trade_fee_rate", D),
    "self.token_config.delivery_fee_rate": ("delivery_fee_rate", D),
    "self.decimal": ("fee_decimal", I),
})
DERIBIT_MARKET.uses = [DERIBIT_HELPER]
UNITS.append(DERIBIT_MARKET)


UNISWAP_HELPER = Unit("UniswapHelper", "demeter/uniswap/helper.py", [
    ("_from_x96", {"number": I}),
    ("_to_x96", {"sqrt_price": D}),
    ("tick_to_sqrt_price_x96", {"tick": I}),
    ("from_atomic_unit", {"atomic_unit_amount": I, "decimal": I}),
    # the same function read with a Decimal amount: the annotation says int, but the pool data loader (`load_uni_v3_data`: converters `to_decimal`)
    # fills inAmount0/1 with Decimals, which is what update_fee passes; `int(x)` then truncates.  `override_ann` lifts the annotation check for it
    ("from_atomic_unit", {"atomic_unit_amount": D, "decimal": I}, {"as": "from_atomic_unit_dec", "override_ann": ("atomic_unit_amount",)}),
    ("get_swap_value", {"swap_from_token_val": D, "swap_to_token_val": D, "fee_rate": D, "final_ratio": D}),
    ("get_swap_value_with_part_balance_used", {"swap_from_token_val": D, "swap_to_token_val": D, "total_val_after": D,
                                               "fee_rate": D, "final_ratio": D}),
], consts=("Q96",), prefix="uni_")
UNISWAP_HELPER.uses = [UNITS[0]]
UNITS.append(UNISWAP_HELPER)


_UC_POOL = {"pool.token0.decimal": ("decimal0", I), "pool.token1.decimal": ("decimal1", I)}
_UC_FEE_READS = {"position.liquidity": ("liquidity", I), "state.currentLiquidity": ("current_liquidity", D),
                 "state.inAmount0": ("in_amount0", D), "state.inAmount1": ("in_amount1", D),
                 "pool.token0.decimal": ("decimal0", I), "pool.token1.decimal": ("decimal1", I), "pool.fee_rate": ("fee_rate", D),
                 "pos.lower_tick": ("lower_tick", I), "pos.upper_tick": ("upper_tick", I), "state.closeTick": ("close_tick", I)}
_UC_FEE_STATE = {"position.pending_amount0": ("pending_amount0", D), "position.pending_amount1": ("pending_amount1", D)}
_UC_FEE_OBJS = {"last_tick": I, "pool": "obj", "pos": "obj", "position": "obj", "state": "obj"}
UNISWAP_CORE = Unit("UniswapCore", "demeter/uniswap/core.py", [
    ("new_position", {"pool": "obj", "token0_amount": D, "token1_amount": D, "lower_tick": I, "upper_tick": I, "sqrt_price_x96": I}, {"reads": _UC_POOL}),
    ("get_token_amounts", {"pool": "obj", "pos": "obj", "sqrt_price_x96": I, "liquidity": I},
     {"reads": dict(_UC_POOL, **{"pos.lower_tick": ("lower_tick", I), "pos.upper_tick": ("upper_tick", I)})}),
    ("close_position", {"pool": "obj", "position_info": "obj", "liquidity": I, "sqrt_price_x96": I},
     {"reads": dict(_UC_POOL, **{"position_info.lower_tick": ("lower_tick", I), "position_info.upper_tick": ("upper_tick", I)})}),
    ("get_token_amounts", {"pool": "obj", "pos": "obj", "sqrt_price_x96": I, "liquidity": D},
     {"as": "get_token_amounts_dliq", "reads": dict(_UC_POOL, **{"pos.lower_tick": ("lower_tick", I), "pos.upper_tick": ("upper_tick", I)})}),
    ("close_position", {"pool": "obj", "position_info": "obj", "liquidity": D, "sqrt_price_x96": I},
     {"as": "close_position_dliq", "reads": dict(_UC_POOL, **{"position_info.lower_tick": ("lower_tick", I), "position_info.upper_tick": ("upper_tick", I)})}),
    # update_fee and the two functions defined inside it (closures over pool / pos / position / state: same read and state tables)
    ("in_range", {"tick": I}, {"nested_in": "update_fee", "as": "update_fee_in_range", "reads": _UC_FEE_READS}),
    ("calc_amounts", {"weight": D}, {"nested_in": "update_fee", "as": "update_fee_calc_amounts", "reads": _UC_FEE_READS, "state": _UC_FEE_STATE}),
    ("update_fee", dict(_UC_FEE_OBJS), {"reads": _UC_FEE_READS, "state": _UC_FEE_STATE}),
], cls="V3CoreLib", prefix="unicore_",
    records={"PositionInfo": ("demeter/uniswap/_typing.py", [("lower_tick", I), ("upper_tick", I)])})
UNISWAP_CORE.uses = [UNITS[0], UNISWAP_HELPER]
UNITS.append(UNISWAP_CORE)


# ---- GMX v2 (float mode): demeter/gmx/gmx_v2/*.py
FL = "flt"
_G2 = "demeter/gmx/gmx_v2/"
_G2_RECORDS = {
    "PoolParams": (_G2 + "SwapPricingUtils.py", [("poolUsdForTokenA", FL), ("poolUsdForTokenB", FL), ("nextPoolUsdForTokenA", FL), ("nextPoolUsdForTokenB", FL)]),
    "SwapFees": (_G2 + "SwapPricingUtils.py", [("amountAfterFees", FL), ("totalFee", FL)]),
    "Amounts": (_G2 + "SwapPricingUtils.py", [("long", FL), ("short", FL)]),
    "LPResult": (_G2 + "_typing.py", [("long_amount", FL), ("short_amount", FL), ("total_usd", FL), ("gm_amount", FL), ("gm_usd", FL),
                                      ("long_fee", FL), ("short_fee", FL), ("fee_usd", FL), ("price_impact_usd", FL)]),
}
_G2_CFG = {"pool_config.swapImpactFactorPositive": ("impact_factor_positive", FL), "pool_config.swapImpactFactorNegative": ("impact_factor_negative", FL),
           "pool_config.swapImpactExponentFactor": ("impact_exponent", FL),
           "pool_config.depositFeeFactorForPositiveImpact": ("deposit_fee_positive", FL), "pool_config.depositFeeFactorForNegativeImpact": ("deposit_fee_negative", FL),
           "pool_config.withdrawFeeFactorForPositiveImpact": ("withdraw_fee_positive", FL), "pool_config.withdrawFeeFactorForNegativeImpact": ("withdraw_fee_negative", FL),
           "pool_config.longDecimal": ("long_decimal", I), "pool_config.shortDecimal": ("short_decimal", I)}
_G2_STATUS = {"pool_status.longAmount": ("long_amount_pool", FL), "pool_status.shortAmount": ("short_amount_pool", FL),
              "pool_status.virtualSwapInventoryLong": ("virtual_long", ("opt", FL)), "pool_status.virtualSwapInventoryShort": ("virtual_short", ("opt", FL)),
              "pool_status.poolValue": ("pool_value", FL), "pool_status.marketTokensSupply": ("market_tokens_supply", FL),
              "pool_status.impactPoolAmount": ("impact_pool_amount", FL), "pool_status.longPrice": ("long_price", FL), "pool_status.shortPrice": ("short_price", FL)}
GMX2_UTILS = Unit("Gmx2Utils", _G2 + "utils.py", [
    ("sumReturnUint256", {"a": FL, "b": FL}, {"cls": "Calc"}),
    ("diff", {"a": FL, "b": FL}, {"cls": "Calc"}),
    ("toSigned", {"a": FL, "isPositive": B}, {"cls": "Calc"}),
    ("applyImpactFactor", {"diffUsd": FL, "impactFactor": FL, "impactExponentFactor": FL}, {"cls": "PricingUtils"}),
    ("getPriceImpactUsdForSameSideRebalance", {"initialDiffUsd": FL, "nextDiffUsd": FL, "impactFactor": FL, "impactExponentFactor": FL}, {"cls": "PricingUtils"}),
    ("getPriceImpactUsdForCrossoverRebalance", {"initialDiffUsd": FL, "nextDiffUsd": FL, "positiveImpactFactor": FL, "negativeImpactFactor": FL,
                                                "impactExponentFactor": FL}, {"cls": "PricingUtils"}),
    ("get_gm_price", {"pool_value": FL, "supply_amount": FL}, {"cls": "PricingUtils"}),
    ("applyFactor", {"value": FL, "factor": FL}, {"cls": "Precision"}),
], prefix="gmx2_", float_mode=True)
UNITS.append(GMX2_UTILS)
GMX2_MARKET_UTILS = Unit("Gmx2MarketUtils", _G2 + "MarketUtils.py", [
    ("getAdjustedSwapImpactFactors", {"pool_config": "obj"}, {"reads": _G2_CFG}),
    ("getAdjustedSwapImpactFactor", {"pool_config": "obj", "isPositive": B}, {"reads": _G2_CFG}),
    ("getSwapImpactAmountWithCap", {"tokenPrice": FL, "priceImpactUsd": FL, "impactPoolAmount": FL}),
    ("usdToMarketTokenAmount", {"_usd_value": FL, "_pool_value": FL, "_supply": FL}),
    ("marketTokenAmountToUsd", {"marketTokenAmount": FL, "poolValue": FL, "supply": FL}),
    ("getTokenAmountsFromGM", {"pool_status": "obj", "marketTokenAmount": FL}, {"reads": _G2_STATUS}),
    ("get_values", {"amount": FL, "price": FL, "decimal": I}, {"override_ann": ("decimal",)}),
], cls="MarketUtils", prefix="gmx2_", float_mode=True)
GMX2_MARKET_UTILS.uses = [GMX2_UTILS]
UNITS.append(GMX2_MARKET_UTILS)


_G2_PARAMS = {"params.priceForTokenA": ("price_a", FL), "params.priceForTokenB": ("price_b", FL),
              "params.usdDeltaForTokenA": ("usd_delta_a", FL), "params.usdDeltaForTokenB": ("usd_delta_b", FL),
              "params.includeVirtualInventoryImpact": ("include_virtual", B), "params.tokenA_is_long_token": ("token_a_is_long", B)}
_G2_PARAMS_CFG = {"params." + k: v for k, v in _G2_CFG.items()}
GMX2_SWAP = Unit("Gmx2SwapPricingUtils", _G2 + "SwapPricingUtils.py", [
    ("getNextPoolAmountsParams", {"params": "obj", "poolAmountForTokenA": FL, "poolAmountForTokenB": FL}, {"reads": _G2_PARAMS}),
    ("getNextPoolAmountsUsd", {"params": "obj", "amounts": ("rec", "Amounts")}, {"reads": _G2_PARAMS}),
    ("_getPriceImpactUsd", {"pool_config": "obj", "pool_params": ("rec", "PoolParams")}, {"reads": _G2_CFG}),
    ("getPriceImpactUsd", {"params": "obj", "pool_status": "obj"}, {"reads": dict(_G2_PARAMS, **_G2_PARAMS_CFG, **_G2_STATUS)}),
    ("getSwapFees", {"pool_config": "obj", "amount": FL, "forPositiveImpact": B, "swapPricingType": I}, {"reads": _G2_CFG}),
], cls="SwapPriceUtils", prefix="gmx2_", float_mode=True, records=_G2_RECORDS, enums={"SwapPricingType": _G2 + "SwapPricingUtils.py"},
    obj_records={"GetPriceImpactUsdParams": _G2 + "SwapPricingUtils.py"}, narrow=True)
GMX2_SWAP.uses = [GMX2_UTILS, GMX2_MARKET_UTILS]
UNITS.append(GMX2_SWAP)


_G2_BOTH = dict(_G2_CFG, **_G2_STATUS)
GMX2_DEPOSIT = Unit("Gmx2ExecuteDepositUtils", _G2 + "ExecuteDepositUtils.py", [
    ("calc_token_amount", {"pool_config": "obj", "pool_status": "obj", "tokenInPrice": FL, "tokenOutPrice": FL, "amount": FL, "priceImpactUsd": FL,
                           "impactPoolAmount": ("opt", FL)}, {"reads": _G2_BOTH}),
    ("get_mint_amount", {"pool_config": "obj", "pool_status": "obj", "long_amount": FL, "short_amount": FL}, {"reads": _G2_BOTH}),
], cls="ExecuteDepositUtils", prefix="gmx2_", float_mode=True, records=_G2_RECORDS, enums={"SwapPricingType": _G2 + "SwapPricingUtils.py"},
    obj_records={"GetPriceImpactUsdParams": _G2 + "SwapPricingUtils.py"}, narrow=True, allow_defaults=True)
GMX2_DEPOSIT.uses = [GMX2_UTILS, GMX2_MARKET_UTILS, GMX2_SWAP]
UNITS.append(GMX2_DEPOSIT)
GMX2_WITHDRAW = Unit("Gmx2ExecuteWithdrawUtils", _G2 + "ExecuteWithdrawUtils.py", [
    ("getOutputAmount", {"pool_config": "obj", "pool_status": "obj", "marketTokenAmount": FL}, {"reads": _G2_BOTH}),
], cls="ExecuteWithdrawUtils", prefix="gmx2_", float_mode=True, records=_G2_RECORDS, enums={"SwapPricingType": _G2 + "SwapPricingUtils.py"},
    narrow=True)
GMX2_WITHDRAW.uses = [GMX2_UTILS, GMX2_MARKET_UTILS, GMX2_SWAP]
UNITS.append(GMX2_WITHDRAW)


# ---- result/metrics/calculator.py (float mode): the functions that compute with Python floats only (a list of floats, no numpy / pandas object)
METRICS = Unit("MetricsCalculator", "demeter/result/metrics/calculator.py", [
    ("return_value", {"init_equity": FL, "final_equity": FL}),
    ("_withdraw_with_high_low", {"arr": ("list", FL)}, {"as": "withdraw_with_high_low"}),
], prefix="metrics_", float_mode=True)
UNITS.append(METRICS)


BROKER_TYPING = Unit("BrokerTyping", "demeter/broker/_typing.py", [
    ("add", {"amount": D}),
    ("sub", {"amount": D, "allow_negative_balance": B}),
], cls="Asset", prefix="asset_", state={"self.balance": ("balance", D)}, allow_defaults=True)
UNITS.append(BROKER_TYPING)


TM, DL = "time", "delta"
_NOW = {"snapshot.timestamp": ("now", TM)}
TRIGGER = Unit("Trigger", "demeter/strategy/trigger.py", [
    ("to_minute", {"time": TM}, {"cls": None}),
    ("_check_time_delta", {"delta": DL}, {"cls": None, "as": "check_time_delta"}),
    ("when", {"snapshot": "obj"}, {"cls": "AtTimeTrigger", "as": "at_time_when", "reads": dict(_NOW, **{"self._time": ("t", TM)})}),
    ("is_out_date", {"t": TM}, {"cls": "AtTimeTrigger", "as": "at_time_is_out_date", "reads": {"self._time": ("t0", TM)}}),
    ("when", {"snapshot": "obj"}, {"cls": "AtTimesTrigger", "as": "at_times_when", "reads": dict(_NOW, **{"self._time": ("ts", ("list", TM))})}),
    ("is_out_date", {"t": TM}, {"cls": "AtTimesTrigger", "as": "at_times_is_out_date", "reads": {"self._time": ("ts", ("list", TM))}}),
    ("when", {"snapshot": "obj"}, {"cls": "TimeRangeTrigger", "as": "range_when",
                                        "reads": dict(_NOW, **{"self._time_range.start": ("s", TM), "self._time_range.end": ("e", TM)})}),
    ("is_out_date", {"t": TM}, {"cls": "TimeRangeTrigger", "as": "range_is_out_date", "reads": {"self._time_range.end": ("e", TM)}}),
    ("when", {"snapshot": "obj"}, {"cls": "TimeRangesTrigger", "as": "ranges_when", "return_in_for": True,
                                        "reads": dict(_NOW, **{"self._time_range": ("rs", ("list", "trange"))})}),
    ("is_out_date", {"t": TM}, {"cls": "TimeRangesTrigger", "as": "ranges_is_out_date", "reads": {"self._time_range": ("rs", ("list", "trange"))}}),
    ("when", {"snapshot": "obj"}, {"cls": "PeriodTrigger", "as": "period_when", "state": {"self._next_match": ("next_match", ("opt", TM))},
                                        "reads": dict(_NOW, **{"self._delta": ("delta", DL), "self._pending": ("pending", DL),
                                                               "self._trigger_immediately": ("trigger_immediately", B)})}),
    ("reset", {}, {"cls": "PeriodTrigger", "as": "period_reset", "state": {"self._next_match": ("next_match", ("opt", TM))}, "reads": {}}),
], prefix="trig_")
UNITS.append(TRIGGER)


_SQ_PRICE = {"self.get_twap_price(oSQTH)": ("osqth_price", D)}
_SQ_VAULT = {"vault.osqth_short_amount": ("short", D), "vault.collateral_amount": ("coll", D), "vault.uni_nft_id": ("nft", ("opt", I))}
SQUEETH = Unit("SqueethMarket", "demeter/squeeth/market.py", [
    ("_get_single_liquidation_amount", {"max_input_osqth": D, "max_liquidatable_osqth": D}, {"as": "get_single_liquidation_amount", "reads": _SQ_PRICE}),
    ("_get_liquidation_result", {"max_osqth_amount": D, "vault_short_amount": D, "vault_collateral_amount": D},
     {"as": "get_liquidation_result", "reads": _SQ_PRICE}),
    ("_get_reduce_debt_bounty", {"eth_withdrawn": D, "osqth_reduced": D}, {"as": "get_reduce_debt_bounty", "reads": {"self.get_twap_price(oSQTH)": ("osqth_price", D)}}),
    ("_get_reduce_debt_result_in_vault", {"vault": "obj", "nft_eth_amount": D, "nft_osqth_amount": D, "pay_bounty": B},
     {"as": "get_reduce_debt_result_in_vault", "reads": _SQ_PRICE, "state": _SQ_VAULT}),
    ("get_vault_status", {"vault_key": "obj", "norm_factor": D, "twap_eth_price": ("opt", D)},
     {"reads": {"self.get_twap_price(WETH)": ("weth_twap", D), "self.vault[vault_key].osqth_short_amount": ("short", D),
                "self._get_effective_collateral_in_eth(vault_key, norm_factor, twap_eth_price)": ("total_collateral_of_vault", D)}}),
], cls="SqueethMarket", consts=("MIN_DEPOSIT_AMOUNT", "CR_NUMERATOR", "CR_DENOMINATOR", "REDUCE_DEBT_BOUNTY", "LIQUIDATION_BOUNTY", "INDEX_SCALE"),
    prefix="sq_", allow_defaults=True)
UNITS.append(SQUEETH)


BASELINE = os.path.join(os.path.dirname(os.path.abspath(__file__)), "gen_baseline")


def _blocks(text):
    """split a generated file into its header and the per-function blocks (docstring + def), keyed by function name, in order"""
    parts = re.split(r"(?m)^(?=/-- `)", text)
    head, blocks = parts[0], {}
    for b in parts[1:]:
        b = re.sub(r"(?m)^end Demeter\.Py\s*\Z", "", b)
        b = re.sub(r"(?m)^end\s*\Z", "", b)          # the `section` of a float-mode file
        m = re.search(r"(?m)^(?:partial )?def (\S+)", b)
        if m:
            blocks[m.group(1)] = b.rstrip("\n") + "\n\n"
    return head, blocks


def _merge_with_baseline(module, text):
    """functions the translator could not translate (and their callers, which it then does not emit) are taken from the recorded
    baseline translation; everything it did translate comes from the current source"""
    path = os.path.join(BASELINE, "Py" + module + ".lean")
    if not os.path.exists(path):
        return None
    bhead, bblocks = _blocks(open(path).read())
    _, nblocks = _blocks(text)
    out = bhead.rstrip("\n") + "\n-- STALE: functions marked (baseline) could not be translated from the current source\n"
    for name, b in bblocks.items():
        out += nblocks[name] if name in nblocks else b.replace("/-- `", "/-- (baseline) `", 1)
    for name, b in nblocks.items():
        if name not in bblocks:
            out += b
    return out.rstrip("\n") + ("\n\nend" if "\nsection\n" in bhead else "") + "\n\nend Demeter.Py\n"


def run(write=True, only=None):
    """regenerate lean/Demeter/Gen/Py<Module>.lean; returns [(module, function, message)] of loud failures, the changed files and the
    files that are STALE (a function outside the subset: that function comes from tools/gen_baseline/, see gen_consts.py)"""
    failures, changed, stale = [], [], {}
    for u in UNITS:
        if only and u.module not in only:
            continue
        try:
            text, fl = u.generate()
        except (ShapeError, OSError, SyntaxError) as e:
            text = f"-- GENERATED by tools/py2lean.py from /repo/{u.src} — do not edit\n-- SHAPE-ERROR (whole file): {e}\n" \
                   "import Demeter.PyPrelude\n"
            fl = [("*", str(e))]
        failures += [(u.module, n, m) for n, m in fl]
        if fl:
            merged = _merge_with_baseline(u.module, text)
            if merged is not None:
                text = merged
                stale["Py" + u.module + ".lean"] = "; ".join(f"{n}: {m}" for n, m in fl)[:300]
        path = os.path.join(OUT, "Py" + u.module + ".lean")
        old = None
        try:
            with open(path) as f:
                old = f.read()
        except FileNotFoundError:
            pass
        if write and old != text:
            os.makedirs(os.path.dirname(path), exist_ok=True)
            with open(path, "w") as f:
                f.write(text)
            changed.append("Py" + u.module + ".lean")
    return failures, changed, stale


def main(record=False):
    failures, changed, stale = run()
    for mod, fn, msg in failures:
        print(f"py2lean: SHAPE-ERROR {mod}.{fn}: {msg}")
    print("py2lean: " + ("rewrote " + ", ".join(changed) if changed else "unchanged")
          + (f"; {len(failures)} function(s) NOT translated from the current source (baseline translation kept where recorded)" if failures else ""))
    if record and not failures:
        os.makedirs(BASELINE, exist_ok=True)
        for u in UNITS:
            src = os.path.join(OUT, "Py" + u.module + ".lean")
            with open(src) as f, open(os.path.join(BASELINE, "Py" + u.module + ".lean"), "w") as g:
                g.write(f.read())
    return stale


if __name__ == "__main__":
    main()
