"""Source flags of BacktestManager's data flow (C19) for Demeter/Gen/ConstsManager.lean.

Which of the objects a backtest receives are copies, read from the source text with `ast` (nothing is imported):
  demeter/core/backtest.py   `_start` (markets, data frames, nested cells), `BacktestManager.run` (dispatch)
  demeter/core/actuator.py   `Actuator.set_price` (price frame)
  demeter/deribit/helper.py  `get_new_order_list` (the market's own write path into order-book lists)
and how `BacktestManager.run` treats a backtest that ends in an exception (in-process loop: caught per strategy or not; pooled
branches: tasks collected with `.wait()` or fetched with `.get()`).
A shape this script does not recognise is a ShapeError (treated like a broken correspondence); a recognised shape that
copies less than today flips a flag, which breaks `C19_current_code_pinned` / `C19_failure_handling_pinned` and everything proved
from them.
The copy flags are read off exact texts (review finding F-7): the guard and the column loop of `_own_frame` are compared, up to variable
names, with the ones known today; `_own_frame`, `_start`, `_start_with_global_data`, `_start_with_param_data` carry no decorator and are
defined once; inside `_start` nothing but the loop binds `market`, nothing but the one `market.data = …` writes a `.data` / `._data`, and
the shared frames `data.data` are used once; the in-process branch of `run()` holds the `for strategy in self.strategies` loop that calls
`_start_with_param_data(self.config, self.data, strategy, self.backtest_config)`.  tools/consts_manager_selftest.py runs the variants."""
import ast
import re

# the functions that run one backtest: a call of one of them is where a failing backtest's exception comes out
ENTRY = ("_start_with_param_data", "_start_with_global_data", "_start")
CATCH_ALL = ("Exception", "BaseException")


def _callee(call):
    """name of the function / method a call goes to: f(…) -> f, self.f(…) / cls.f(…) / mod.f(…) -> f"""
    f = call.func
    return f.id if isinstance(f, ast.Name) else (f.attr if isinstance(f, ast.Attribute) else None)


def _same_file_functions(tree):
    """(module-level functions, methods of BacktestManager) by name: what a one-level refactor can move code into"""
    mod, meth = {}, {}
    for n in tree.body:
        if isinstance(n, ast.FunctionDef):
            mod.setdefault(n.name, n)
        elif isinstance(n, ast.ClassDef) and n.name == "BacktestManager":
            for m in n.body:
                if isinstance(m, ast.FunctionDef):
                    meth.setdefault(m.name, m)
    return mod, meth


def _local_def(call, funcs):
    """the def in this file a call goes to — `f(…)` a module-level function, `self.f(…)` / `cls.f(…)` / `BacktestManager.f(…)` a
    method — or None (a method of some other object that happens to have the same name is not followed)"""
    mod, meth = funcs
    f = call.func
    if isinstance(f, ast.Name) and f.id not in ENTRY:
        return mod.get(f.id)
    if isinstance(f, ast.Attribute) and getattr(f.value, "id", None) in ("self", "cls", "BacktestManager") and f.attr not in ENTRY:
        return meth.get(f.attr)
    return None


def _ends_control(stmts):
    """a raise / return / break among the statements (not inside a nested def): control does not simply go on after them"""
    todo = list(stmts)
    while todo:
        n = todo.pop()
        if isinstance(n, (ast.Raise, ast.Return, ast.Break)):
            return True
        if isinstance(n, (ast.FunctionDef, ast.AsyncFunctionDef, ast.Lambda, ast.ClassDef)):
            continue
        todo.extend(ast.iter_child_nodes(n))
    return False


def _try_catches(t):
    """`try` whose handlers take every `Exception` raised in its body and then let control go on: going through the handlers in
    order, none of them (up to and including the first that catches Exception / BaseException / everything) raises, returns or
    breaks, and neither does the `finally` block"""
    if _ends_control(t.finalbody):
        return False
    for h in t.handlers:
        if _ends_control(h.body):
            return False
        types = [] if h.type is None else (h.type.elts if isinstance(h.type, ast.Tuple) else [h.type])
        if h.type is None or any(getattr(x, "id", getattr(x, "attr", None)) in CATCH_ALL for x in types):
            return True
    return False


def _failure_points(stmts, is_point, funcs, depth, guarded=False, out=None):
    """[(node, guarded)] for every place among the statements where an exception can come out that matters here — `is_point(call)`
    calls and `raise` statements — with `guarded` = it sits in the body of a `try` that catches every Exception and goes on
    (`_try_catches`).  Calls of functions of this file are followed `depth` levels (the guard of the call site carries over)."""
    out = [] if out is None else out
    for st in stmts:
        _visit(st, is_point, funcs, depth, guarded, out)
    return out


def _visit(n, is_point, funcs, depth, guarded, out):
    if isinstance(n, (ast.FunctionDef, ast.AsyncFunctionDef, ast.Lambda, ast.ClassDef)):
        return        # a definition: nothing runs here
    if isinstance(n, ast.Try):
        inner = guarded or _try_catches(n)
        _failure_points(n.body, is_point, funcs, depth, inner, out)
        for h in n.handlers:
            _failure_points(h.body, is_point, funcs, depth, guarded, out)
        _failure_points(n.orelse, is_point, funcs, depth, guarded, out)      # `else:` is not covered by the handlers
        _failure_points(n.finalbody, is_point, funcs, depth, guarded, out)
        return
    if isinstance(n, ast.Raise):
        out.append((n, guarded))
    if isinstance(n, ast.Call):
        if is_point(n):
            out.append((n, guarded))
        elif depth > 0 and _local_def(n, funcs) is not None:
            _failure_points(_local_def(n, funcs).body, is_point, funcs, depth - 1, guarded, out)
    for c in ast.iter_child_nodes(n):
        _visit(c, is_point, funcs, depth, guarded, out)


def _reachable_bodies(fn, funcs):
    """the function itself and the functions of this file it calls (one level): [(name, def)]"""
    out, seen = [(fn.name, fn)], {fn.name}
    for n in ast.walk(fn):
        d = _local_def(n, funcs) if isinstance(n, ast.Call) else None
        if d is not None and d.name not in seen:
            seen.add(d.name)
            out.append((d.name, d))
    return out


def _failure_flags(add, bt, find_func, ShapeError):
    """(7) the in-process loop: is a failing backtest caught per strategy; (8), (9) the two pooled branches: are the tasks waited for"""
    funcs = _same_file_functions(bt)
    run = find_func(bt, "run", cls="BacktestManager")
    bodies = _reachable_bodies(run, funcs)

    def is_entry(call):
        return _callee(call) in ENTRY

    first_error = []
    try:
        _in_process_flag(add, bodies, funcs, is_entry, ShapeError)
    except Exception as e:  # noqa: BLE001   (the pooled flags below are still extracted; re-raised at the end)
        first_error.append(e)
    _pool_flags(add, bodies, funcs, ShapeError)
    if first_error:
        raise first_error[0]


def _in_process_flag(add, bodies, funcs, is_entry, ShapeError):
    # ---- (7) `for strategy in self.strategies:` whose body runs a backtest itself (a call of an ENTRY function, directly or in a
    #      function of this file called from the body) — the pooled loops only hand the function to apply_async
    loops = []
    for name, fn in bodies:
        for n in ast.walk(fn):
            if isinstance(n, ast.For) and "strategies" in ast.dump(n.iter):
                pts = _failure_points(n.body, is_entry, funcs, 1)
                if any(isinstance(p, ast.Call) for p, _ in pts):
                    loops.append((name, n, pts))
    if len(loops) != 1:
        raise ShapeError(f"BacktestManager.run: expected exactly one in-process `for strategy in self.strategies` loop that runs a backtest, found {len(loops)}")
    where, loop, pts = loops[0]
    # the loop must go on after a caught failure: a break / return / raise in its own body (outside the handlers, which
    # `_try_catches` has judged, and outside nested defs) is a shape this script does not judge
    def loose_ends(stmts):
        for st in stmts:
            if isinstance(st, (ast.FunctionDef, ast.AsyncFunctionDef, ast.ClassDef)):
                continue
            if isinstance(st, (ast.Break, ast.Return)):
                return True
            if isinstance(st, ast.Try):
                if loose_ends(st.body) or loose_ends(st.orelse) or any(loose_ends(h.body) for h in st.handlers if not _ends_control(h.body)):
                    return True
                continue
            if isinstance(st, (ast.For, ast.While)):
                if any(isinstance(x, ast.Return) for x in ast.walk(st)):
                    return True
                continue        # a break in there belongs to the inner loop
            for field in ("body", "orelse", "finalbody"):
                if loose_ends(getattr(st, field, []) or []):
                    return True
        return False
    if loose_ends(loop.body) or loop.orelse:
        raise ShapeError(f"{where}: the in-process strategy loop has a break / return / else of its own: cannot tell whether it goes on after a failing backtest")
    caught = all(g for p, g in pts if isinstance(p, ast.Call))
    if caught and any(not g for p, g in pts if isinstance(p, ast.Raise)):
        # the backtest itself is guarded, but the loop (or the helper it calls) has a `raise` of its own outside the guard
        raise ShapeError(f"{where}: the in-process strategy loop raises outside the `try` around the backtest: cannot tell whether it goes on")
    add("managerCatchesInProcessFailure", "Bool", "true" if caught else "false",
        "BacktestManager.run, in-process loop: the call that runs a backtest sits in a `try` whose handlers catch every Exception and "
        "neither raise, return nor break (false: a failing backtest ends the loop, the strategies after it never run)")



def _pool_flags(add, bodies, funcs, ShapeError):
    # ---- (8), (9) every `with Pool(…) as pool:` block: the results of apply_async are collected inside the block, with `.wait()` (or
    #      pool.close() + pool.join()); a `.get()` that is not inside a catching `try` re-raises the task's exception there,
    #      and leaving the block terminates the workers
    blocks = []
    for name, fn in bodies:
        for n in ast.walk(fn):
            if isinstance(n, ast.With) and any(isinstance(i.context_expr, ast.Call) and _callee(i.context_expr) == "Pool" for i in n.items):
                blocks.append((name, n))
    if not blocks:
        raise ShapeError("BacktestManager.run: no `with Pool(…)` block found")
    # which branch a block belongs to is read off the function it hands to apply_async: `_start_with_global_data` (data inherited by
    # fork) or `_start_with_param_data` (data pickled per task: the Windows branch)
    BRANCH = {"_start_with_global_data": "fork", "_start_with_param_data": "args"}
    waits = {}
    for name, blk in blocks:
        inside = [x for st in blk.body for x in ast.walk(st)]
        submits = [n for n in inside if isinstance(n, ast.Assign) and isinstance(n.value, ast.Call) and _callee(n.value) == "apply_async"]
        submitted = {t.id for n in submits for t in n.targets if isinstance(t, ast.Name)}
        if not submitted:
            raise ShapeError(f"{name}: a `with Pool` block without `<name> = pool.apply_async(…)`")
        tasks_of = {getattr(n.value.args[0], "id", getattr(n.value.args[0], "attr", None)) if n.value.args else
                    next((getattr(k.value, "id", None) for k in n.value.keywords if k.arg == "func"), None) for n in submits}
        if len(tasks_of) != 1 or not tasks_of <= set(BRANCH):
            raise ShapeError(f"{name}: a `with Pool` block whose apply_async does not name _start_with_global_data / _start_with_param_data: {sorted(map(str, tasks_of))}")
        branch = BRANCH[tasks_of.pop()]
        lists = {n.func.value.id for n in inside if isinstance(n, ast.Call) and _callee(n) == "append" and isinstance(n.func, ast.Attribute)
                 and isinstance(n.func.value, ast.Name) and len(n.args) == 1 and getattr(n.args[0], "id", None) in submitted}
        itervars = set()
        for n in inside:
            gens = n.generators if isinstance(n, (ast.ListComp, ast.GeneratorExp, ast.SetComp)) else ([n] if isinstance(n, ast.For) else [])
            for g in gens:
                if getattr(g.iter, "id", None) in lists and isinstance(g.target, ast.Name):
                    itervars.add(g.target.id)
        handles = submitted | itervars

        def on_task(call, attr):
            return isinstance(call.func, ast.Attribute) and call.func.attr == attr and getattr(call.func.value, "id", None) in handles
        pool_names = {i.optional_vars.id for i in blk.items if isinstance(i.optional_vars, ast.Name)}
        waited = any(isinstance(n, ast.Call) and on_task(n, "wait") for n in inside) or \
            any(isinstance(n, ast.Call) and isinstance(n.func, ast.Attribute) and n.func.attr == "join"
                and getattr(n.func.value, "id", None) in pool_names for n in inside)
        gets = _failure_points(blk.body, lambda c: on_task(c, "get"), funcs, 0)
        gets = [(p, g) for p, g in gets if isinstance(p, ast.Call)]
        if not waited and not gets:
            raise ShapeError(f"{name}: a `with Pool` block that neither waits for its tasks (.wait() / pool.join()) nor fetches them (.get())")
        waits[branch] = waits.get(branch, True) and all(g for _, g in gets)
    if set(waits) != {"fork", "args"}:
        raise ShapeError(f"BacktestManager.run: expected a `with Pool` block for the forked branch and one for the Windows branch, found {sorted(waits)}")
    for branch, lean, what in (("fork", "managerForkPoolWaitsForTasks", "forked pool (_start_with_global_data)"),
                               ("args", "managerArgsPoolWaitsForTasks", "pool with the data as a task argument (_start_with_param_data, Windows)")):
        add(lean, "Bool", "true" if waits[branch] else "false",
            f"BacktestManager.run, {what}: the `with Pool` block waits for all its tasks (.wait() / join) and fetches none with an "
            "unguarded .get() (false: the first failing task re-raises inside the block, whose exit terminates the other workers)")


_DEFS = (ast.FunctionDef, ast.AsyncFunctionDef, ast.ClassDef)
_ID = r"[A-Za-z_]\w*"
# names the recognised texts below rely on: a local variable of that name would change what the text means
_RESERVED = {"copy", "deepcopy", "object", "list", "dict", "set", "isinstance", "range", "len"}


def _stores(scope, name):
    """every node under `scope` that binds or deletes the plain name `name` (assignment of any kind, loop / with / except / match /
    import target, parameter of a nested def or lambda, global / nonlocal declaration); defs and classes of that name are counted by
    `_plain_def`, not here"""
    out = []
    for n in ast.walk(scope):
        if isinstance(n, ast.Name) and n.id == name and isinstance(n.ctx, (ast.Store, ast.Del)):
            out.append(n)
        elif isinstance(n, (ast.Global, ast.Nonlocal)) and name in n.names:
            out.append(n)
        elif isinstance(n, ast.ExceptHandler) and n.name == name:
            out.append(n)
        elif isinstance(n, ast.alias) and (n.asname or n.name.split(".")[0]) == name:
            out.append(n)
        elif isinstance(n, ast.arg) and n.arg == name:
            out.append(n)
        elif isinstance(n, (ast.MatchAs, ast.MatchStar)) and n.name == name:
            out.append(n)
        elif isinstance(n, ast.MatchMapping) and n.rest == name:
            out.append(n)
    return out


def _plain_def(bt, name, ShapeError):
    """the one module-level `def name` of backtest.py: no decorator (a memoising one hands the same frame to every backtest), no second
    definition and no assignment to that name anywhere in the module"""
    defs = [n for n in ast.walk(bt) if isinstance(n, _DEFS) and n.name == name]
    if len(defs) != 1 or not isinstance(defs[0], ast.FunctionDef) or not any(defs[0] is n for n in bt.body):
        raise ShapeError(f"{name}: expected exactly one module-level `def {name}` in backtest.py, found {len(defs)} definitions of that name")
    if defs[0].decorator_list:
        raise ShapeError(f"{name}: decorated ({', '.join(ast.unparse(d) for d in defs[0].decorator_list)}): what a call of it returns is not read off its body")
    if _stores(bt, name):
        raise ShapeError(f"{name}: the name is also bound by an assignment / import / parameter in backtest.py")
    return defs[0]


def _copy_is_the_module(bt, ShapeError):
    """`copy` / `deepcopy` in backtest.py are what `import copy` / `from copy import deepcopy` at module level bind, nothing else"""
    imported = {"copy": [a for st in bt.body if isinstance(st, ast.Import) for a in st.names if a.name == "copy" and a.asname is None],
                "deepcopy": [a for st in bt.body if isinstance(st, ast.ImportFrom) and st.module == "copy" and st.level == 0
                             for a in st.names if a.name == "deepcopy" and a.asname is None]}
    for name, ok in imported.items():
        if any(not any(n is a for a in ok) for n in _stores(bt, name)) or any(isinstance(n, _DEFS) and n.name == name for n in ast.walk(bt)):
            raise ShapeError(f"backtest.py: `{name}` is bound by something else than the import from the standard library's copy module")


def _no_docstring(body):
    return body[1:] if body and isinstance(body[0], ast.Expr) and isinstance(getattr(body[0], "value", None), ast.Constant) \
        and isinstance(body[0].value.value, str) else body


def _positional_params(fn, ShapeError):
    a = fn.args
    if a.posonlyargs or a.vararg or a.kwonlyargs or a.kwarg or a.defaults or a.kw_defaults:
        raise ShapeError(f"{fn.name}: parameters other than plain positional ones")
    return [x.arg for x in a.args]


def _unconditional_calls(stmts):
    """the calls in the simple statements among `stmts` and in the bodies of `try` statements among them (not under if / for / while /
    with, not in handlers / else / finally, not inside a lambda or a nested def)"""
    out = []
    for st in stmts:
        if isinstance(st, ast.Try):
            out.extend(_unconditional_calls(st.body))
        elif isinstance(st, (ast.Expr, ast.Assign, ast.AnnAssign, ast.AugAssign, ast.Return)):
            todo = [st]
            while todo:
                n = todo.pop()
                if isinstance(n, (ast.Lambda, ast.IfExp, ast.BoolOp, ast.ListComp, ast.SetComp, ast.DictComp, ast.GeneratorExp)):
                    continue
                if isinstance(n, ast.Call):
                    out.append(n)
                todo.extend(ast.iter_child_nodes(n))
    return out


def _branch_runs_every_strategy(stmts, funcs, ShapeError):
    """the statements (the body of the in-process branch of run(), or of the method of this file that is all the branch calls) contain
    `for <s> in self.strategies:` whose body calls, unconditionally, `_start_with_param_data(self.config, self.data, <s>,
    self.backtest_config)` (or `_start` with these arguments) — itself or through one function of this file whose parameters are bound
    to these expressions"""
    want = lambda s: ["self.config", "self.data", s, "self.backtest_config"]    # noqa: E731

    def args_of(call):
        if call.keywords or any(isinstance(a, ast.Starred) for a in call.args):
            return None
        return [ast.unparse(a) for a in call.args]

    def loop_ok(loop):
        if not (isinstance(loop.target, ast.Name) and ast.unparse(loop.iter) == "self.strategies" and not loop.orelse):
            return False
        s = loop.target.id
        for call in _unconditional_calls(loop.body):
            if _callee(call) in ("_start_with_param_data", "_start") and isinstance(call.func, ast.Name) and args_of(call) == want(s):
                return True
            d = _local_def(call, funcs)
            if d is None or d.decorator_list or args_of(call) is None:
                continue
            try:
                params = _positional_params(d, ShapeError)
            except ShapeError:
                continue
            if isinstance(call.func, ast.Attribute):     # self.f(…): the first parameter is the object
                params = params[1:]
            if len(params) != len(call.args):
                continue
            env = dict(zip(params, args_of(call)))
            for inner in _unconditional_calls(_no_docstring(d.body)):
                got = args_of(inner)
                if _callee(inner) in ("_start_with_param_data", "_start") and isinstance(inner.func, ast.Name) and got is not None \
                        and [env.get(t, t) for t in got] == want(s) and not any(_stores(d, p) != [a for a in d.args.args if a.arg == p] for p in params):
                    return True
        return False

    for st in stmts:
        if isinstance(st, ast.For) and loop_ok(st):
            return True
        if isinstance(st, ast.Expr) and isinstance(st.value, ast.Call) and not st.value.args and not st.value.keywords:
            d = _local_def(st.value, funcs)
            if d is not None and not d.decorator_list and any(isinstance(x, ast.For) and loop_ok(x) for x in _no_docstring(d.body)):
                return True
    return False


def _is_deepcopy_of(call, pred):
    """call is `copy.deepcopy(x)` / `deepcopy(x)` with pred(x)"""
    return isinstance(call, ast.Call) and getattr(call.func, "attr", getattr(call.func, "id", "")) == "deepcopy" \
        and len(call.args) == 1 and not call.keywords and pred(call.args[0])


def _is_config_markets(n):
    return isinstance(n, ast.Attribute) and n.attr == "markets" and getattr(n.value, "id", "") == "config"


def _copy_flags(add, parse, find_func, const_int, rat_of, ShapeError, module_assign):
    bt = parse("demeter/core/backtest.py")
    funcs = _same_file_functions(bt)
    # `_start` and the two functions that hand a backtest to it: plain functions (no decorator, defined once), the two wrappers nothing
    # but `return _start(…)` with their own parameters (the forked one: the module's `global_data` for the data)
    start = _plain_def(bt, "_start", ShapeError)
    start_params = _positional_params(start, ShapeError)
    if len(start_params) != 4:
        raise ShapeError("_start: expected the four parameters (config, data, strategy, bk_config)")
    if start_params[0] != "config" or start_params[1] != "data" or "market" in start_params:
        raise ShapeError("_start: the first two parameters are not called `config`, `data` (the texts recognised below use these names)")
    for wname, wargs in (("_start_with_param_data", lambda p: p if len(p) == 4 else None),
                         ("_start_with_global_data", lambda p: [p[0], "global_data", p[1], p[2]] if len(p) == 3 and "global_data" not in p else None)):
        w = _plain_def(bt, wname, ShapeError)
        wp = _positional_params(w, ShapeError)
        body = _no_docstring(w.body)
        if wargs(wp) is None or len(body) != 1 or not isinstance(body[0], ast.Return) or body[0].value is None \
                or ast.unparse(body[0].value) != f"_start({', '.join(wargs(wp))})":
            raise ShapeError(f"{wname}: not of the shape `return _start(<its parameters>)`")

    # ---- (1) the configured markets: 0 = attached themselves, 1 = copy.deepcopy(market) one by one (objects that several
    #      markets refer to are duplicated per market: a SqueethMarket loses its UniLpMarket), 2 = copy.deepcopy(config.markets)
    whole_names = set()
    for n in ast.walk(start):
        if isinstance(n, ast.Assign) and len(n.targets) == 1 and isinstance(n.targets[0], ast.Name) \
                and _is_deepcopy_of(n.value, _is_config_markets):
            whole_names.add(n.targets[0].id)
    loops = [n for n in ast.walk(start) if isinstance(n, ast.For) and getattr(n.target, "id", "") == "market"]
    if len(loops) != 1:
        raise ShapeError(f"_start: expected one `for market in …` loop, found {len(loops)}")
    loop = loops[0]
    if not any(loop is st for st in start.body) or loop.orelse:
        raise ShapeError("_start: the `for market in …` loop is not a statement of _start's own body (or has an `else`)")
    adds = [k for k, st in enumerate(loop.body) if isinstance(st, ast.Expr) and isinstance(st.value, ast.Call)
            and getattr(st.value.func, "attr", "") == "add_market" and len(st.value.args) == 1 and getattr(st.value.args[0], "id", "") == "market"]
    if len(adds) != 1:
        raise ShapeError("_start: expected exactly one broker.add_market(market) in the market loop")
    if sum(isinstance(n, ast.Attribute) and n.attr == "add_market" or isinstance(n, ast.Name) and n.id == "add_market" for n in ast.walk(start)) != 1:
        raise ShapeError("_start: add_market is mentioned a second time, besides the one broker.add_market(market) of the market loop")
    if _is_deepcopy_of(loop.iter, _is_config_markets) or (isinstance(loop.iter, ast.Name) and loop.iter.id in whole_names):
        mode = 2
    elif _is_config_markets(loop.iter):
        each = [k for k, st in enumerate(loop.body) if isinstance(st, ast.Assign) and getattr(st.targets[0], "id", "") == "market"
                and _is_deepcopy_of(st.value, lambda a: getattr(a, "id", "") == "market")]
        mode = 1 if each and each[0] < adds[0] else 0
    else:
        raise ShapeError("_start: the market loop iterates over something else than config.markets or a deep copy of it")
    # `market` is bound by the loop alone (mode 1: and by the one `market = copy.deepcopy(market)` that makes it mode 1): any other
    # binding (`market = config.markets[0]` before add_market, a second loop / with / walrus / del …) attaches or fills another object
    # than the one the mode speaks of.  The same for the name the whole copy is kept under (mode 2) and for `config`, `data`.
    bound_ok = [loop.target]
    if mode == 1:
        st = loop.body[each[0]]
        if len(each) != 1 or len(st.targets) != 1:
            raise ShapeError("_start: more than one `market = copy.deepcopy(market)` in the market loop")
        bound_ok.append(st.targets[0])
    if any(not any(n is ok for ok in bound_ok) for n in _stores(start, "market")):
        raise ShapeError("_start: `market` is bound a second time (besides the loop" + (" and its copy.deepcopy(market)" if mode == 1 else "") + ")")
    if isinstance(loop.iter, ast.Name) and len(_stores(start, loop.iter.id)) != 1:
        raise ShapeError(f"_start: `{loop.iter.id}` (the deep copy of config.markets the loop runs over) is bound more than once")
    for pname in ("config", "data"):
        if len(_stores(start, pname)) != 1:
            raise ShapeError(f"_start: the parameter `{pname}` is bound again inside _start")
    _copy_is_the_module(bt, ShapeError)
    add("managerMarketsCopy", "Nat", str(mode),
        "_start attaches: 0 the configured market objects themselves, 1 copy.deepcopy(market) per market, 2 the markets of copy.deepcopy(config.markets)")

    # ---- (2) dispatch of run(): in-process iff len(strategies) == 1 or threads == 1
    #      (the test exactly `len(self.strategies) == 1 or self.threads == 1`, once), and that branch is the in-process one: its body
    #      (or the method of this file it consists of) has the `for strategy in self.strategies:` loop that calls
    #      `_start_with_param_data(self.config, self.data, strategy, self.backtest_config)` unconditionally, the other branch calls none
    run = find_func(bt, "run", cls="BacktestManager")
    if run.decorator_list:
        raise ShapeError("BacktestManager.run: decorated")
    branches = []
    for n in ast.walk(run):
        if isinstance(n, ast.If) and isinstance(n.test, ast.BoolOp) and isinstance(n.test.op, ast.Or) and len(n.test.values) == 2:
            a, b = n.test.values

            def is_eq_one(c, what):
                return isinstance(c, ast.Compare) and len(c.ops) == 1 and isinstance(c.ops[0], ast.Eq) and const_int(c.comparators[0]) == 1 \
                    and ast.unparse(c.left) == what
            if is_eq_one(a, "len(self.strategies)") and is_eq_one(b, "self.threads"):
                branches.append(n)
    seq_shape = len(branches) == 1 and _branch_runs_every_strategy(branches[0].body, funcs, ShapeError) and bool(branches[0].orelse) \
        and not any(isinstance(x, ast.Call) and _callee(x) in ENTRY for st in branches[0].orelse for x in ast.walk(st))
    add("managerSeqIfOneStrategyOrOneThread", "Bool", "true" if seq_shape else "false",
        "BacktestManager.run takes the in-process path iff len(strategies) == 1 or threads == 1")

    # ---- (3) the data frame handed to the market: `market.data = <expr>`, one statement of the market loop's body and the only write to
    #      `market.data` / `market._data` in _start; <expr> is `data.data[market.market_info]`, `….copy(…)` of it, or a call of a helper of
    #      this module whose result is such a copy of its argument; (4) and does that helper deep-copy the Python objects inside cells,
    #      which no DataFrame copy duplicates: exactly
    #          for position in range(frame.shape[1]):
    #              cells = frame.iloc[:, position]
    #              if cells.dtype == object and cells.map(lambda cell: isinstance(cell, (list, dict, set))).any():
    #                  frame.isetitem(position, cells.map(copy.deepcopy))
    #      (up to the names of the variables); a helper that mentions deepcopy in any other arrangement is a ShapeError
    SHARED = "data.data[market.market_info]"
    assigns = [n for n in ast.walk(start) if isinstance(n, ast.Assign) and isinstance(n.targets[0], ast.Attribute)
               and n.targets[0].attr == "data" and getattr(n.targets[0].value, "id", "") == "market"]
    if len(assigns) != 1:
        raise ShapeError("_start: expected exactly one `market.data = …`")
    if len(assigns[0].targets) != 1 or not any(assigns[0] is st for st in loop.body):
        raise ShapeError("_start: `market.data = …` is not a plain statement of the market loop's body")
    val = assigns[0].value
    for n in ast.walk(start):
        if isinstance(n, ast.Attribute) and n.attr in ("data", "_data") and isinstance(n.ctx, (ast.Store, ast.Del)) and n is not assigns[0].targets[0]:
            raise ShapeError(f"_start: a second write to a market's frame: `{ast.unparse(n)}` is assigned / deleted besides the one `market.data = …`")
        if isinstance(n, ast.Call) and _callee(n) in ("setattr", "delattr", "__setattr__", "__delattr__", "__setitem__", "update", "vars") \
                and any(isinstance(x, ast.Name) and x.id == "market" for x in ast.walk(n)):
            raise ShapeError(f"_start: `{ast.unparse(n)[:80]}` sets attributes of the market by name")
        if isinstance(n, ast.Attribute) and n.attr == "__dict__":
            raise ShapeError("_start: an object's __dict__ is used")
    if sum(isinstance(n, ast.Attribute) and n.attr == "data" and getattr(n.value, "id", "") == "data" for n in ast.walk(start)) != 1:
        raise ShapeError("_start: the shared frames `data.data` are used a second time, besides the one `market.data = …`")

    def is_shared_frame(n):   # data.data[market.market_info]
        return isinstance(n, ast.Subscript) and ast.unparse(n) == SHARED

    def copies_cells(fn, frame_name, param):
        """the helper's statements are exactly `<frame> = <param>.copy(…)`, the loop above, `return <frame>`"""
        if not any(isinstance(n, ast.Name) and n.id == "deepcopy" or isinstance(n, ast.Attribute) and n.attr == "deepcopy" for n in ast.walk(fn)) \
                and not any(isinstance(n, ast.Call) and getattr(n.func, "attr", "") in ("isetitem", "__setitem__") for n in ast.walk(fn)) \
                and not any(isinstance(n, ast.Subscript) and isinstance(n.ctx, ast.Store) for n in ast.walk(fn)):
            return False          # nothing is written back into the frame, no deepcopy: the cells are shared
        body = _no_docstring(fn.body)
        f = re.escape(frame_name)
        pat = (rf"for (?P<p>{_ID}) in range\({f}\.shape\[1\]\):\n"
               rf"    (?P<c>{_ID}) = {f}\.iloc\[:, (?P=p)\]\n"
               rf"    if (?P=c)\.dtype == object and (?P=c)\.map\(lambda (?P<a>{_ID}): isinstance\((?P=a), \(list, dict, set\)\)\)\.any\(\):\n"
               rf"        {f}\.isetitem\((?P=p), (?P=c)\.map\((?:copy\.)?deepcopy\)\)")
        m = re.fullmatch(pat, ast.unparse(body[1])) if len(body) == 3 and isinstance(body[1], ast.For) else None
        if m is None:
            raise ShapeError(f"{fn.name}: writes into the frame / mentions deepcopy, but is not exactly `{frame_name} = {param}.copy(…)`, the "
                             f"recognised loop (`for position in range({frame_name}.shape[1]): cells = …; if cells.dtype == object and "
                             "cells.map(lambda cell: isinstance(cell, (list, dict, set))).any(): frame.isetitem(position, cells.map(copy.deepcopy))`), "
                             f"`return {frame_name}`")
        names = [frame_name, param, m["p"], m["c"], m["a"]]
        if len(set(names)) != len(names) or set(names) & _RESERVED:
            raise ShapeError(f"{fn.name}: the variables of the recognised loop are not five different names / shadow a builtin: {names}")
        return True

    view = cells = False
    if is_shared_frame(val):
        view = False
    elif isinstance(val, ast.Call) and getattr(val.func, "attr", "") == "copy" and is_shared_frame(val.func.value):
        view = True
    elif isinstance(val, ast.Call) and isinstance(val.func, ast.Name) and len(val.args) == 1 and not val.keywords and is_shared_frame(val.args[0]):
        helper = _plain_def(bt, val.func.id, ShapeError)
        params = _positional_params(helper, ShapeError)
        if len(params) != 1:
            raise ShapeError(f"{val.func.id}: expected one parameter (the shared frame)")
        param = params[0]
        # frame = <param>.copy(…) … return frame
        made = [n for n in helper.body if isinstance(n, ast.Assign) and isinstance(n.targets[0], ast.Name) and isinstance(n.value, ast.Call)
                and getattr(n.value.func, "attr", "") == "copy" and getattr(n.value.func.value, "id", "") == param]
        rets = [n for n in ast.walk(helper) if isinstance(n, ast.Return)]
        if len(_stores(helper, param)) != 1:
            raise ShapeError(f"{val.func.id}: the parameter `{param}` is bound again")
        if len(made) == 1 and len(rets) == 1 and getattr(rets[0].value, "id", "") == made[0].targets[0].id:
            frame_name = made[0].targets[0].id
            body = _no_docstring(helper.body)
            if len(made[0].targets) != 1 or made[0] is not body[0] or rets[0] is not body[-1] or len(_stores(helper, frame_name)) != 1:
                raise ShapeError(f"{val.func.id}: `{frame_name}` is bound a second time, or the copy / the return are not the first / last statement")
            view = True
            cells = copies_cells(helper, frame_name, param)
        elif len(rets) == 1 and getattr(rets[0].value, "id", "") == param:
            view = False
        else:
            raise ShapeError(f"{val.func.id}: not of the shape `frame = shared.copy(…); …; return frame`")
    else:
        raise ShapeError("_start: unrecognised right-hand side of `market.data = …`: " + ast.dump(val)[:200])
    add("managerDataView", "Bool", "true" if view else "false",
        "_start assigns a copy (DataFrame.copy) of the shared data frame to market.data (false: the shared frame itself)")
    add("managerCellsCopied", "Bool", "true" if cells else "false",
        "_start also deep-copies the Python objects stored inside cells of that frame (order-book lists), which no DataFrame copy duplicates")

    # ---- (5) the market's own write path into order-book lists: get_new_order_list decrements levels of a deep copy of `old`
    hp = parse("demeter/deribit/helper.py")
    gn = find_func(hp, "get_new_order_list")
    old = gn.args.args[0].arg
    written = set()
    for n in ast.walk(gn):
        if isinstance(n, (ast.AugAssign, ast.Assign)):
            t = n.target if isinstance(n, ast.AugAssign) else n.targets[0]
            while isinstance(t, ast.Subscript):
                t = t.value
                if isinstance(t, ast.Name):
                    written.add(t.id)
    deep = {n.targets[0].id for n in ast.walk(gn) if isinstance(n, ast.Assign) and isinstance(n.targets[0], ast.Name)
            and _is_deepcopy_of(n.value, lambda a: getattr(a, "id", "") == old)}
    if not written:
        raise ShapeError("get_new_order_list: no element write found")
    add("deribitOrderListDeepCopied", "Bool", "true" if written <= deep else "false",
        "deribit get_new_order_list writes only into copy.deepcopy(old) (false: into lists reachable from the data frame's cells)")

    # ---- (6) the price frame: Actuator.set_price keeps `prices.map(…)` — a new frame — 0 always, 1 only under a condition
    #      (e.g. skipped when the cells are Decimal already), 2 never
    act = parse("demeter/core/actuator.py")
    sp = find_func(act, "set_price", cls="Actuator")

    def is_map_assign(st):
        return isinstance(st, ast.Assign) and getattr(st.targets[0], "id", "") == "prices" and isinstance(st.value, ast.Call) \
            and getattr(st.value.func, "attr", "") in ("map", "applymap", "copy") and getattr(st.value.func.value, "id", "") == "prices"
    top = [k for k, st in enumerate(sp.body) if is_map_assign(st)]
    anywhere = [n for n in ast.walk(sp) if is_map_assign(n)]
    keeps = [k for k, st in enumerate(sp.body) if isinstance(st, ast.If) and any(
        isinstance(x, ast.Assign) and isinstance(x.targets[0], ast.Attribute) and x.targets[0].attr == "_token_prices" for x in ast.walk(st))]
    if not keeps:
        raise ShapeError("Actuator.set_price: `self._token_prices = …` not found")
    pc = 0 if (top and top[-1] < keeps[0]) else (1 if anywhere else 2)
    add("actuatorPriceCopy", "Nat", str(pc),
        "Actuator.set_price keeps a new frame (prices.map(…)): 0 always, 1 only under a condition, 2 never (adopts the caller's frame)")

    # ---- (7) process-wide state: does the Snapshot class itself hold an object every Snapshot of the process shares?
    add("snapshotHoldsNoSharedObject", "Bool", "true" if snapshot_fields_private(parse("demeter/broker/_typing.py"), ShapeError) else "false",
        "dataclass Snapshot (what Actuator.__get_snapshot fills on every bar): every field default is absent, a constant or field(default_factory=…) "
        "(false: a class-level object such as `market_status = MarketDict()` is shared by every Snapshot of the process and outlives a backtest)")


def snapshot_fields_private(tree, ShapeError):
    """every statement of `class Snapshot` is an annotated field whose default is absent, an immutable constant, or `field(default_factory=…)`
    without `default=`; anything else evaluated once in the class body (a call, a display, a name) is an object shared by all instances"""
    classes = [n for n in ast.walk(tree) if isinstance(n, ast.ClassDef) and n.name == "Snapshot"]
    if len(classes) != 1:
        raise ShapeError("broker/_typing.py: exactly one class Snapshot expected")
    cls = classes[0]
    if [ast.unparse(d) for d in cls.decorator_list] != ["dataclass"]:
        raise ShapeError("class Snapshot: expected to be a plain @dataclass")
    private = True
    for st in cls.body:
        if isinstance(st, ast.Expr) and isinstance(st.value, ast.Constant) and isinstance(st.value.value, str):
            continue
        if not isinstance(st, ast.AnnAssign) or not isinstance(st.target, ast.Name):
            raise ShapeError("class Snapshot: statement that is not an annotated field: " + ast.unparse(st)[:80])
        v = st.value
        if v is None or (isinstance(v, ast.Constant) and not isinstance(v.value, (bytes,)) ):
            continue
        if isinstance(v, ast.Call) and ast.unparse(v.func) in ("field", "dataclasses.field") and not v.args \
                and [k.arg for k in v.keywords if k.arg in ("default", "default_factory")] == ["default_factory"]:
            continue
        private = False
    return private


def register(add, parse, find_func, const_int, rat_of, ShapeError, module_assign):
    """the copy flags (1)-(6), then the failure flags (7)-(9); each group is extracted even if the other one does not find its shape
    (the first ShapeError is re-raised at the end: the file is then STALE for the constants that are missing)"""
    errors, late = [], []
    try:
        _failure_flags(lambda *a: late.append(a), parse("demeter/core/backtest.py"), find_func, ShapeError)
    except Exception as e:  # noqa: BLE001
        errors.append(e)
    try:
        _copy_flags(add, parse, find_func, const_int, rat_of, ShapeError, module_assign)
    except Exception as e:  # noqa: BLE001
        errors.append(e)
    for a in late:
        add(*a)
    if errors:
        raise errors[0]
