"""Source flags of BacktestManager's data flow (C19) for Demeter/Gen/ConstsManager.lean.

Which of the objects a backtest receives are copies, read from the source text with `ast` (nothing is imported):
  demeter/core/backtest.py   `_start` (markets, data frames, nested cells), `BacktestManager.run` (dispatch)
  demeter/core/actuator.py   `Actuator.set_price` (price frame)
  demeter/deribit/helper.py  `get_new_order_list` (the market's own write path into order-book lists)
A shape this script does not recognise is a ShapeError (treated like a broken correspondence); a recognised shape that
copies less than today flips a flag, which breaks `C19_current_code_pinned` and everything proved from it."""
import ast


def _is_deepcopy_of(call, pred):
    """call is `copy.deepcopy(x)` / `deepcopy(x)` with pred(x)"""
    return isinstance(call, ast.Call) and getattr(call.func, "attr", getattr(call.func, "id", "")) == "deepcopy" \
        and len(call.args) == 1 and not call.keywords and pred(call.args[0])


def _is_config_markets(n):
    return isinstance(n, ast.Attribute) and n.attr == "markets" and getattr(n.value, "id", "") == "config"


def register(add, parse, find_func, const_int, rat_of, ShapeError, module_assign):
    bt = parse("demeter/core/backtest.py")
    start = find_func(bt, "_start")

    # ---- (1) the configured markets: 0 = attached themselves, 1 = copy.deepcopy(market) one by one (objects that several
    #      markets refer to are duplicated per market: a SqueethMarket loses its UniLpMarket), 2 = copy.deepcopy(config.markets)
    whole_names = set()
    for n in ast.walk(start):
        if isinstance(n, ast.Assign) and len(n.targets) == 1 and isinstance(n.targets[0], ast.Name) \
                and _is_deepcopy_of(n.value, _is_config_markets):
            whole_names.add(n.targets[0].id)
    loops = [n for n in ast.walk(start) if isinstance(n, ast.For) and getattr(n.target, "id", "") == "market"]
    if len(loops) != 1:
        raise ShapeError(f"_start: expected one `for market in …` loop, found {len(loops)}")
    loop = loops[0]
    adds = [k for k, st in enumerate(loop.body) if isinstance(st, ast.Expr) and isinstance(st.value, ast.Call)
            and getattr(st.value.func, "attr", "") == "add_market" and len(st.value.args) == 1 and getattr(st.value.args[0], "id", "") == "market"]
    if len(adds) != 1:
        raise ShapeError("_start: expected exactly one broker.add_market(market) in the market loop")
    if _is_deepcopy_of(loop.iter, _is_config_markets) or (isinstance(loop.iter, ast.Name) and loop.iter.id in whole_names):
        mode = 2
    elif _is_config_markets(loop.iter):
        each = [k for k, st in enumerate(loop.body) if isinstance(st, ast.Assign) and getattr(st.targets[0], "id", "") == "market"
                and _is_deepcopy_of(st.value, lambda a: getattr(a, "id", "") == "market")]
        mode = 1 if each and each[0] < adds[0] else 0
    else:
        raise ShapeError("_start: the market loop iterates over something else than config.markets or a deep copy of it")
    add("managerMarketsCopy", "Nat", str(mode),
        "_start attaches: 0 the configured market objects themselves, 1 copy.deepcopy(market) per market, 2 the markets of copy.deepcopy(config.markets)")

    # ---- (2) dispatch of run(): in-process iff len(strategies) == 1 or threads == 1
    run = find_func(bt, "run", cls="BacktestManager")
    seq_shape = False
    for n in ast.walk(run):
        if isinstance(n, ast.If) and isinstance(n.test, ast.BoolOp) and isinstance(n.test.op, ast.Or) and len(n.test.values) == 2:
            a, b = n.test.values

            def is_eq_one(c, what):
                return isinstance(c, ast.Compare) and isinstance(c.ops[0], ast.Eq) and const_int(c.comparators[0]) == 1 and what in ast.dump(c.left)
            if is_eq_one(a, "strategies") and is_eq_one(b, "threads"):
                seq_shape = True
    add("managerSeqIfOneStrategyOrOneThread", "Bool", "true" if seq_shape else "false",
        "BacktestManager.run takes the in-process path iff len(strategies) == 1 or threads == 1")

    # ---- (3) the data frame handed to the market: `market.data = <expr>`; <expr> is `shared.copy(…)` or a call of a helper of this
    #      module whose result is such a copy of its argument; (4) and does that path deep-copy the Python objects inside cells
    #      (`frame[column] = frame[column].map(copy.deepcopy)`), which no DataFrame copy duplicates
    assigns = [n for n in ast.walk(start) if isinstance(n, ast.Assign) and isinstance(n.targets[0], ast.Attribute)
               and n.targets[0].attr == "data" and getattr(n.targets[0].value, "id", "") == "market"]
    if len(assigns) != 1:
        raise ShapeError("_start: expected exactly one `market.data = …`")
    val = assigns[0].value

    def is_shared_frame(n):   # data.data[market.market_info]
        return isinstance(n, ast.Subscript) and isinstance(n.value, ast.Attribute) and n.value.attr == "data" and getattr(n.value.value, "id", "") == "data"

    def copies_cells(fn, frame_name):
        """the cells are replaced by deep copies of themselves, unconditionally for every cell that holds a container:
        `<frame>[c] = <frame>[c].map(copy.deepcopy)` or `<frame>.isetitem(pos, <cells>.map(copy.deepcopy))` with
        `<cells> = <frame>.iloc[:, pos]` inside fn"""
        def is_deep_map(call, ok_source):
            return isinstance(call, ast.Call) and getattr(call.func, "attr", "") in ("map", "apply") and len(call.args) == 1 \
                and not call.keywords and getattr(call.args[0], "attr", getattr(call.args[0], "id", "")) == "deepcopy" and ok_source(call.func.value)
        from_frame = {n.targets[0].id for n in ast.walk(fn) if isinstance(n, ast.Assign) and isinstance(n.targets[0], ast.Name)
                      and isinstance(n.value, ast.Subscript) and frame_name in {getattr(x, "id", "") for x in ast.walk(n.value.value)}}

        def src(v):
            return (isinstance(v, ast.Subscript) and getattr(v.value, "id", "") == frame_name) or getattr(v, "id", "") in from_frame
        for n in ast.walk(fn):
            if isinstance(n, ast.Assign) and isinstance(n.targets[0], ast.Subscript) and getattr(n.targets[0].value, "id", "") == frame_name \
                    and is_deep_map(n.value, src):
                return True
            if isinstance(n, ast.Call) and getattr(n.func, "attr", "") == "isetitem" and getattr(n.func.value, "id", "") == frame_name \
                    and len(n.args) == 2 and is_deep_map(n.args[1], src):
                return True
        return False

    view = cells = False
    if is_shared_frame(val):
        view = False
    elif isinstance(val, ast.Call) and getattr(val.func, "attr", "") == "copy" and is_shared_frame(val.func.value):
        view = True
    elif isinstance(val, ast.Call) and isinstance(val.func, ast.Name) and len(val.args) == 1 and is_shared_frame(val.args[0]):
        helper = find_func(bt, val.func.id)
        param = helper.args.args[0].arg
        # frame = <param>.copy(…) … return frame
        made = [n for n in helper.body if isinstance(n, ast.Assign) and isinstance(n.targets[0], ast.Name) and isinstance(n.value, ast.Call)
                and getattr(n.value.func, "attr", "") == "copy" and getattr(n.value.func.value, "id", "") == param]
        rets = [n for n in ast.walk(helper) if isinstance(n, ast.Return)]
        if len(made) == 1 and len(rets) == 1 and getattr(rets[0].value, "id", "") == made[0].targets[0].id:
            view = True
            cells = copies_cells(helper, made[0].targets[0].id)
        elif len(rets) == 1 and getattr(rets[0].value, "id", "") == param:
            view = False
        else:
            raise ShapeError(f"{val.func.id}: not of the shape `frame = shared.copy(…); …; return frame`")
    else:
        raise ShapeError("_start: unrecognised right-hand side of `market.data = …`: " + ast.dump(val)[:200])
    add("managerDataView", "Bool", "true" if view else "false",
        "_start assigns a copy (DataFrame.copy) of the shared data frame to market.data (false: the shared frame itself)")
    add("managerCellsCopied", "Bool", "true" if cells else "false",
        "_start also deep-copies the Python objects stored inside cells of that frame (order-book lists), which no DataFrame copy duplicates")

    # ---- (5) the market's own write path into order-book lists: get_new_order_list decrements levels of a deep copy of `old`
    hp = parse("demeter/deribit/helper.py")
    gn = find_func(hp, "get_new_order_list")
    old = gn.args.args[0].arg
    written = set()
    for n in ast.walk(gn):
        if isinstance(n, (ast.AugAssign, ast.Assign)):
            t = n.target if isinstance(n, ast.AugAssign) else n.targets[0]
            while isinstance(t, ast.Subscript):
                t = t.value
                if isinstance(t, ast.Name):
                    written.add(t.id)
    deep = {n.targets[0].id for n in ast.walk(gn) if isinstance(n, ast.Assign) and isinstance(n.targets[0], ast.Name)
            and _is_deepcopy_of(n.value, lambda a: getattr(a, "id", "") == old)}
    if not written:
        raise ShapeError("get_new_order_list: no element write found")
    add("deribitOrderListDeepCopied", "Bool", "true" if written <= deep else "false",
        "deribit get_new_order_list writes only into copy.deepcopy(old) (false: into lists reachable from the data frame's cells)")

    # ---- (6) the price frame: Actuator.set_price keeps `prices.map(…)` — a new frame — 0 always, 1 only under a condition
    #      (e.g. skipped when the cells are Decimal already), 2 never
    act = parse("demeter/core/actuator.py")
    sp = find_func(act, "set_price", cls="Actuator")

    def is_map_assign(st):
        return isinstance(st, ast.Assign) and getattr(st.targets[0], "id", "") == "prices" and isinstance(st.value, ast.Call) \
            and getattr(st.value.func, "attr", "") in ("map", "applymap", "copy") and getattr(st.value.func.value, "id", "") == "prices"
    top = [k for k, st in enumerate(sp.body) if is_map_assign(st)]
    anywhere = [n for n in ast.walk(sp) if is_map_assign(n)]
    keeps = [k for k, st in enumerate(sp.body) if isinstance(st, ast.If) and any(
        isinstance(x, ast.Assign) and isinstance(x.targets[0], ast.Attribute) and x.targets[0].attr == "_token_prices" for x in ast.walk(st))]
    if not keeps:
        raise ShapeError("Actuator.set_price: `self._token_prices = …` not found")
    pc = 0 if (top and top[-1] < keeps[0]) else (1 if anywhere else 2)
    add("actuatorPriceCopy", "Nat", str(pc),
        "Actuator.set_price keeps a new frame (prices.map(…)): 0 always, 1 only under a condition, 2 never (adopts the caller's frame)")
