#!/usr/bin/env python3
"""tools/fingerprint.py [--write]: docstring-free AST fingerprint of every module under <repo>/demeter.
`--write` records them in source_fingerprints.json (run with /venv/bin/python, the interpreter of the checks: ast.unparse differs between Python versions; done whenever /repo gains a commit); without it prints the files
whose fingerprint differs from the record.  harness/check.py uses the difference to direct the search: a check whose anchored
source files changed since the record runs its generators with an enlarged budget (more sequences, more seeds), because the model was
last validated against the recorded source.  A mismatch is never an alarm by itself."""
import ast, hashlib, json, os, sys
V = os.path.dirname(os.path.dirname(os.path.abspath(__file__)))
REC = os.path.join(V, "source_fingerprints.json")


def strip_doc(tree):
    for n in ast.walk(tree):
        if isinstance(n, (ast.FunctionDef, ast.AsyncFunctionDef, ast.ClassDef, ast.Module)) and n.body and \
                isinstance(n.body[0], ast.Expr) and isinstance(getattr(n.body[0], "value", None), ast.Constant) and isinstance(n.body[0].value.value, str):
            n.body = n.body[1:] or [ast.Pass()]
    return tree


def fingerprints(repo):
    out = {}
    for dp, _, fs in os.walk(os.path.join(repo, "demeter")):
        for f in sorted(fs):
            if f.endswith(".py"):
                p = os.path.join(dp, f)
                try:
                    d = ast.unparse(strip_doc(ast.parse(open(p).read())))
                except SyntaxError:
                    d = open(p).read()
                out[os.path.relpath(p, repo)] = hashlib.sha256(d.encode()).hexdigest()[:16]
    return out


def changed(repo):
    rec = json.load(open(REC))["files"] if os.path.exists(REC) else {}
    cur = fingerprints(repo)
    return sorted(k for k in set(rec) | set(cur) if rec.get(k) != cur.get(k))


if __name__ == "__main__":
    repo = os.environ.get("DEMETER_REPO", "/repo")
    if "--write" in sys.argv:
        import subprocess
        head = subprocess.run(["git", "-C", repo, "rev-parse", "--short", "HEAD"], capture_output=True, text=True).stdout.strip()
        json.dump({"repo_head": head, "files": fingerprints(repo)}, open(REC, "w"), indent=0, sort_keys=True)
        print("recorded", len(fingerprints(repo)), "files at", head)
    else:
        print("\n".join(changed(repo)) or "(no source file differs from the record)")
