#!/bin/sh
# tools/mkseed.sh <ID> <N>: create a scratch worktree /tmp/seed/<id> of /repo HEAD and print the prompt for a seeding agent
ID="$1"; N="${2:-4}"; id=$(echo "$ID" | tr A-Z a-z)
mkdir -p /tmp/seed/out
git -C /repo worktree add -q --detach /tmp/seed/$id HEAD 2>/dev/null || true
python3 - "$ID" "$N" <<'PY'
import json, sys
ID, N = sys.argv[1], sys.argv[2]
p = [json.loads(l) for l in open('/verif/properties.jsonl') if json.loads(l)['id'] == ID][0]
prop = p['title'] + "\n\n" + p['statement'] + "\n\nQuantified over: " + p['quantifier']['text'] + "\n\nAnchored in: " + ", ".join(p['anchors']['files'])
t = open('/verif/tools/seed_prompt.txt').read()
print(t.replace('@WT@', f'/tmp/seed/{ID.lower()}').replace('@PROP@', prop).replace('@N@', N).replace('@OUT@', f'/tmp/seed/out/{ID}').replace('@ID@', ID))
PY
