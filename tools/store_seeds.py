#!/usr/bin/env python3
"""tools/store_seeds.py <summary file>: copy seeded changes from /tmp/seed/out/<ID>/m<i> to /verif/seeded/<ID>-m<i> with the check results."""
import json, os, shutil, re, sys
res = open(sys.argv[1]).read()
for b in re.split(r'#### ', res)[1:]:
    head = b.split('\n')[0].strip()
    pid, m = head.split()[:2]
    checks = head.split()[2:] or [pid]
    src = f'/tmp/seed/out/{pid}/{m}'
    dst = f'/verif/seeded/{pid}-{m}'
    if not os.path.isdir(src):
        continue
    os.makedirs(dst, exist_ok=True)
    for f in ('patch.diff', 'demo.py'):
        shutil.copy(os.path.join(src, f), dst)
    meta = json.load(open(os.path.join(src, 'meta.json')))
    lines = [l.strip() for l in b.split('\n')[1:] if l.strip() and 'vanished' not in l and 'rsync' not in l]
    meta['breaks_property'] = pid
    meta['confirmed'] = ('demo.py prints PASS on the clean tree and FAIL with the patch; the 111 baseline tests still pass with the patch '
                         '(confirmed by the seeding agent; patch applied and checks run by tools/seedtest.sh in a scratch worktree)')
    meta['ran'] = f'tools/seedtest.sh seeded/{pid}-{m} ' + ' '.join(checks) + '   (scratch worktree of /repo + scratch copy of /verif; quick tier)'
    meta['check_result'] = lines
    meta['detected'] = any(re.search(r'[1-9]\d* VIOLATION line', l) for l in lines)
    json.dump(meta, open(os.path.join(dst, 'meta.json'), 'w'), indent=1)
    print(pid, m, 'DETECTED' if meta['detected'] else 'MISSED  ', meta['summary'][:90])
