#!/usr/bin/env python3
"""tools/ingest_benign.py <outdir> <area> [...]: copy behaviour-preserving refactorings written by independent agents
(<outdir>/<area>/b<i>/{patch.diff,meta.json,equiv.py}) to benign/<area>-b<n>/, after confirming in a scratch worktree of /repo HEAD that
equiv.py (a hash over results, exception classes and resulting states of a few hundred varied calls) prints the same hash with and without
the patch and that the 111 baseline tests still pass; then run tools/benign_all.py on them."""
import glob, json, os, re, shutil, subprocess, sys
V = os.path.dirname(os.path.dirname(os.path.abspath(__file__)))
out, areas = sys.argv[1], sys.argv[2:]
names = []
S = f"/var/tmp/benignval.{os.getpid()}"
subprocess.run(["git", "-C", "/repo", "worktree", "add", "-q", "--detach", S, "HEAD"], check=True)
def run(cmd):
    return subprocess.run(cmd, cwd=S, capture_output=True, text=True, shell=isinstance(cmd, str))
def hash_of():
    p = run(["/venv/bin/python", "equiv.py"])
    hs = re.findall(r"\b[0-9a-f]{64}\b", p.stdout)
    return hs[-1] if hs else f"NOHASH rc={p.returncode} {p.stderr[-200:]}"
try:
    for area in areas:
        for d in sorted(x for x in glob.glob(os.path.join(out, area, "b*")) if os.path.isdir(x)):
            if not all(os.path.exists(os.path.join(d, f)) for f in ("patch.diff", "meta.json", "equiv.py")):
                print("incomplete:", d); continue
            run("git checkout -q -- . && git clean -fdq")
            shutil.copy(os.path.join(d, "equiv.py"), S)
            h0 = hash_of()
            if run(["git", "apply", os.path.join(d, "patch.diff")]).returncode:
                print("does not apply:", d); continue
            h1 = hash_of()
            t = run("/venv/bin/python -m pytest -q -p no:cacheprovider --timeout=900 --continue-on-collection-errors 2>&1 | tail -1")
            npass = re.search(r"(\d+) passed", t.stdout)
            ok = h0 == h1 and "NOHASH" not in h0 and npass and int(npass.group(1)) >= 111
            print(os.path.basename(os.path.dirname(d)) + "/" + os.path.basename(d), "hash clean", h0[:12], "patched", h1[:12], "tests", npass.group(1) if npass else t.stdout[-80:], "->", "ok" if ok else "REJECTED")
            if not ok:
                continue
            have = [int(re.search(r"-b(\d+)$", x).group(1)) for x in glob.glob(os.path.join(V, "benign", f"{area}-b*"))]
            name = f"{area}-b{max(have, default=0) + 1}"
            dst = os.path.join(V, "benign", name)
            os.makedirs(dst, exist_ok=True)
            for f in ("patch.diff", "equiv.py"):
                shutil.copy(os.path.join(d, f), dst)
            m = json.load(open(os.path.join(d, "meta.json")))
            m["confirmed"] = f"tools/ingest_benign.py: equiv.py hash {h0[:16]} identical with and without the patch on /repo HEAD; baseline tests pass with the patch"
            json.dump(m, open(os.path.join(dst, "meta.json"), "w"), indent=1)
            names.append(name)
finally:
    subprocess.run(["git", "-C", "/repo", "worktree", "remove", "--force", S])
print("ingested", names)
if names:
    subprocess.run([sys.executable, os.path.join(V, "tools", "benign_all.py"), "-j", "2"] + names)
