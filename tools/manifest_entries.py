NOT_APPLICABLE = {}

claim("C06",
  text="Lean theorems about the TickMath model whose multiplier table is regenerated from the source: protocol boundary values; strict monotonicity "
       "for all 1,774,545 ticks; CLOSENESS to sqrt(1.0001^t)*2^96 within the property's bound for every tick (integer form and Real.sqrt form), by a "
       "certified enclosure sweep - kernel-checked certificates for twenty 192-bit constants, a multiplicativity lemma for outward-rounded brackets, and an "
       "exhaustive `decide +kernel` sweep of a per-tick Boolean check, no native_decide; relative tick gap >= 1.00004 on the whole range; floor semantics of "
       "sqrt->tick for every float estimate; nearest-usable-tick laws; and the price<->tick helpers (faithful Decimal model: /, *, **2, Decimal(10**e), 1/x, "
       "Decimal.sqrt, int()), both orientations and all decimals: exact round trip returns the tick, and under any arithmetic with relative error <= eps <= 1e-9 "
       "per operation the round trip lands in {t-1, t}, both through the integer-corrected conversion (oracle-free) and through base_unit_price_to_tick's float "
       "logarithm. Tied to the code by bit-exact differential execution of the real functions against the compiled models (driver, driver_tick) plus the "
       "property oracle on the implementation's outputs (quick: stride sample, thorough: every tick).",
  note="Trusted: Lean kernel, tools/gen_consts.py, harness generators. The enclosure constants and tools/gen_c06_close.py are not trusted (re-certified in the "
       "kernel). base_unit_price_to_tick ends in math.floor(math.log(...)) (libm): its theorem assumes the result is the floor logarithm up to a relative "
       "perturbation 1e-9 of the argument; that hypothesis is evaluated on every observed call with a 60-digit reference. The eps-robust theorems assume relative "
       "error <= eps for Decimal /, *, **2, sqrt; CPython's 5e-35 is not proved for the model's round35 (its digit-count estimate is only valid below ~2^150000), "
       "it is covered by the bit-exact correspondence. Decimal(10**negative) uses libm pow, compared bit-exactly.",
  technique="Lean 4 proof (certified interval enclosure + exhaustive kernel sweep + error-propagation calculus over Q) over models regenerated from source constants; differential correspondence with the Python code",
  ref="DESIGN.md §2 C06")

claim("C07",
  text="Lean theorems about the LiquidityAmounts model (integer floor math + exact rational amounts): no over-spend in all three price regimes, "
       "maximality up to 1 + offered0/(sqrt-price span), one-sidedness, non-negativity, monotonicity in price across branch boundaries, "
       "linearity in liquidity, closed forms, open/close round trip in every rounding context; tied to get_liquidity/get_amounts/"
       "V3CoreLib.new_position/close_position by bit-exact differential execution (driver runs Decimal prec-35 semantics) and by the property "
       "oracle evaluated with exact Fractions on the implementation's outputs.",
  note="Trusted: Lean kernel, harness generators, Decimal = exact-then-round35. Theorems are for the exact rational semantics; the rounding of the "
       "three Decimal divisions is covered by the property's own 1e-30 tolerance (measured max deviation reported in evidence).",
  technique="Lean 4 proof (Nat/Rat inequalities) + differential correspondence with the Python code",
  ref="DESIGN.md §2 C07")
