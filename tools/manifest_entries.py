NOT_APPLICABLE = {}

claim("C06",
  text="Lean theorems about the TickMath model whose multiplier table is regenerated from the source: protocol boundary values; strict monotonicity "
       "for all 1,774,545 ticks; CLOSENESS to sqrt(1.0001^t)*2^96 within the property's bound for every tick (integer form and Real.sqrt form), by a "
       "certified enclosure sweep - kernel-checked certificates for twenty 192-bit constants, a multiplicativity lemma for outward-rounded brackets, and an "
       "exhaustive `decide +kernel` sweep of a per-tick Boolean check, no native_decide; relative tick gap >= 1.00004 on the whole range; floor semantics of "
       "sqrt->tick for every float estimate; nearest-usable-tick laws; and the price<->tick helpers (faithful Decimal model: /, *, **2, Decimal(10**e), 1/x, "
       "Decimal.sqrt, int()), both orientations and all decimals: exact round trip returns the tick, and under any arithmetic with relative error <= eps <= 1e-9 "
       "per operation the round trip lands in {t-1, t}, both through the integer-corrected conversion (oracle-free) and through base_unit_price_to_tick's float "
       "logarithm. Tied to the code by bit-exact differential execution of the real functions against the compiled models (driver, driver_tick) plus the "
       "property oracle on the implementation's outputs (quick: stride sample, thorough: every tick).",
  note="Trusted: Lean kernel, tools/gen_consts.py, harness generators. The enclosure constants and tools/gen_c06_close.py are not trusted (re-certified in the "
       "kernel). base_unit_price_to_tick ends in math.floor(math.log(...)) (libm): its theorem assumes the result is the floor logarithm up to a relative "
       "perturbation 1e-9 of the argument; that hypothesis is evaluated on every observed call with a 60-digit reference. The eps-robust theorems assume relative "
       "error <= eps for Decimal /, *, **2, sqrt; CPython's 5e-35 is not proved for the model's round35 (its digit-count estimate is only valid below ~2^150000), "
       "it is covered by the bit-exact correspondence. Decimal(10**negative) uses libm pow, compared bit-exactly.",
  technique="Lean 4 proof (certified interval enclosure + exhaustive kernel sweep + error-propagation calculus over Q) over models regenerated from source constants; differential correspondence with the Python code",
  ref="DESIGN.md §2 C06")

claim("C07",
  text="Lean theorems about the LiquidityAmounts model (integer floor math + exact rational amounts): no over-spend in all three price regimes, "
       "maximality up to 1 + offered0/(sqrt-price span), one-sidedness, non-negativity, monotonicity in price across branch boundaries, "
       "linearity in liquidity, closed forms, open/close round trip in every rounding context; tied to get_liquidity/get_amounts/"
       "V3CoreLib.new_position/close_position by bit-exact differential execution (driver runs Decimal prec-35 semantics) and by the property "
       "oracle evaluated with exact Fractions on the implementation's outputs.",
  note="Trusted: Lean kernel, harness generators, Decimal = exact-then-round35. Theorems are for the exact rational semantics; the rounding of the "
       "three Decimal divisions is covered by the property's own 1e-30 tolerance (measured max deviation reported in evidence).",
  technique="Lean 4 proof (Nat/Rat inequalities) + differential correspondence with the Python code",
  ref="DESIGN.md §2 C07")

claim("C11",
  text="Lean theorems about a hand-written model of AaveV3Market's risk logic: the risk figures equal the Aave v3 definitions; accept-iff characterisations of "
       "borrow / withdraw / change_collateral mirroring the code's requires in order; an accepted borrow is covered by collateral x weighted max-LTV and leaves "
       "HF >= 1 (LTV <= LT); an accepted collateral withdrawal or flag switch leaves HF >= 1; HF >= 1 is an invariant of sequences of those calls; "
       "get_max_borrow_amount = 0.99 x limit and is accepted, beyond the limit is rejected; get_max_withdraw_amount <= supplied, accepted in exact arithmetic, "
       "beyond it rejected. Tied to AaveV3Market by bit-exact differential execution (outcome class, cause, post-state, amounts, figures) on in-memory markets "
       "over the repo's risk-parameter CSVs and by an exact-Fraction oracle at the accept/reject frontier x {1 +- 1e-9, 1 +- 1e-3}.",
  note="Known finding max_withdraw.rejected-by-rounding: withdraw(get_max_withdraw_amount) is refused under the Decimal rounding (kernel-checked witness "
       "C11_fails_max_withdraw_rounded; the acceptance theorem carries _partial). HF >= 1 after a withdrawal holds up to the sub_base_amount dust "
       "(< 1e-18 scaled units, explicit in the theorem, with a witness that the term is needed). supply / repay are modelled in the Aave state machine (C10/C13), "
       "not here. Exact rational semantics; 35-digit rounding reproduced bit-exactly by the driver; within 1e-30 of HF = 1 the rounding decides. One defect repaired (ba78d79).",
  technique="Lean 4 proof (field arithmetic, list induction) over a model with source-regenerated constants; step-wise differential correspondence plus exact-Fraction oracle",
  ref="DESIGN.md §2 C11")

claim("C12",
  text="Lean theorems about a hand-written model of AaveV3Market.update -> _liquidate -> _do_liquidate (as repaired). Per step: close factor 50 %/100 % around "
       "HF 0.95 with the constants regenerated from the source; seized value = repaid value x (1 + the collateral's bonus), or the whole balance with the repayment "
       "scaled down; state change measured with the collateral's own liquidity index; delta net value = -bonus x repaid value; non-negativity; record = recomputation. "
       "Loop, for every rounding context: nothing happens unless 0 < HF < 1, terminates within #debts iterations, every debt visited at most once, ends with the loop "
       "condition false or every debt visited. On well-formed portfolios: no exception, liquidation iff 0 < HF < 1, ends with no debt / HF >= 1 / no collateral / all "
       "visited, every recorded action is a proper step; the pair selection (smallest unvisited debt, largest collateral, last on ties) is characterised. Tied to the "
       "code by bit-exact differential execution on in-memory markets (multi-collateral, multi-debt, per-token indices, 2-4-bar price paths, ties, malformed shapes) "
       "and by an exact-Fraction oracle on the implementation's own observations (states at every recorded action, wallet).",
  note="Exact rational semantics; 35-digit rounding reproduced bit-exactly by the driver and measured. Statements hold up to the dust helper.sub_base_amount snaps "
       "(< MIN_TOKEN_VALUE = 1e-18 - 1e-27 scaled units), explicit in the theorems. WF hypotheses: prices and indices > 0, bases >= 0, unique keys, collateral => LT > 0 "
       "(re-checked on the CSVs each run). Wallet-untouched is structural in the model and oracle-checked on the code. Three defects repaired (97b6191, 1a74ab7, 75ca867).",
  technique="Lean 4 proof (fold invariants, fuel induction, field arithmetic) over a model with source-regenerated constants; step-wise differential correspondence plus exact oracle",
  ref="DESIGN.md §2 C12")

claim("C14",
  text="28 Lean theorems about a hand-written model of squeeth/market.py: every accepted mint, collateral withdrawal and LP withdrawal leaves the vault with no debt or "
       "with effective collateral (ETH + LP WETH + LP oSQTH at index price) >= 1.5 x debt at TWAP and >= 0.5 ETH (for every rounding context; constants regenerated "
       "from the source); the TWAP window is rows[max 0 (k-6) .. k] on the minute grid; update liquidates exactly the unsafe vaults and leaves safe ones alone; "
       "liquidation redeems the LP first (2 % bounty capped at the vault's ETH), then burns half the debt (all if < 0.5 ETH would remain) against debt x TWAP x 1.1 "
       "capped at collateral; 'Dust vault left' unreachable; amounts never negative for any operation and along paths; mint/burn/deposit/withdraw move exactly the "
       "stated amounts (or snap within 1e-5 wallet dust). Tied to the code by step-wise bit-exact differential execution against driver_squeeth (operation sequences, "
       "exact ties, real Actuator.run bar loops) and an independent exact-Fraction oracle on the implementation's observations.",
  note="The geometric mean (float log/pow) is an oracle value captured from the real calc_twap_price (cross-checked at 1e-9 against a 60-digit mean); only the window "
       "selection is modelled and proved. Pool orientation token0 = WETH = quote assumed; buy_squeeth/sell_squeeth not modelled. One known finding (closed pool at a "
       "liquidation bar raises instead of liquidating). Seven fix: commits (751c31f, deb9025, f77c9aa, 517bf82, ce449ad, 4da5e32, a6df880).",
  technique="Lean 4 proof (case analysis, list induction, invariants) + step-wise differential correspondence + exact-Fraction oracle",
  ref="DESIGN.md §2 C14")

claim("C17",
  text="Lean theorems: GMX v1 fee in [0, 25+60 bp] and within 1 bp (+200/target) of the Vault's integer getFeeBasisPoints off its discontinuity; mint and redeem follow "
       "price x amount / value per share with every contract round-down step including adjustForDecimals; a same-bar buy-then-sell never returns more than paid; "
       "rewards accrue interval*60*held/supply; holdings never go negative and over-redemption is rejected (any sequence). v2 (one polymorphic model text, Rat for "
       "theorems, Float for the driver): GM minted and redeemed by pool value per share with deposit/withdraw fee factors and a positive impact capped by the impact "
       "pool; round trip returns <= paid when impact <= 0, with an exact closed form otherwise; shares never negative. Tied to the code by step-wise differential "
       "execution against real GmxMarket / GmxV2Market objects (v1 bit-exact under 35-digit rounding, v2 at 1e-12) and independent Fraction oracles written from "
       "the property and contract, on recorded CSV rows and generated rows.",
  note="Known findings with kernel-checked witnesses: the code never floors target/average/rebate, so it differs from the Vault at the rule's mirror point (0 vs 85 bp) "
       "and for targets below 200 wei; the v2 positive-impact round trip profits on a frozen row (by design of the GM formulas). v2 Float vs Rat semantics is measured "
       "(libm pow is an oracle on both sides). Five defects repaired (155684f, 8743204, 6f3533d, a18ed8c, 6da6425).",
  technique="Lean 4 proof (floor arithmetic, field arithmetic, induction over op lists) + step-wise differential correspondence + Fraction oracles",
  ref="DESIGN.md §2 C17")

claim("C19",
  text="Lean theorems about a model of BacktestManager's data flow (sequential path threading the configuration's markets and data frames, forked pool with per-worker "
       "data and arbitrary task->worker assignment, Windows branch), strategies = arbitrary state transformers: with the current code (source flags regenerated each "
       "run) and pandas copy-on-write every strategy's observation equals its solo run for every strategy list, order, thread count and schedule; negation witnesses "
       "for both pre-fix behaviours. Oracle: the real BacktestManager with 1-4 scripted strategies (14 behaviours incl. add_column and in-place data overwrite) over "
       "{uni},{uni,uni},{uni,aave}, threads 1/2/4, orders, each pooled case in a fresh subprocess, dumps compared exactly with solo runs.",
  note="OS scheduling / fork / pickling are runtime behaviour: measured, not proved. copy.deepcopy and DataFrame.copy(deep=False) under copy-on-write trusted (frames "
       "hashed and configured markets checked after every run). For pandas < 3 only the partial theorem (no in-place overwrites) holds. Defects repaired: 5529c57, f43dc27.",
  technique="Lean 4 proof (induction over strategy lists, all schedules) + whole-run differential oracle against solo runs",
  ref="DESIGN.md §2 C19")

claim("C20",
  text="Lean theorems about an exact-rational model of the metric code: the max-drawdown index scan equals the definition (largest relative decline i<=j) for every "
       "positive series, is 0 for never-falling series, lies in [0,1), is scale-invariant, equals the running-peak form; return multiple/rate series equal their "
       "definitions, the products telescope so total and annualised returns agree across end-point / net-value / rate-series forms for every pow oracle; sample "
       "variance (ddof 1), volatility, Sharpe, alpha/beta equal their direct formulas; every entry of performance_metrics is the corresponding function on "
       "interval/duration derived from the index. Tied to the code by differential execution (exact model fed the floats' exact values, 1e-9 relative) and by an "
       "exact-Fraction oracle of the definitions on the implementation's outputs.",
  note="Trusted: Lean kernel, tools/consts_metrics.py (365, 1e9, 86400, scan start values), harness generators. Float rounding of numpy/pandas is measured (max 3.9e-11), "
       "not proved; pow/sqrt are oracle parameters (driver: Lean Float). Series with return variance < 1e-12*mean^2 compared by outcome class only. Defect repaired: 4a8a932.",
  technique="Lean 4 proof (loop invariant + list induction over Rat) + differential correspondence + exact-Fraction oracle",
  ref="DESIGN.md §2 C20")
