NOT_APPLICABLE = {}

claim("C06",
  text="Lean theorems about the TickMath model whose multiplier table is regenerated from the source on every run: protocol boundary values, "
       "strict monotonicity for all 1 774 545 ticks (exhaustive kernel sweep, decide +kernel on a binary-splitting checker, no native_decide), "
       "floor semantics of sqrt->tick for every float estimate, nearest-usable-tick laws; tied to the code by differential execution of the real "
       "functions against the compiled model (quick: stride sample, thorough: every tick) plus the property oracle on the implementation's outputs.",
  note="Trusted: Lean kernel, tools/gen_consts.py, harness generators. math.log is an oracle (theorem holds for any estimate). "
       "Partial: closeness to sqrt(1.0001^t)*2^96 within the stated bound and the price<->tick inverse-within-one-tick are measured "
       "(70/90-digit arithmetic; thorough = all ticks), not proved.",
  technique="Lean 4 proof (kernel sweep + induction) over a model regenerated from source constants; differential correspondence with the Python code",
  ref="DESIGN.md §2 C06")

claim("C07",
  text="Lean theorems about the LiquidityAmounts model (integer floor math + exact rational amounts): no over-spend in all three price regimes, "
       "maximality up to 1 + offered0/(sqrt-price span), one-sidedness, non-negativity, monotonicity in price across branch boundaries, "
       "linearity in liquidity, closed forms, open/close round trip in every rounding context; tied to get_liquidity/get_amounts/"
       "V3CoreLib.new_position/close_position by bit-exact differential execution (driver runs Decimal prec-35 semantics) and by the property "
       "oracle evaluated with exact Fractions on the implementation's outputs.",
  note="Trusted: Lean kernel, harness generators, Decimal = exact-then-round35. Theorems are for the exact rational semantics; the rounding of the "
       "three Decimal divisions is covered by the property's own 1e-30 tolerance (measured max deviation reported in evidence).",
  technique="Lean 4 proof (Nat/Rat inequalities) + differential correspondence with the Python code",
  ref="DESIGN.md §2 C07")
