NOT_APPLICABLE = {}

claim("C06",
  text="Lean theorems about the TickMath model whose multiplier table is regenerated from the source: protocol boundary values; strict monotonicity "
       "for all 1,774,545 ticks; CLOSENESS to sqrt(1.0001^t)*2^96 within the property's bound for every tick (integer form and Real.sqrt form), by a "
       "certified enclosure sweep - kernel-checked certificates for twenty 192-bit constants, a multiplicativity lemma for outward-rounded brackets, and an "
       "exhaustive `decide +kernel` sweep of a per-tick Boolean check, no native_decide; relative tick gap >= 1.00004 on the whole range; floor semantics of "
       "sqrt->tick for every float estimate; nearest-usable-tick laws; and the price<->tick helpers (faithful Decimal model: /, *, **2, Decimal(10**e), 1/x, "
       "Decimal.sqrt, int()), both orientations and all decimals: exact round trip returns the tick, and under any arithmetic with relative error <= eps <= 1e-9 "
       "per operation the round trip lands in {t-1, t}, both through the integer-corrected conversion (oracle-free) and through base_unit_price_to_tick's float "
       "logarithm. Tied to the code by bit-exact differential execution of the real functions against the compiled models (driver, driver_tick) plus the "
       "property oracle on the implementation's outputs (quick: stride sample, thorough: every tick).",
  note="Floor for every estimate without a fuel hypothesis; nearest usable tick is nearest among all in-range multiples incl. the end corrections; converse price->tick->price bracket (x96 route 1e-33 in the 35-digit context; log route 2e-8 under LgSound, the single libm assumption); 35-digit inverse theorems for any positive Decimal(10**e) incl. CPython's binary64 value. Trusted: Lean kernel, tools/gen_consts.py, harness generators. The enclosure constants and tools/gen_c06_close.py are not trusted (re-certified in the "
       "kernel). base_unit_price_to_tick ends in math.floor(math.log(...)) (libm): its theorem assumes the result is the floor logarithm up to a relative "
       "perturbation 1e-9 of the argument; that hypothesis is evaluated on every observed call with a 60-digit reference. The eps-robust theorems need relative "
       "error <= eps for Decimal /, *, **2, sqrt; this is PROVED for the model's round35/dsqrt35/dpowNat (Proofs/Numerics.lean, eps = 5e-35) for numbers with "
       "numerator and denominator below 2^150000 (necessary: a kernel-checked counterexample exists beyond), and C06_inverse_x96_round35 instantiates it; that the "
       "model's arithmetic equals CPython's is covered by the bit-exact correspondence. Decimal(10**negative) uses libm pow, compared bit-exactly.",
  technique="Lean 4 proof (certified interval enclosure + exhaustive kernel sweep + error-propagation calculus over Q) over models regenerated from source constants; differential correspondence with the Python code",
  ref="DESIGN.md §2 C06")

claim("C07",
  text="Lean theorems about the LiquidityAmounts model (integer floor math + exact rational amounts): no over-spend in all three price regimes, "
       "maximality up to 1 + offered0/(sqrt-price span), one-sidedness, non-negativity, monotonicity in price across branch boundaries, "
       "linearity in liquidity, closed forms, open/close round trip in every rounding context; tied to get_liquidity/get_amounts/"
       "V3CoreLib.new_position/close_position by bit-exact differential execution (driver runs Decimal prec-35 semantics) and by the property "
       "oracle evaluated with exact Fractions on the implementation's outputs.",
  note="No over-spend / maximality / L+1-over-spends are stated on the driven function: get_liquidity = getLiquidityWei on to_wei-converted amounts (truncation proved, beyond-35-digit rounding witnessed), in token amounts and on ticks incl. MIN/MAX (tick bounds from the C06 sweep); 35-digit theorems in every regime and end to end (reported <= offered x (1+1e-30)); round trip on the driven kernel and on the UniLpMarket state machine (add then remove+collect credits exactly the used amounts). The source of V3CoreLib.new_position / get_token_amounts / close_position (int- and Decimal-liquidity readings) and update_fee with its two inner closures is translated to Lean by tools/py2lean.py on every run and proved equal to the kernel/fee model (Proofs/Tie/UniCore.lean, 10 Tie_unicore_* theorems) for every rounding context, results and exception classes; update_fee is tied for an integer last_tick, the nan of a fresh market by differential execution only. Trusted: Lean kernel, harness generators, Decimal = exact-then-round35. Theorems are for the exact rational semantics; the rounding of the "
       "three Decimal divisions is covered by the property's own 1e-30 tolerance (measured max deviation reported in evidence).",
  technique="Lean 4 proof (Nat/Rat inequalities) + differential correspondence with the Python code",
  ref="DESIGN.md §2 C07")

claim("C11",
  text="Lean theorems about a hand-written model of AaveV3Market's risk logic: the risk figures equal the Aave v3 definitions; accept-iff characterisations of "
       "borrow / withdraw / change_collateral mirroring the code's requires in order; an accepted borrow is covered by collateral x weighted max-LTV and leaves "
       "HF >= 1 (LTV <= LT); an accepted collateral withdrawal or flag switch leaves HF >= 1; HF >= 1 is an invariant of sequences of those calls; "
       "get_max_borrow_amount = 0.99 x limit and is accepted, beyond the limit is rejected; get_max_withdraw_amount <= supplied, accepted in exact arithmetic, "
       "beyond it rejected. Tied to AaveV3Market by bit-exact differential execution (outcome class, cause, post-state, amounts, figures) on in-memory markets "
       "over the repo's risk-parameter CSVs and by an exact-Fraction oracle at the accept/reject frontier x {1 +- 1e-9, 1 +- 1e-3}.",
  note="All user operations keep HF >= 1 (risk-model steps; state-machine tie proved for borrow, withdraw, change_collateral, cash repay and supply top-up), with a witness that operations accepted at HF < 1 after a price move leave HF < 1; change_collateral(True) requires usageAsCollateralEnabled (fix 500c37d). Known finding max_withdraw.rejected-by-rounding: withdraw(get_max_withdraw_amount) is refused under the Decimal rounding (kernel-checked witness "
       "C11_fails_max_withdraw_rounded; the acceptance theorem carries _partial). HF >= 1 after a withdrawal holds up to the sub_base_amount dust "
       "(< 1e-18 scaled units, explicit in the theorem, with a witness that the term is needed). supply / repay are modelled in the Aave state machine (C10/C13), "
       "not here. Exact rational semantics; 35-digit rounding reproduced bit-exactly by the driver; within 1e-30 of HF = 1 the rounding decides. One defect repaired (ba78d79).",
  technique="Lean 4 proof (field arithmetic, list induction) over a model with source-regenerated constants; step-wise differential correspondence plus exact-Fraction oracle",
  ref="DESIGN.md §2 C11")

claim("C12",
  text="Lean theorems about a hand-written model of AaveV3Market.update -> _liquidate -> _do_liquidate (as repaired). Per step: close factor 50 %/100 % around "
       "HF 0.95 with the constants regenerated from the source; seized value = repaid value x (1 + the collateral's bonus), or the whole balance with the repayment "
       "scaled down; state change measured with the collateral's own liquidity index; delta net value = -bonus x repaid value; non-negativity; record = recomputation. "
       "Loop, for every rounding context: nothing happens unless 0 < HF < 1, terminates within #debts iterations, every debt visited at most once, ends with the loop "
       "condition false or every debt visited. On well-formed portfolios: no exception, liquidation iff 0 < HF < 1, ends with no debt / HF >= 1 / no collateral / all "
       "visited, every recorded action is a proper step; the pair selection (smallest unvisited debt, largest collateral, last on ties) is characterised. Tied to the "
       "code by bit-exact differential execution on in-memory markets (multi-collateral, multi-debt, per-token indices, 2-4-bar price paths, ties, malformed shapes) "
       "and by an exact-Fraction oracle on the implementation's own observations (states at every recorded action, wallet).",
  note="'collateral => LT > 0' is no longer assumed: it is derived from the proved Admitted invariant of reachable accounts (C12_reachable_flags_admitted) plus a property of the risk table alone; pre-fix witness C12_fails_flag_on_non_collateralisable_pre_fix (fix 500c37d); token-unit form of the close factor with the low-priced-debt observation; no DemeterError under the guarded 35-digit rounding. Exact rational semantics; 35-digit rounding reproduced bit-exactly by the driver and measured. Statements hold up to the dust helper.sub_base_amount snaps "
       "(< MIN_TOKEN_VALUE = 1e-18 - 1e-27 scaled units), explicit in the theorems. WF hypotheses: prices and indices > 0, bases >= 0, unique keys, collateral => LT > 0 "
       "(re-checked on the CSVs each run). Wallet-untouched is structural in the model and oracle-checked on the code. Three defects repaired (97b6191, 1a74ab7, 75ca867). update() never raises DemeterError under any monotone idempotent rounding "
       "(C12_update_never_raises_demeter_error, with a witness that non-negative debts are needed); the whole-loop refinement C12_state_machine_refines_risk_model_update transfers "
       "termination / every-step / liquidates-iff / each-debt-once to the cache-carrying state machine (C12_sm_*).",
  technique="Lean 4 proof (fold invariants, fuel induction, field arithmetic) over a model with source-regenerated constants; step-wise differential correspondence plus exact oracle",
  ref="DESIGN.md §2 C12")

claim("C14",
  text="33 Lean theorems about a hand-written model of squeeth/market.py: every accepted mint, collateral withdrawal and LP withdrawal leaves the vault with no debt or "
       "with effective collateral (ETH + LP WETH + LP oSQTH at index price) >= 1.5 x debt at TWAP and >= 0.5 ETH (for every rounding context; constants regenerated "
       "from the source); the TWAP window is rows[max 0 (k-6) .. k] on the minute grid; update liquidates exactly the unsafe vaults and leaves safe ones alone; "
       "liquidation redeems the LP first (2 % bounty capped at the vault's ETH), then burns half the debt (all if < 0.5 ETH would remain) against debt x TWAP x 1.1 "
       "capped at collateral; 'Dust vault left' unreachable; amounts never negative for any operation and along paths; mint/burn/deposit/withdraw move exactly the "
       "stated amounts (or snap within 1e-5 wallet dust); the long side (buy_squeeth / sell_squeeth = the pool's buy / sell) is in the model by reuse of the "
       "Uniswap model: it never touches vaults, positions or vault status, and an accepted trade moves exactly a*p/(1-f) WETH against a oSQTH (buy) and a oSQTH against "
       "a(1-f)p WETH (sell). Tied to the code by step-wise bit-exact differential execution against driver_squeeth (operation sequences, "
       "exact ties, real Actuator.run bar loops) and an independent exact-Fraction oracle on the implementation's observations.",
  note="The geometric mean (float log/pow) is an oracle value captured from the real calc_twap_price (cross-checked at 1e-9 against a 60-digit mean); only the window "
       "selection is modelled and proved. Pool orientation token0 = WETH = quote assumed. buy_squeeth/sell_squeeth are modelled through Demeter.Uni.buy/sell (a closed pool does not refuse them, as "
       "in the code; non-negativity of holdings under a trade needs pool price >= 0 and fee rate <= 1). One known finding (closed pool at a "
       "liquidation bar raises instead of liquidating). Seven fix: commits (751c31f, deb9025, f77c9aa, 517bf82, ce449ad, 4da5e32, a6df880).",
  technique="Lean 4 proof (case analysis, list induction, invariants) + step-wise differential correspondence + exact-Fraction oracle",
  ref="DESIGN.md §2 C14")

claim("C17",
  text="Lean theorems: GMX v1 fee in [0, 25+60 bp] and within 1 bp (+200/target) of the Vault's integer getFeeBasisPoints off its discontinuity; mint and redeem follow "
       "price x amount / value per share with every contract round-down step including adjustForDecimals; a same-bar buy-then-sell never returns more than paid; "
       "rewards accrue interval*60*held/supply; holdings never go negative and over-redemption is rejected (any sequence). v2 (one polymorphic model text, Rat for "
       "theorems, Float for the driver): GM minted and redeemed by pool value per share with deposit/withdraw fee factors and a positive impact capped by the impact "
       "pool; round trip returns <= paid when impact <= 0, with an exact closed form otherwise; shares never negative. Tied to the code by step-wise differential "
       "execution against real GmxMarket / GmxV2Market objects (v1 bit-exact under 35-digit rounding, v2 at 1e-12) and independent Fraction oracles written from "
       "the property and contract, on recorded CSV rows and generated rows.",
  note="v2 withdraw rejects non-finite outputs (fix 2f5f4ac; theorem for any number type). No-profit over arbitrary same-bar operation sequences: v1 any tokens incl. sell-all, v2 under non-positive impact. v1 fee range, <= 1 bp distance from exact and round-trip margin proved for every rounding with eps <= 1/1000 (CPython: 1e-33). Operation-level impact-pool cap. Vault 1 bp rule with the target derived from the row. Wallet deltas asserted on every call (exact, or the broker's 1e-5 dust sweep). The float code of demeter/gmx/gmx_v2 (utils, MarketUtils, SwapPricingUtils, ExecuteDepositUtils, ExecuteWithdrawUtils: 23 functions) is translated in float mode over an abstract number type and proved equal to Demeter/GmxV2.lean for every number type and Ops (Proofs/Tie/Gmx2.lean, Gmx2Exec.lean) up to mintAmount and outputAmount; the ties through ** assume the base is not negative and not zero with a negative exponent (proved over Rat for exponent >= 0); generated code at Float agrees with CPython bit for bit on random cases, libm pow is an oracle on both sides; market2.py (wallet, data rows) is tied by differential execution only. Known findings with kernel-checked witnesses: the code never floors target/average/rebate, so it differs from the Vault at the rule's mirror point (0 vs 85 bp) "
       "and for targets below 200 wei; the v2 positive-impact round trip profits on a frozen row (by design of the GM formulas). v2 Float vs Rat semantics is measured "
       "(libm pow is an oracle on both sides). Five defects repaired (155684f, 8743204, 6f3533d, a18ed8c, 6da6425).",
  technique="Lean 4 proof (floor arithmetic, field arithmetic, induction over op lists) + step-wise differential correspondence + Fraction oracles",
  ref="DESIGN.md §2 C17")

claim("C19",
  text="Lean theorems about a model of BacktestManager's data flow (sequential path threading the configuration's markets and data frames, forked pool with per-worker "
       "data and arbitrary task->worker assignment, Windows branch), strategies = arbitrary state transformers: with the current code (source flags regenerated each "
       "run) and pandas copy-on-write every strategy's observation equals its solo run for every strategy list, order, thread count and schedule; negation witnesses "
       "for both pre-fix behaviours. Oracle: the real BacktestManager with 1-4 scripted strategies (14 behaviours incl. add_column and in-place data overwrite) over "
       "{uni},{uni,uni},{uni,aave}, threads 1/2/4, orders, each pooled case in a fresh subprocess, dumps compared exactly with solo runs.",
  note="Process-wide state is modelled (layer G per process and per worker, any assignment): C19_manager_isolated assumes GIntact; for the code under test this is measured on every backtest (decimal context, class-level Snapshot attributes) and pinned by the source flag snapshotHoldsNoSharedObject (fix a78c4ba: Snapshot.market_status was one class-level dict). Worker assignment is observed through pids; cellsCopied covers list, dict and set cells only; the flag extractor refuses seven more realistic variants (selftest 108/108). OS scheduling / fork / pickling are runtime behaviour: measured, not proved. copy.deepcopy and DataFrame.copy(deep=False) under copy-on-write trusted (frames "
       "hashed and configured markets checked after every run). For pandas < 3 only the partial theorem (no in-place overwrites) holds. Defects repaired: 5529c57, f43dc27.",
  technique="Lean 4 proof (induction over strategy lists, all schedules) + whole-run differential oracle against solo runs",
  ref="DESIGN.md §2 C19")

claim("C20",
  text="Lean theorems about an exact-rational model of the metric code: the max-drawdown index scan equals the definition (largest relative decline i<=j) for every "
       "positive series, is 0 for never-falling series, lies in [0,1), is scale-invariant, equals the running-peak form; return multiple/rate series equal their "
       "definitions, the products telescope so total and annualised returns agree across end-point / net-value / rate-series forms for every pow oracle; sample "
       "variance (ddof 1), volatility, Sharpe, alpha/beta equal their direct formulas; every entry of performance_metrics is the corresponding function on "
       "interval/duration derived from the index. Tied to the code by differential execution (exact model fed the floats' exact values, 1e-9 relative) and by an "
       "exact-Fraction oracle of the definitions on the implementation's outputs.",
  note="alpha and beta are separate values: beta is independent of the APR pow (theorem and oracle); benchmark entries and the no-benchmark case are proved; the default risk-free rate is read from the source and exercised (also rf = 0); irregular indexes exercised; the scan body is pinned by the py2lean tie, max_draw_down's quotient by a source flag. _withdraw_with_high_low (the drawdown scan) and return_value are translated from the source on every run and proved equal to Metrics.withdrawHighLow / returnValue at Rat for every list, with index safety shown (Proofs/Tie/Metrics.lean); the numpy/pandas functions remain tied by differential execution and source-flag constants only. Trusted: Lean kernel, tools/consts_metrics.py (365, 1e9, 86400, scan start values), harness generators. Float rounding of numpy/pandas is measured (max 3.9e-11), "
       "not proved; pow/sqrt are oracle parameters (driver: Lean Float). Series with return variance < 1e-12*mean^2 compared by outcome class only. Defect repaired: 4a8a932.",
  technique="Lean 4 proof (loop invariant + list induction over Rat) + differential correspondence + exact-Fraction oracle",
  ref="DESIGN.md §2 C20")

claim("C01",
  text="Decided part by part (harness/c01_*.py, Proofs/C01/*.lean). Broker: get_account_status = wallet at the bar's prices + each market's net value x (1 or prices[market "
       "quote]), every market and wallet entry exactly once (position-independent decomposition theorems), KeyError exactly when a price is missing. Uniswap: "
       "get_market_balance = plain sums over non-transferred positions; transferred positions contribute 0. Squeeth: net value from raw vault state with the LP at index "
       "price; invariant Once for every operation and history: a lent position is flagged, referenced by exactly one vault, skipped by the pool, no dangling reference. "
       "Aave: reported = quantize(sum supplies) - quantize(sum debts) from raw scaled balances, within the 1e-4 quantum, each entry once. Deribit: every bar of any run "
       "reports cash + sum amount x round(mark) (cached premium + current cash on closed bars), by induction over bar lists. GMX v1/v2: balance formulas from raw holdings. "
       "Each part is tied to the code by step-wise differential execution against its compiled model and by an independent exact-Fraction valuation of the implementation's "
       "raw state after every step, also through the real Broker.get_account_status with equal and different quote tokens, and on whole Actuator.run backtests (GMX, Deribit).",
  note="Proved end to end for a concrete six-market world (Uniswap LP, oSQTH/WETH pool + Squeeth over one positions container, GMX v1, Deribit on/off the hourly grid, Aave within its 1e-4 quantum): every account row of every run = wallet + sum of conv x raw holdings, with the count and dict invariants carried along the run (Proofs/C01/EndToEnd.lean); value-level exactly-once equation for the pool + Squeeth pair; the Deribit run theorem is over runBarX (trades from after_bar / notify). Known finding: direct transfer_position_out/in calls (public API Squeeth itself uses) leave a position counted zero or two times (witness C01_fails_direct_transfer; the once-theorems that exclude those calls are named _partial). Not composed: GMX v2, pool fee accrual inside Demeter.Squeeth. Theorems are for exact rational arithmetic unless stated for every context; 35-digit Decimal rounding reproduced bit-exactly by the drivers. Aave's 4-decimal quantisation "
       "of totals is allowed explicitly (decision in DESIGN.md). GMX v2 is float: compared at 1e-12. The cross-market composition (market parts + broker sum) is by theorem for "
       "the broker sum over arbitrary per-market values and by oracle for the conversion of concrete markets. Fixes relied on: ce449ad, a6df880, c97518c, 7955ce6.",
  technique="Lean 4 proof (list induction, invariants over operation histories) per market + step-wise differential correspondence + exact-Fraction valuation oracle",
  ref="DESIGN.md §2 C01")

claim("C02",
  text="Lean theorems: prefix determinism of any loop whose per-bar view is local (outputs and state of the common prefix are identical on two histories agreeing on bars 0..k), "
       "locality of the code's views (row lookup, Uniswap's shifted price column, Squeeth's 7-minute TWAP window tied to the generated TWAP_PERIOD, Deribit's hourly row, "
       "resample-first), a witness that a peeking view is not local, and the concrete prefix theorem for the Actuator model. Tied to the code by two-suffix runs of the real "
       "Actuator (probe markets, Uniswap, Uniswap+Aave, Uniswap+Deribit; 1 min, 5 min, 1 h) comparing rows/actions/snapshots of the common prefix, by comparing the real "
       "lookups with the model's views, by hashing the supplied frames (incl. nested order-book lists) before and after, and by reruns on the same inputs.",
  note="Run-level prefix theorem over run under 'same driving market' (C02_run_prefix_same_driving_market); false otherwise - known finding lookahead:bar-index:driving-market-changes-in-suffix (get_test_range picks the market with most rows of the WHOLE frame; witness C02_fails_driving_market_changes_in_the_suffix, reproduced on the real Actuator). Loop instantiated for the Uniswap + Squeeth pair with the real model steps and closed-loop hooks (C02_pair_markets_prefix). Rerun clause in the code's order initialize-then-reset with a generated copy-vs-alias flag (coreRunSavesTriggerListByCopy; the alias variant breaks C02_rerun2*). Frame immutability and rerun equality are aliasing/runtime facts a pure model cannot exhibit: measured by hashing, not proved. A strategy that reads self.data ahead of "
       "time is outside the property. GMX v1/v2 and Squeeth whole runs are in the two-suffix / rerun mix at 1/5/15 min/1 h with per-frame missing minutes; per-market balance entries and the "
       "append-only account history are compared; frame digests cover dtypes, index class/freq/tz, nested list cells.",
  technique="Lean 4 proof (fold/scan prefix lemma + view locality) + two-suffix differential runs, frame hashing, reruns, append-only history oracle, crafted Deribit pairs",
  ref="DESIGN.md §2 C02")

claim("C03",
  text="Decided part by part (harness/c03_*.py, Proofs/C03/*.lean): per market, theorems that at a frozen environment no operation (accepted or rejected) raises net value beyond "
       "the wallet dust 1e-5 x touched balance (+ Aave's 1e-18 clamp / 1e-4 quantum where stated), that conservative operations conserve exactly up to that dust (Uniswap add/"
       "remove/collect, Aave supply/withdraw/borrow/repay), that swaps lose exactly the reported fee (broker and pool), that holdings stay non-negative (Asset.sub for every "
       "rounding context) and that nothing pays out more than is held, lifted to operation sequences by induction (Deribit, GMX v1, Squeeth). Each part runs operation sequences "
       "with boundary, oversized, zero and negative amounts against the real market through Broker.get_account_status at frozen prices, compares step-wise with the compiled model "
       "and evaluates the net-value/non-negativity oracle on the implementation's own states.",
  note="Deribit value theorems are proved under bids <= round(mark) <= asks; on the raw quantifier they hold when marks or all book prices are multiples of the fee step (_ongrid_partial, _pricegrid_partial) and are kernel-refuted otherwise (mark = ask = 0.0000016, buy 1000: 105 -> 105.0002; known findings deribit.buy/sell.value-created.offgrid-mark-*); non-negativity and over-redemption hold for every mark. Broker part: account quoted in another token than the market (stable coin off its peg) exercised. Account funding calls (set_balance/add_to_balance/subtract_from_balance) move value by design and are not operations here. Known findings with kernel-checked witnesses: "
       "moving an LP position into/out of a Squeeth vault re-values its oSQTH at index vs mark; liquidation of an underwater vault forgives the shortfall; remove_liquidity with a "
       "caller-chosen pool price; GMX v2 deposit with positive price impact. Theorems for exact arithmetic unless stated; rounding measured bit-exactly. Many fix: commits (negative "
       "amounts accepted by swaps, adds, deposits, supplies, borrows; oversells in Deribit/GMX).",
  technique="Lean 4 proof (per-operation value lemmas, invariants, induction over op lists) per market + step-wise differential correspondence + frozen-market net-value oracle",
  ref="DESIGN.md §2 C03")

claim("C04",
  text="Decided part by part (harness/c04_*.py, Proofs/C04/*.lean): for every operation of every market and the broker, a theorem that a rejected call returns exactly the input "
       "state (wallet, positions/debts/vaults/holdings, visible order book, action log) for every rejection cause and every arithmetic context; multi-step helpers per constituent "
       "transaction (Uniswap helpers, Squeeth update per liquidate). Witness theorems show the pre-repair code was not atomic. A rejection-directed generator constructs, per "
       "operation and cause, states in which exactly that precondition fails, and diffs deep snapshots of the real objects around the raising call; the model's post-rejection state "
       "is compared too.",
  note="Broker swaps take Decimal, float or int amounts with allow_negative_balance on or off; a swap either returns its one record or leaves the wallet intact (fix 83dd7db). Aave change_collateral: reject-noop for every state and bar, also when the health-factor evaluation itself raises (fix 65bb898). has_update is excluded by the property. Aave update(): _do_liquidate is atomic (returns with one record or raises with the core untouched); an update() that raises before a recorded step leaves everything "
       "intact; on well-formed bars/states (computable Aave.updWF, evaluated by harness and driver on every update()) it completes with the risk model's state (exact arithmetic); a "
       "raise between two recorded steps on malformed bars leaves the completed steps (counted, never observed). Holds because of the repairs (0614350, 07ef1e2, 236eb3f, 4da5e32, "
       "a6df880, 763165f, 4fb272a, 155684f, 8743204, f93950b ...).",
  technique="Lean 4 proof (case analysis: every check precedes the first mutation / transaction wrapper restores) per market + rejection-directed differential execution with deep snapshots",
  ref="DESIGN.md §2 C04")

claim("C05",
  text="Lean theorems about the call trace of an executable model of Actuator.run over abstract markets, for all scripts, trigger lists and configurations: each bar of the "
       "(resampled) index once, in order; the trace is sorted by (bar, phase) over 17 phases (before_bar, triggers, on_bar, second refresh, market update, after_bar, account row, "
       "notify last); every accepted operation yields one action stamped with its bar and delivered to notify exactly once at the end of that bar; one account row per bar with its "
       "timestamp and prices; update once per market per bar; second refresh iff has_update; is_open gates write_func operations; hourly markets open on whole hours; the resampled "
       "index is the grid of bin labels. Tied to the code by exact call-trace equality against a real Actuator with in-memory Market subclasses and a real UniLpMarket, plus an "
       "independent trace oracle; for scripts whose hooks also raise and change strategy.triggers (general model runG, proved equal to run on operation-only scripts): the books "
       "of every run failed or not, a failing run is a prefix (calls, account history, actions) of the run without the raise, which exception leaves run(), the next run() "
       "starts clean, operations issued from notify() are recorded, stamped and delivered in their own bar.",
  note="finalize() operations are modelled and delivered (fix 0438378). Record stamps are derived from the _currents.timestamp clock tied to three source flags (the seeded 'clock set after before_bar' variant has a witness). The bar index is proved to cover exactly the driving market's data (both directions). Markets whose set_market_status raises on a missing row are modelled (runStrict; per-class flags read from the source and compared with the real objects on every run). A real-market stream (Uni + Squeeth + Deribit under a real Actuator, oracle only: harness/c05_real.py) checks records, stamps, deliveries and expiry bars. Markets abstract; pandas resample/.loc exercised and compared, not modelled internally; hooks run statement lists (op / append trigger / remove trigger / raise) - list.insert and "
       "rebinding strategy.triggers mid-loop are not modelled; the RuntimeError handler's file output is observed only; the exact row count of a failed run is oracle-checked (the "
       "prefix relation is proved). The oracle on the implementation's trace is a Python restatement of the clauses.",
  technique="Lean 4 proof (induction over bar lists on a trace semantics, cut-refinement prefix proof, refinement runG = run) + exact call-trace differential execution of the real Actuator + independent trace oracle",
  ref="DESIGN.md §2 C05")

claim("C08",
  text="Lean theorems about the model of V3CoreLib.update_fee, set_market_status, update and the bar loop: the four-tick sort weight = in-range path fraction for all ticks and "
       "ranges, in [0,1] (the 'weight must <=1' error is unreachable); per-token fee formula, non-negativity, zero when out of range all bar; share own/(pool+own); the path starts "
       "at the previous bar's close whatever runs in the bar (arbitrary hooks under a Frame hypothesis discharged for every operation); other operations enter only through the share "
       "denominator; liquidity added in a bar earns in it; witness that the pre-repair refresh broke the path start. Tied to the code by bit-exact differential execution of "
       "update_fee (int, int64, float64 tick dtypes, boundary stream) and of every set_market_status/update() in real Actuator.run with scripted operations, plus a Fraction "
       "oracle and paired runs.",
  note="Run-level theorem C08_run_fees (every bar, arbitrary operation lists, fresh market and positive pool liquidity only); the side conditions lower < upper and liquidity >= 0 are proved invariant for the code's kernel in the exact and 35-digit contexts (empty ranges are refused); the oracle also evaluates uncollected fees and the position count. The source of V3CoreLib.new_position / get_token_amounts / close_position (int- and Decimal-liquidity readings) and update_fee with its two inner closures is translated to Lean by tools/py2lean.py on every run and proved equal to the kernel/fee model (Proofs/Tie/UniCore.lean, 10 Tie_unicore_* theorems) for every rounding context, results and exception classes; update_fee is tied for an integer last_tick, the nan of a fresh market by differential execution only. Arithmetic theorems for exact rationals; the driver reproduces 35-digit Decimal bit-exactly and the oracle allows 1e-30. Bar 0 starts at its own close (no previous bar; "
       "decision in DESIGN.md). pandas row extraction and the Actuator phase order are exercised here and proved in C05. Fixes: e33398a, 43784a1.",
  technique="Lean 4 proof (grind over the insertion sort, induction over bars and operation lists) + differential correspondence + exact-Fraction oracle",
  ref="DESIGN.md §2 C08")

claim("C09",
  text="C09_orchestration: all orchestration code of the Uniswap market commutes exactly with the token-order mirror for any two numeric kernels related by the mirror law, any "
       "arithmetic context and any sequence of base/quote-denominated operations (add by price/tick, remove, collect, remove all, swap, buy, sell, even rebalance, transfers): same "
       "outcomes step by step, final states mirror each other. Kernel reciprocity |s(t)s(-t) - 2^192| <= 2 max for all ticks (exhaustive kernel sweep, C06_reciprocity) and a "
       "witness that floor does not commute with negation (add_liquidity_by_value). The harness runs the real market on a pool and its mirror and compares all observables at 1e-12 "
       "(0.1 % for estimate helpers), and compares both orientations bit-exactly with the model.",
  note="The orchestration theorems (incl. explicit prices, add_liquidity_by_value in the exact context, the views, fee accrual off a stationary bound) hold for kernels that satisfy the mirror law; the law has a proved non-trivial instance and PROVABLY NO instance for the code's own kernel (C09_std_kernel_has_no_exact_mirror): the code's helpers are proved mirror-symmetric up to an explicit reciprocity slack bounded over the whole tick range, and the propagation of that slack through the orchestration is measured (1e-12 / 0.1 %), not proved. Findings: add_liquidity_by_value tick rounding; fee for a tick stationary on a range bound (half-open [lower, upper) does not mirror; witnesses C09_fails_fee_mirror_on_lower/upper_bound). A price exactly on a range bound is skipped by the oracle, with a witness that the regime is not mirrored there. The source of V3CoreLib.new_position / get_token_amounts / close_position (int- and Decimal-liquidity readings) and update_fee with its two inner closures is translated to Lean by tools/py2lean.py on every run and proved equal to the kernel/fee model (Proofs/Tie/UniCore.lean, 10 Tie_unicore_* theorems) for every rounding context, results and exception classes; update_fee is tied for an integer last_tick, the nan of a fresh market by differential execution only. Closeness of the concrete kernel's results (1e-12 / 0.1 %) is MEASURED, not proved (a full error analysis through the integer floors is out of scope): |tick| <= 330000, "
       "tolerance max(1e-12, 2/L_min), states with the price within 1e-9 of a range bound skipped as ill-conditioned. Known finding: add_liquidity_by_value rounds the floor tick to "
       "the spacing, so the two token orders can land one spacing apart. The action log is excluded from the mirrored state (lower/upper price labels swap). Fixes: 67e82e9, 43cd360.",
  technique="Lean 4 simulation proof with an abstract kernel + exhaustive kernel sweep + two-orientation differential execution",
  ref="DESIGN.md §2 C09")

claim("C10",
  text="Lean theorems (exact arithmetic) about the Aave state machine: supply/withdraw/borrow/repay/repay-with-collateral move exactly the stated amounts (wallet within Asset.sub's "
       "dust), nothing else changes; full withdraw/repay removes the entry; balance = a x I_now / I_0 after any history of bars and non-targeting operations (supply and debt side); "
       "split = merge for supplies, borrows, withdrawals. Tied to the code by bit-exact step-wise differential execution over random non-decreasing index paths and interleavings "
       "and a shadow-ledger oracle checking 1e-18 on every step.",
  note="Accrual and round trips go through bars with non-liquidating update(); interleaved sum formula with the dust rule as an explicit term; payback pinned and bounded; the 1e-5 Asset.sub overdraft is a known finding (move:supply/repay:overdraft-dust); not covered by the interleaved formula: repay-with-collateral out of the token's own supply, borrow(None), a liquidating update(). Exact-arithmetic theorems plus eps-robust round trips on supply and debt side (C10_roundtrip_robust/_pyG, C10_debt_roundtrip_robust/_pyG; eps = 5e-35 proved for the guarded "
       "35-digit context); split = merge proved for supply, borrow, withdraw, cash repay (incl. wallet up to Asset.sub's 1e-5 dust and the full-repay/dust-snap case), "
       "repay(a);repay(None) = repay(None), and repay out of collateral incl. the capped branch. The sub_base_amount clamp (< 1e-18) is explicit in the statements.",
  technique="Lean 4 proof (inversion of accepted calls, induction over histories, eps-propagation) + step-wise differential correspondence + shadow-ledger oracle; harness split/merge oracle also on the wallet and for collateral repays",
  ref="DESIGN.md §2 C10")

claim("C13",
  text="Lean theorems for every arithmetic context: the five DictCaches are model state, every public read is an operation; coherence (each cache empty or equal to recomputation) is "
       "preserved by every read, write, rejected call, liquidation and bar change, hence an invariant of every history, hence every view read equals its from-scratch recomputation "
       "in every reachable state; per-token value = base x index x price; listed supplies carry the stored collateral flag. Tied to the code by step-wise differential execution of "
       "read-write-read interleavings (caches dumped) and a warm-vs-cold-cache oracle.",
  note="The formerly excluded raise is discharged also for the guarded 35-digit context (RndShrink). Hypotheses: the bar's data covers the held tokens, indices non-zero; no raise is excluded: the _do_liquidate debt check is proved unreachable (C13_liquidate_never_raises_debt_exceeds: monotone idempotent rounding, no "
       "negative debt; hypothesis Aave.updWF evaluated on every update() of the run, a raise on a well-formed state is a VIOLATION; RndMono instantiated for exact arithmetic only). APYs via the model's dpowNat. Fixes: 304deb1, c25cbec.",
  technique="Lean 4 proof (cache-coherence invariant, per-write reset lemmas, induction over histories) + differential execution + warm-vs-cold oracle",
  ref="DESIGN.md §2 C13")

claim("C15",
  text="28 Lean theorems about the Deribit order model: market orders fill in book order on an initial segment of the non-empty levels at printed prices and at most printed sizes, "
       "sum to the amount rounded to the contract step, cost sum p*q plus round(min(0.03 % x contracts, 12.5 % x premium)) (constants regenerated from the source); limit orders fill "
       "only at a level within +-0.1 %; mark caps exclude worse levels; the written-back book is the old book minus fills and is never overdrawn along any in-bar sequence; cash and "
       "position change exactly with size-weighted averages; equity = cash + sum amount x round(mark); sells of what is not held are rejected with the state intact. Tied to the code "
       "by bit-exact step-wise differential execution against driver_deribit (Lean Float for the float sizes) and a Fraction oracle on the implementation's observations.",
  note="Limit orders fill exactly once at one level (buy/sell, token/USD price), discharging the position/cash theorems for them; sell-side book theorems; the following order is checked against the shrunken book (proved for orders without a mark-price cap). Sum and cash theorems are for exact Decimal arithmetic with book floats read as reals; C15_market_fill_total_any_float extends the fill total to any float semantics satisfying "
       "three IEEE/CPython sanity laws (assumed of the hardware). Assumes unique instrument names and distinct price levels per side (data contract). Ten fix: commits.",
  technique="Lean 4 proof (induction over levels, fills and operation lists) + step-wise differential correspondence + Fraction oracle",
  ref="DESIGN.md §2 C15")

claim("C16",
  text="Lean theorems: update settles exactly the positions with expiry <= now on the hourly grid, one Expired and at most one Deliver record each, payoff = round(contracts x |S-K|/S) "
       "- round(min(0.015 % x contracts, 12.5 % x contracts x round(mark))) when in the money and above the fee, else nothing; off the grid update does nothing; trades are refused "
       "on bars without option data; through the bar loop with arbitrary interleavings of accepted/rejected buys and sells of any instruments (the followed one included): per bar "
       "exactly the due positions are removed with one Expired record each; over any run records = settlements; with the instrument's expiry fixed by the data there is no record "
       "before the first on-grid bar at/after expiry, one record there if the position still exists, and no return once delisted. Tied to the code by whole-run differential execution of a real Actuator.run with a minutely Uniswap co-market and an "
       "oracle recomputed from the data frames and the strategy's ledger.",
  note="update() theorems are about the non-raising path and carry SettleGuard (every due in-the-money position has underlying != 0); without it update() raises half-way as the code does (updateE, compared step-wise). Run-level theorems cover runBarX (on_bar, after_bar, notify): exactly-once needs the settling bar's late hooks not to re-open the instrument, proved necessary by C16_late_hook_buy_is_settled_one_bar_late. is_open and the book are derived in the model from the option frame. Payoff formula for any config (ETH -6, BTC -8). Run-level exactly-once holds for arbitrary trade interleavings (Proofs/C16/General.lean); the earlier hold-run and not-traded theorems are instances. check_transaction looks "
       "at the listing (in book, state open), never at the expiry: an expired instrument still listed as open can be bought and is settled by the same bar's update (witnessed); "
       "the 'never returns' clause assumes delisting. A strategy calling update() itself is excluded. The payoff ratio is numpy float on "
       "book rows and Decimal on the fallback price, both modelled; theorems use exact reals, float last-bit deviation measured (0 observed after rounding to 1e-6). Fix: 9b40b72.",
  technique="Lean 4 proof (induction over bar lists) + whole-run differential execution + data-frame oracle",
  ref="DESIGN.md §2 C16")

claim("C18",
  text="23 Lean theorems over an executable model of trigger.py and the Actuator's trigger loop: what each specification denotes ({t}, times, union of [s,e), t0+pend+k*delta, union "
       "over several periods); C18_fires_eq_denoted: for every strictly increasing bar list and every list of installed triggers of every class, through evaluation and retirement, "
       "the calls of trigger i are exactly one call per denoted bar, in order, with its kwargs; independence of other triggers; is_out_date sound; period triggers never retired; "
       "instantiated for arithmetic grids and for the full Actuator.run model; the run raises iff a trigger was built from an empty list; witnesses of the pre-fix starvation. Tied "
       "to the code by differential execution of the real Actuator against the compiled model and an independent Python oracle of the denotation.",
  note="Model = repaired code (43f1fdf, 79587c6, 840da9c); bar times taken from the implementation's own before_bar calls; PriceTrigger/CustomizedTrigger out of scope; empty-list "
       "triggers raise (proved, not repaired); trigger actions may append/remove triggers in place (10 theorems on the loop under list mutation: index loop = cursor loop, no change = static loop, "
       "append-only = static loop over the final list, exact effect of removals, tied to the general Actuator model's loop); known finding: a trigger behind one removed at/before the "
       "cursor is passed over on that bar (Actuator.run:trigger-skipped-after-removal-during-loop, kernel-checked witness).",
  technique="Lean 4 proof (induction over bar and trigger lists, lattice invariant for period triggers) + differential execution of the real Actuator + denotation oracle",
  ref="DESIGN.md §2 C18")
