"""Constants of the Aave v3 risk / liquidation logic (component `aaverisk`), pulled from the source by ast.

 -> lean/Demeter/Gen/ConstsAaverisk.lean (namespace Demeter.Gen)
"""
import ast

def _module_consts(*trees):
    """NAME -> value node for module-level and class-level `NAME = <expr>` assignments of the given modules"""
    out = {}
    for tree in trees:
        for n in tree.body:
            if isinstance(n, ast.Assign) and len(n.targets) == 1 and isinstance(n.targets[0], ast.Name):
                out.setdefault(n.targets[0].id, n.value)
            if isinstance(n, ast.ClassDef):
                for m in n.body:
                    if isinstance(m, ast.Assign) and len(m.targets) == 1 and isinstance(m.targets[0], ast.Name):
                        out.setdefault(m.targets[0].id, m.value)
    return out


def _resolve(node, consts, depth=0):
    """follow `NAME` / `Something.NAME` to the constant expression it was assigned (a literal moved into a named constant is the same
    constant: the extractor follows the name instead of insisting on the literal's position)"""
    while depth < 5:
        key = node.id if isinstance(node, ast.Name) else node.attr if isinstance(node, ast.Attribute) else None
        if key is None or key not in consts:
            return node
        node = consts[key]
        depth += 1
    return node


def _assign_in_class(tree, cls, var, consts=None):
    """value node of the first `var = <constant expression>` in any method of class `cls` (the statement may move between methods;
    assignments of computed values to the same name are skipped)"""
    for c in tree.body:
        if isinstance(c, ast.ClassDef) and c.name == cls:
            for n in ast.walk(c):
                if isinstance(n, ast.Assign) and len(n.targets) == 1 and getattr(n.targets[0], "id", "") == var:
                    v = _resolve(n.value, consts or {})
                    if isinstance(v, ast.Call) and getattr(v.func, "id", getattr(v.func, "attr", None)) == "Decimal" \
                            and len(v.args) == 1 and isinstance(v.args[0], ast.Constant):
                        return v
    return None


def register(add, parse, find_func, const_int, rat_of, ShapeError, module_assign):
    def class_const(tree, cls, name):
        for node in ast.walk(tree):
            if isinstance(node, ast.ClassDef) and node.name == cls:
                for n in node.body:
                    if isinstance(n, ast.Assign) and getattr(n.targets[0], "id", "") == name:
                        return n.value
        raise ShapeError(f"{cls}.{name} not found")

    def dec_arg(node, what):
        """the literal inside Decimal(<literal>)"""
        from gen_common import resolve
        node = resolve(node)
        if isinstance(node, ast.Call) and getattr(node.func, "id", getattr(node.func, "attr", None)) == "Decimal" \
                and len(node.args) == 1 and isinstance(node.args[0], ast.Constant):
            return node.args[0].value
        raise ShapeError(f"{what}: expected Decimal(<literal>), got {ast.dump(node)}")

    def float_expr(node):
        """evaluate a float literal expression with IEEE doubles, as CPython does at import time"""
        if isinstance(node, ast.Constant) and isinstance(node.value, (int, float)):
            return float(node.value)
        if isinstance(node, ast.BinOp):
            a, b = float_expr(node.left), float_expr(node.right)
            if isinstance(node.op, ast.Sub): return a - b
            if isinstance(node.op, ast.Add): return a + b
            if isinstance(node.op, ast.Mult): return a * b
        raise ShapeError("not a float constant expression: " + ast.dump(node))

    core = parse("demeter/aave/core.py")
    named = _module_consts(core, parse("demeter/aave/helper.py"), parse("demeter/aave/market.py"))
    for py, lean, doc in (
        ("HEALTH_FACTOR_LIQUIDATION_THRESHOLD", "arHfLiqThreshold", "health factor below which a position is liquidated / a withdrawal refused"),
        ("DEFAULT_LIQUIDATION_CLOSE_FACTOR", "arDefaultCloseFactor", "close factor when HF > CLOSE_FACTOR_HF_THRESHOLD"),
        ("MAX_LIQUIDATION_CLOSE_FACTOR", "arMaxCloseFactor", "close factor when HF <= CLOSE_FACTOR_HF_THRESHOLD"),
        ("CLOSE_FACTOR_HF_THRESHOLD", "arCloseFactorHfThreshold", "health factor separating the two close factors"),
    ):
        v = dec_arg(class_const(core, "AaveV3CoreLib", py), py)
        add(lean, "Rat", rat_of(v), f"AaveV3CoreLib.{py} = Decimal({v!r}): {doc}")

    # the 0.99 of get_max_borrow_value: `(...) * Decimal("0.99")` in the return statement
    f = find_func(core, "get_max_borrow_value", cls="AaveV3CoreLib")
    margin = None
    for n in ast.walk(f):
        if isinstance(n, ast.Return) and isinstance(n.value, ast.BinOp) and isinstance(n.value.op, ast.Mult):
            margin = dec_arg(_resolve(n.value.right, named), "get_max_borrow_value margin")
    if margin is None:
        raise ShapeError("get_max_borrow_value: `(...) * Decimal(..)` return not found")
    add("arMaxBorrowMargin", "Rat", rat_of(margin), f"the factor Decimal({margin!r}) in AaveV3CoreLib.get_max_borrow_value")

    # helper.MIN_TOKEN_VALUE: a float expression compared against Decimals in sub_base_amount
    helper = parse("demeter/aave/helper.py")
    mtv = float_expr(module_assign(helper, "MIN_TOKEN_VALUE"))
    add("arMinTokenValue", "Rat", rat_of(mtv), f"exact binary value of the float helper.MIN_TOKEN_VALUE = {mtv!r} (sub_base_amount snaps below it to 0)")
    sub = find_func(helper, "sub_base_amount")
    ok = any(isinstance(n, ast.Compare) and isinstance(n.ops[0], ast.Lt) and getattr(n.comparators[0], "id", "") == "MIN_TOKEN_VALUE"
             for n in ast.walk(sub))
    if not ok:
        raise ShapeError("sub_base_amount: `new_v < MIN_TOKEN_VALUE` not found")

    # _liquidate: start values of the two selection loops
    market = parse("demeter/aave/market.py")
    start = {}
    for var in ("min_borrow_value", "max_supply_value"):
        v = _assign_in_class(market, "AaveV3Market", var, named)      # the selection loops may live in helpers of the class
        if v is not None:
            start[var] = dec_arg(_resolve(v, named), var)
    if set(start) != {"min_borrow_value", "max_supply_value"}:
        raise ShapeError("_liquidate: start values of min_borrow_value / max_supply_value not found")
    add("arLiqDebtSentinel", "Rat", rat_of(start["min_borrow_value"]),
        f"_liquidate: min_borrow_value starts at Decimal({start['min_borrow_value']!r}) (exact binary value of the float)")
    add("arLiqCollStart", "Rat", rat_of(start["max_supply_value"]), "_liquidate: max_supply_value starts at Decimal(0)")
