#!/usr/bin/env python3
"""tools/ingest_seeds.py <outdir> <ID> [...]: copy the seeding agents' outputs <outdir>/<ID>/m<i>/{patch.diff,demo.py,meta.json} to seeded/<ID>-m<i>/;
then run tools/seed_validate.py (own confirmation: demo PASS clean / FAIL patched / baseline tests kept) and tools/seed_all.py on them."""
import glob, json, os, shutil, subprocess, sys
V = os.path.dirname(os.path.dirname(os.path.abspath(__file__)))
out, ids = sys.argv[1], sys.argv[2:]
names = []
for ID in ids:
    for d in sorted(glob.glob(os.path.join(out, ID, "m*"))):
        if not all(os.path.exists(os.path.join(d, f)) for f in ("patch.diff", "demo.py", "meta.json")):
            print("incomplete:", d); continue
        # numbering continues after the highest index already stored for this property (earlier rounds are never overwritten)
        import re
        have = [int(re.search(r"-m(\d+)$", x).group(1)) for x in glob.glob(os.path.join(V, "seeded", f"{ID}-m*"))]
        name = f"{ID}-m{max(have, default=0) + 1}"
        dst = os.path.join(V, "seeded", name)
        os.makedirs(dst, exist_ok=True)
        for f in ("patch.diff", "demo.py"):
            shutil.copy(os.path.join(d, f), dst)
        m = json.load(open(os.path.join(d, "meta.json")))
        m["breaks_property"] = ID
        m["round"] = int(os.environ.get("SEED_ROUND", "5"))
        m["confirmed"] = "by tools/seed_validate.py in a scratch worktree of /repo HEAD: demo.py PASS on the clean tree, FAIL with the patch, all 111 baseline tests still pass"
        json.dump(m, open(os.path.join(dst, "meta.json"), "w"), indent=1)
        names.append(name)
print("ingested", names)
dirs = [os.path.join(V, "seeded", n) for n in names]
subprocess.run([sys.executable, os.path.join(V, "tools", "seed_validate.py")] + dirs)
subprocess.run([sys.executable, os.path.join(V, "tools", "seed_all.py"), "-j", "3"] + names)
