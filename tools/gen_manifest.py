#!/usr/bin/env python3
"""Write MANIFEST.json from the table below (one entry per claimed property)."""
import json, os
HERE = os.path.dirname(os.path.abspath(__file__))
VERIF = os.path.dirname(HERE)
props = [json.loads(l) for l in open(os.path.join(VERIF, "properties.jsonl"))]
ids = [p["id"] for p in props]

CLAIMED = {}
def claim(pid, text, note, technique, ref):
    CLAIMED[pid] = dict(text=text, note=note, technique=technique, ref=ref)

exec(open(os.path.join(HERE, "manifest_entries.py")).read())

import re
EXES = re.findall(r'\[\[lean_exe\]\]\s*name = "([a-z_]+)"', open(os.path.join(VERIF, 'lean', 'lakefile.toml')).read())
checks = []
for pid in ids:
    if pid not in CLAIMED:
        continue
    c = CLAIMED[pid]
    checks.append({
        "property_id": pid,
        "quick_cmd": f"./check {pid} --tier quick",
        "thorough_cmd": f"./check {pid} --tier thorough",
        "evidence_file": f"evidence/{pid}.json",
        "replay_cmd_template": f"./check {pid} --replay {{path}}",
        "engine": "lean-model+harness",
        "level_claimed": {"category": "proof", "text": c["text"], "design_ref": c["ref"]},
        "level_note": c["note"],
        "technique": c["technique"],
    })
na = [{"property_id": pid, "reason": NOT_APPLICABLE.get(pid, "no check built yet in this round; the design in DESIGN.md section 2 applies and the property is not claimed until its model, theorems and correspondence harness exist")}
      for pid in ids if pid not in CLAIMED]
man = {
    "version": 1,
    "setup_cmd": "python3 tools/gen_consts.py && cd lean && lake build Demeter Proofs " + " ".join(EXES),
    "hooks": {"guard": "DEMETER_VERIF", "enable": "checks export DEMETER_VERIF=1; no source hook is needed so far (all observations are reachable from the harness)",
              "baseline_off_cmd": "python3 tools/baseline.py", "source_commits": [], "add_only": True},
    "engines": [
        {"name": "lean-model", "path": "lean/", "serves_properties": sorted(CLAIMED), "kind_free_text": "Lean 4 executable model (Demeter/), theorems (Proofs/), compiled line-protocol driver (Driver.lean); constants regenerated from /repo by tools/gen_consts.py on every run"},
        {"name": "harness", "path": "harness/", "serves_properties": sorted(CLAIMED), "kind_free_text": "Python differential execution of the real demeter code against the driver + property oracle on the implementation's own observations + failing-input search"},
    ],
    "checks": checks,
    "not_applicable": na,
    "notes": "Every check: regenerate constants from /repo, lake build the property's proofs + driver, audit axioms, run the correspondence/oracle harness on the working tree. See DESIGN.md.",
}
json.dump(man, open(os.path.join(VERIF, "MANIFEST.json"), "w"), indent=1)
print("MANIFEST.json:", len(checks), "claimed,", len(na), "not claimed")
