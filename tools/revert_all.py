#!/usr/bin/env python3
"""tools/revert_all.py [-j N]: for every "fixed:" line of known_findings.jsonl re-introduce the repaired defect (reverse patch of the
fix commit on a scratch worktree, tools/reverttest.sh) and run the property's quick check against it.  Writes reports/revert_table.md:
a fix whose return is not reported is a gap of that check (or the reverse patch no longer applies because later fixes touched the lines)."""
import os, re, subprocess, sys
from concurrent.futures import ThreadPoolExecutor
V = os.path.dirname(os.path.dirname(os.path.abspath(__file__)))
J = int(sys.argv[sys.argv.index("-j") + 1]) if "-j" in sys.argv else 4
items = []
for l in open(os.path.join(V, "known_findings.jsonl")):
    m = re.match(r"fixed: property=(C\d+)((?:,C\d+)*) ([0-9a-f]{7,})\s+(.*)", l)
    if m:
        props = [m.group(1)] + [p for p in m.group(2).split(",") if p]
        items.append((m.group(3), props, m.group(4)[:140]))
only = [a for a in sys.argv[1:] if re.fullmatch(r"[0-9a-f]{7,}", a)]
if only:
    items = [i for i in items if i[0] in only]

def one(it):
    c, props, what = it
    p = subprocess.run(["sh", os.path.join(V, "tools", "reverttest.sh"), c] + props, capture_output=True, text=True)
    out = "\n".join(l for l in (p.stdout + p.stderr).split("\n") if "conda" not in l)
    if "does not apply" in out:
        v = "reverse patch no longer applies"
    else:
        n = sum(int(x) for x in re.findall(r"(\d+) VIOLATION line", out))
        v = "caught" if n else "**not caught**"
    print(c, ",".join(props), v, flush=True)
    return c, props, what, v, out

with ThreadPoolExecutor(J) as ex:
    res = list(ex.map(one, items))
os.makedirs(os.path.join(V, "reports"), exist_ok=True)
with open(os.path.join(V, "reports", "revert_table.md"), "w") as f:
    f.write("| fix commit | property | defect | quick check on the reverted fix |\n|---|---|---|---|\n")
    for c, props, what, v, out in res:
        f.write(f"| {c} | {','.join(props)} | {what.replace('|', '/')} | {v} |\n")
print(sum(1 for r in res if r[3] == "caught"), "of", len(res), "caught")
