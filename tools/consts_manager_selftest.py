#!/usr/bin/env python3
"""tools/consts_manager_selftest.py: the failure-handling extractor of consts_manager.py on textual variants of
<repo>/demeter/core/backtest.py (nothing is written, nothing is imported from the repo).  Each variant is a small edit of the current
source — the code before the repair, handlers that re-raise / break / catch too little, the loop body or the whole branch moved into
a helper, `.get()` instead of `.wait()` on either pooled branch — with the flags (in-process loop catches, forked pool waits,
Windows pool waits) the extractor must answer, or ShapeError where it must refuse to guess.  Exit 0 iff all answers are as expected."""
import ast, os, sys, importlib.util
HERE = os.path.dirname(os.path.abspath(__file__))
sys.path.insert(0, HERE)
from gen_common import ShapeError, find_func, REPO
spec = importlib.util.spec_from_file_location("cm", os.path.join(HERE, "consts_manager.py"))
cm = importlib.util.module_from_spec(spec); spec.loader.exec_module(cm)
SRC = open(os.path.join(REPO, "demeter/core/backtest.py")).read()

def flags(src):
    out = {}
    try:
        cm._failure_flags(lambda n, t, v, c="": out.__setitem__(n, v), ast.parse(src), find_func, ShapeError)
    except ShapeError as e:
        return "ShapeError"
    return "".join("T" if out[k] == "true" else "F" for k in ("managerCatchesInProcessFailure", "managerForkPoolWaitsForTasks", "managerArgsPoolWaitsForTasks"))

LOOP = '''                try:
                    _start_with_param_data(self.config, self.data, strategy, self.backtest_config)
                except Exception as e:
                    e_callback(e)
'''
if LOOP not in SRC or SRC.count("                    [x.wait() for x in tasks]\n") != 2:
    print("consts_manager_selftest: the text of backtest.py is not the one these variants are edits of (not a failure of the extractor)")
    sys.exit(2)
def loop(new): return SRC.replace(LOOP, new)
WAIT = "                    [x.wait() for x in tasks]\n"
def nth(src, old, new, n):
    parts = src.split(old)
    return old.join(parts[:n+1]) + new + old.join(parts[n+1:])

cases = {
 "current": SRC,
 "old loop": loop("                actuator = _start_with_param_data(self.config, self.data, strategy, self.backtest_config)\n                e_callback(actuator)\n"),
 "reraise": loop(LOOP + "                    raise\n"),
 "only ValueError": loop(LOOP.replace("except Exception", "except ValueError")),
 "tuple with Exception": loop(LOOP.replace("except Exception", "except (ValueError, Exception)")),
 "bare except": loop(LOOP.replace("except Exception as e", "except").replace("e_callback(e)", "pass")),
 "BaseException": loop(LOOP.replace("except Exception", "except BaseException")),
 "handler breaks": loop(LOOP + "                    break\n"),
 "handler returns": loop(LOOP + "                    return\n"),
 "specific reraise first": loop(LOOP.replace("                except Exception as e:", "                except KeyError:\n                    raise\n                except Exception as e:")),
 "call in else": loop("                try:\n                    pass\n                except Exception as e:\n                    e_callback(e)\n                else:\n                    _start_with_param_data(self.config, self.data, strategy, self.backtest_config)\n"),
 "finally raises": loop(LOOP + "                finally:\n                    raise RuntimeError()\n"),
 "helper with try": loop("                self._run_one(strategy)\n").replace("    def run(self):", "    def _run_one(self, strategy):\n        try:\n            return _start_with_param_data(self.config, self.data, strategy, self.backtest_config)\n        except Exception as e:\n            e_callback(e)\n\n    def run(self):"),
 "helper without try": loop("                self._run_one(strategy)\n").replace("    def run(self):", "    def _run_one(self, strategy):\n        return _start_with_param_data(self.config, self.data, strategy, self.backtest_config)\n\n    def run(self):"),
 "try around helper": loop("                try:\n                    self._run_one(strategy)\n                except Exception as e:\n                    e_callback(e)\n").replace("    def run(self):", "    def _run_one(self, strategy):\n        if strategy is None:\n            raise ValueError()\n        return _start_with_param_data(self.config, self.data, strategy, self.backtest_config)\n\n    def run(self):"),
 "module helper": loop("                _guarded(self.config, self.data, strategy, self.backtest_config)\n").replace("def e_callback(e):", "def _guarded(c, d, s, b):\n    try:\n        _start_with_param_data(c, d, s, b)\n    except Exception as e:\n        e_callback(e)\n\n\ndef e_callback(e):"),
 "branch in helper": SRC.replace("            for strategy in self.strategies:\n                # A backtest that fails must not keep the strategies after it from running: report the failure the way\n                # the pooled path does (its error callback) and go on with the next strategy.\n" + LOOP, "            self._in_process()\n").replace("    def run(self):", "    def _in_process(self):\n        for strategy in self.strategies:\n            try:\n                _start_with_param_data(self.config, self.data, strategy, self.backtest_config)\n            except Exception as e:\n                e_callback(e)\n\n    def run(self):"),
 "raise outside guard": loop("                if strategy is None:\n                    raise ValueError()\n" + LOOP),
 "while loop": loop("                pass\n").replace("            for strategy in self.strategies:\n                # A backtest", "            it = iter(self.strategies)\n            while True:\n                # A backtest"),
 "direct _start": loop(LOOP.replace("_start_with_param_data(", "_start(")),
 "get fork": nth(SRC, WAIT, WAIT.replace("wait", "get"), 1),
 "get windows": nth(SRC, WAIT, WAIT.replace("wait", "get"), 0),
 "get both": SRC.replace(WAIT, WAIT.replace("wait", "get")),
 "get loop": nth(SRC, WAIT, "                    for t in tasks:\n                        t.get()\n", 1),
 "get guarded": nth(SRC, WAIT, "                    for t in tasks:\n                        try:\n                            t.get()\n                        except Exception:\n                            pass\n", 1),
 "get timeout": nth(SRC, WAIT, "                    [x.get(timeout=100) for x in tasks]\n", 1),
 "wait then get": nth(SRC, WAIT, WAIT + "                    [x.get() for x in tasks]\n", 1),
 "close join": nth(SRC, WAIT, "                    pool.close()\n                    pool.join()\n", 1),
 "no collection": nth(SRC, WAIT, "                    pass\n", 1),
 "result1.get in loop": SRC.replace("                        tasks.append(result1)\n", "                        tasks.append(result1)\n                        result1.get()\n", 1),
}
EXPECT = {
 "current": "TTT", "old loop": "FTT", "reraise": "FTT", "only ValueError": "FTT", "tuple with Exception": "TTT", "bare except": "TTT",
 "BaseException": "TTT", "handler breaks": "FTT", "handler returns": "FTT", "specific reraise first": "FTT", "call in else": "FTT",
 "finally raises": "FTT", "helper with try": "TTT", "helper without try": "FTT", "try around helper": "TTT", "module helper": "TTT",
 "branch in helper": "TTT", "raise outside guard": "ShapeError", "while loop": "ShapeError", "direct _start": "TTT",
 "get fork": "TFT", "get windows": "TTF", "get both": "TFF", "get loop": "TFT", "get guarded": "TTT", "get timeout": "TFT",
 "wait then get": "TFT", "close join": "TTT", "no collection": "ShapeError", "result1.get in loop": "TTF",
}
bad = 0
for k, v in cases.items():
    ast.parse(v)
    assert k == "current" or v != SRC, k
    got = flags(v)
    ok = got == EXPECT[k]
    bad += not ok
    print(f"{'ok ' if ok else 'BAD'} {k:26s} {got}" + ("" if ok else f"   expected {EXPECT[k]}"))
print(f"consts_manager_selftest: {len(cases) - bad}/{len(cases)} as expected")
sys.exit(1 if bad else 0)
