#!/usr/bin/env python3
"""tools/consts_manager_selftest.py: the failure-handling extractor and the copy-flag extractor of consts_manager.py on textual variants of
<repo>/demeter/core/backtest.py (nothing is written, nothing is imported from the repo).  Each variant is a small edit of the current
source — the code before the repair, handlers that re-raise / break / catch too little, the loop body or the whole branch moved into
a helper, `.get()` instead of `.wait()` on either pooled branch — with the flags (in-process loop catches, forked pool waits,
Windows pool waits) the extractor must answer, or ShapeError where it must refuse to guess.  Exit 0 iff all answers are as expected."""
import ast, os, sys, importlib.util
HERE = os.path.dirname(os.path.abspath(__file__))
sys.path.insert(0, HERE)
from gen_common import ShapeError, find_func, REPO
spec = importlib.util.spec_from_file_location("cm", os.path.join(HERE, "consts_manager.py"))
cm = importlib.util.module_from_spec(spec); spec.loader.exec_module(cm)
SRC = open(os.path.join(REPO, "demeter/core/backtest.py")).read()

def flags(src):
    out = {}
    try:
        cm._failure_flags(lambda n, t, v, c="": out.__setitem__(n, v), ast.parse(src), find_func, ShapeError)
    except ShapeError as e:
        return "ShapeError"
    return "".join("T" if out[k] == "true" else "F" for k in ("managerCatchesInProcessFailure", "managerForkPoolWaitsForTasks", "managerArgsPoolWaitsForTasks"))

LOOP = '''                try:
                    _start_with_param_data(self.config, self.data, strategy, self.backtest_config)
                except Exception as e:
                    e_callback(e)
'''
if LOOP not in SRC or SRC.count("                    [x.wait() for x in tasks]\n") != 2:
    print("consts_manager_selftest: the text of backtest.py is not the one these variants are edits of (not a failure of the extractor)")
    sys.exit(2)
def loop(new): return SRC.replace(LOOP, new)
WAIT = "                    [x.wait() for x in tasks]\n"
def nth(src, old, new, n):
    parts = src.split(old)
    return old.join(parts[:n+1]) + new + old.join(parts[n+1:])

cases = {
 "current": SRC,
 "old loop": loop("                actuator = _start_with_param_data(self.config, self.data, strategy, self.backtest_config)\n                e_callback(actuator)\n"),
 "reraise": loop(LOOP + "                    raise\n"),
 "only ValueError": loop(LOOP.replace("except Exception", "except ValueError")),
 "tuple with Exception": loop(LOOP.replace("except Exception", "except (ValueError, Exception)")),
 "bare except": loop(LOOP.replace("except Exception as e", "except").replace("e_callback(e)", "pass")),
 "BaseException": loop(LOOP.replace("except Exception", "except BaseException")),
 "handler breaks": loop(LOOP + "                    break\n"),
 "handler returns": loop(LOOP + "                    return\n"),
 "specific reraise first": loop(LOOP.replace("                except Exception as e:", "                except KeyError:\n                    raise\n                except Exception as e:")),
 "call in else": loop("                try:\n                    pass\n                except Exception as e:\n                    e_callback(e)\n                else:\n                    _start_with_param_data(self.config, self.data, strategy, self.backtest_config)\n"),
 "finally raises": loop(LOOP + "                finally:\n                    raise RuntimeError()\n"),
 "helper with try": loop("                self._run_one(strategy)\n").replace("    def run(self):", "    def _run_one(self, strategy):\n        try:\n            return _start_with_param_data(self.config, self.data, strategy, self.backtest_config)\n        except Exception as e:\n            e_callback(e)\n\n    def run(self):"),
 "helper without try": loop("                self._run_one(strategy)\n").replace("    def run(self):", "    def _run_one(self, strategy):\n        return _start_with_param_data(self.config, self.data, strategy, self.backtest_config)\n\n    def run(self):"),
 "try around helper": loop("                try:\n                    self._run_one(strategy)\n                except Exception as e:\n                    e_callback(e)\n").replace("    def run(self):", "    def _run_one(self, strategy):\n        if strategy is None:\n            raise ValueError()\n        return _start_with_param_data(self.config, self.data, strategy, self.backtest_config)\n\n    def run(self):"),
 "module helper": loop("                _guarded(self.config, self.data, strategy, self.backtest_config)\n").replace("def e_callback(e):", "def _guarded(c, d, s, b):\n    try:\n        _start_with_param_data(c, d, s, b)\n    except Exception as e:\n        e_callback(e)\n\n\ndef e_callback(e):"),
 "branch in helper": SRC.replace("            for strategy in self.strategies:\n                # A backtest that fails must not keep the strategies after it from running: report the failure the way\n                # the pooled path does (its error callback) and go on with the next strategy.\n" + LOOP, "            self._in_process()\n").replace("    def run(self):", "    def _in_process(self):\n        for strategy in self.strategies:\n            try:\n                _start_with_param_data(self.config, self.data, strategy, self.backtest_config)\n            except Exception as e:\n                e_callback(e)\n\n    def run(self):"),
 "raise outside guard": loop("                if strategy is None:\n                    raise ValueError()\n" + LOOP),
 "while loop": loop("                pass\n").replace("            for strategy in self.strategies:\n                # A backtest", "            it = iter(self.strategies)\n            while True:\n                # A backtest"),
 "direct _start": loop(LOOP.replace("_start_with_param_data(", "_start(")),
 "get fork": nth(SRC, WAIT, WAIT.replace("wait", "get"), 1),
 "get windows": nth(SRC, WAIT, WAIT.replace("wait", "get"), 0),
 "get both": SRC.replace(WAIT, WAIT.replace("wait", "get")),
 "get loop": nth(SRC, WAIT, "                    for t in tasks:\n                        t.get()\n", 1),
 "get guarded": nth(SRC, WAIT, "                    for t in tasks:\n                        try:\n                            t.get()\n                        except Exception:\n                            pass\n", 1),
 "get timeout": nth(SRC, WAIT, "                    [x.get(timeout=100) for x in tasks]\n", 1),
 "wait then get": nth(SRC, WAIT, WAIT + "                    [x.get() for x in tasks]\n", 1),
 "close join": nth(SRC, WAIT, "                    pool.close()\n                    pool.join()\n", 1),
 "no collection": nth(SRC, WAIT, "                    pass\n", 1),
 "result1.get in loop": SRC.replace("                        tasks.append(result1)\n", "                        tasks.append(result1)\n                        result1.get()\n", 1),
}
EXPECT = {
 "current": "TTT", "old loop": "FTT", "reraise": "FTT", "only ValueError": "FTT", "tuple with Exception": "TTT", "bare except": "TTT",
 "BaseException": "TTT", "handler breaks": "FTT", "handler returns": "FTT", "specific reraise first": "FTT", "call in else": "FTT",
 "finally raises": "FTT", "helper with try": "TTT", "helper without try": "FTT", "try around helper": "TTT", "module helper": "TTT",
 "branch in helper": "TTT", "raise outside guard": "ShapeError", "while loop": "ShapeError", "direct _start": "TTT",
 "get fork": "TFT", "get windows": "TTF", "get both": "TFF", "get loop": "TFT", "get guarded": "TTT", "get timeout": "TFT",
 "wait then get": "TFT", "close join": "TTT", "no collection": "ShapeError", "result1.get in loop": "TTF",
}
bad = 0
for k, v in cases.items():
    ast.parse(v)
    assert k == "current" or v != SRC, k
    got = flags(v)
    ok = got == EXPECT[k]
    bad += not ok
    print(f"{'ok ' if ok else 'BAD'} {k:26s} {got}" + ("" if ok else f"   expected {EXPECT[k]}"))

# ---- the copy flags (review finding F-7): managerMarketsCopy (digit), then managerSeqIfOneStrategyOrOneThread, managerDataView,
#      managerCellsCopied (T/F), or ShapeError.  A variant that copies less than the current source (a narrowed / disabled guard, a loop
#      over one column, a memoised helper, a second write to the market's frame, another object attached than the copy, an in-process
#      branch that runs nothing) must never answer what the current source answers ("2TTT").
from gen_common import parse, const_int, rat_of

def cflags(src):
    out = {}
    tree = ast.parse(src)
    try:
        cm._copy_flags(lambda n, t, v, c="": out.__setitem__(n, v), lambda rel: tree if rel == "demeter/core/backtest.py" else parse(rel),
                       find_func, const_int, rat_of, ShapeError, None)
    except ShapeError as e:
        return "ShapeError"
    return out["managerMarketsCopy"] + "".join("T" if out[k] == "true" else "F" for k in ("managerSeqIfOneStrategyOrOneThread", "managerDataView", "managerCellsCopied"))

GUARD = "if cells.dtype == object and cells.map(lambda cell: isinstance(cell, (list, dict, set))).any():"
RANGE = "for position in range(frame.shape[1]):"
OWN = "def _own_frame(shared: pd.DataFrame) -> pd.DataFrame:\n"
ASSIGN = "        market.data = _own_frame(data.data[market.market_info])\n"
ADD = "        actuator.broker.add_market(market)\n"
MLOOP = "    for market in copy.deepcopy(config.markets):\n"
SEQ = "            for strategy in self.strategies:\n                # A backtest that fails must not keep the strategies after it from running: report the failure the way\n                # the pooled path does (its error callback) and go on with the next strategy.\n" + LOOP
for text in (GUARD, RANGE, OWN, ASSIGN, ADD, MLOOP, SEQ):
    if SRC.count(text) != 1:
        print("consts_manager_selftest: the text of backtest.py is not the one these variants are edits of (not a failure of the extractor): " + text[:60])
        sys.exit(2)
def sub(old, new, src=SRC): return src.replace(old, new)
IN_PROCESS = "    def _in_process(self):\n        for strategy in self.strategies:\n            try:\n                _start_with_param_data(self.config, self.data, strategy, self.backtest_config)\n            except Exception as e:\n                e_callback(e)\n\n    def run(self):"

ccases = {
 "current": SRC,
 # F-7, the seven variants of the review
 "guard narrowed": sub(GUARD, "if isinstance(cells.iloc[0], list):"),
 "guard if False and": sub(GUARD, GUARD.replace("if ", "if False and ", 1)),
 "range(1)": sub(RANGE, "for position in range(1):"),
 "lru_cache on _own_frame": sub(OWN, "@functools.lru_cache(maxsize=None)\n" + OWN).replace("import copy\n", "import copy\nimport functools\n", 1),
 "cache on _own_frame": sub(OWN, "@functools.cache\n" + OWN).replace("import copy\n", "import copy\nimport functools\n", 1),
 "market._data after": sub(ASSIGN, ASSIGN + "        market._data = data.data[market.market_info]\n"),
 "market rebound before add": sub(ADD, "        market = config.markets[0]\n" + ADD),
 "seq branch pass": sub(SEQ, "            pass\n"),
 # their neighbours
 "guard or-ed away": sub(GUARD, GUARD.replace(".any():", ".any() and False:")),
 "guard without dtype": sub(GUARD, "if cells.map(lambda cell: isinstance(cell, (list, dict, set))).any():"),
 "guard only lists": sub(GUARD, GUARD.replace("(list, dict, set)", "(list,)")),
 "guard all()": sub(GUARD, GUARD.replace(".any()", ".all()")),
 "range minus one": sub(RANGE, "for position in range(frame.shape[1] - 1):"),
 "range(shape[0])": sub(RANGE, "for position in range(frame.shape[0]):"),
 "continue first": sub(RANGE, RANGE + "\n        continue"),
 "break after": sub("            frame.isetitem(position, cells.map(copy.deepcopy))\n", "            frame.isetitem(position, cells.map(copy.deepcopy))\n        break\n"),
 "isetitem(0, …)": sub("frame.isetitem(position, ", "frame.isetitem(0, "),
 "cells of column 0": sub("cells = frame.iloc[:, position]", "cells = frame.iloc[:, 0]"),
 "map(copy.copy)": sub("cells.map(copy.deepcopy)", "cells.map(copy.copy)"),
 "frame rebound": sub("    return frame\n", "    frame = shared\n    return frame\n"),
 "early return shared": sub("    frame = shared.copy(deep=False)\n", "    if len(shared) > 0:\n        return shared\n    frame = shared.copy(deep=False)\n"),
 "copy shadowed": sub("def e_callback(e):", "class copy:\n    deepcopy = staticmethod(lambda x: x)\n\n\ndef e_callback(e):"),
 "_own_frame redefined": sub("def e_callback(e):", "def _own_frame(shared):\n    return shared\n\n\ndef e_callback(e):"),
 "_own_frame reassigned": sub("def e_callback(e):", "_own_frame = lambda shared: shared\n\n\ndef e_callback(e):"),
 "decorated _start": sub("def _start(config", "@functools.cache\ndef _start(config"),
 "decorated param wrapper": sub("def _start_with_param_data(", "@functools.cache\ndef _start_with_param_data("),
 "decorated global wrapper": sub("def _start_with_global_data(", "@functools.cache\ndef _start_with_global_data("),
 "wrapper passes other data": sub("    return _start(config, data, strategy, bk_config)\n", "    return _start(config, global_data, strategy, bk_config)\n"),
 "market.data augmented": sub(ASSIGN, ASSIGN + "        market.data += data.data[market.market_info]\n"),
 "setattr data": sub(ASSIGN, ASSIGN + "        setattr(market, 'data', data.data[market.market_info])\n"),
 "setattr _data by alias": sub(ASSIGN, ASSIGN + "        frames = data\n        setattr(market, '_data', frames.data[market.market_info])\n"),
 "alias ._data": sub(ASSIGN, ASSIGN + "        m2 = market\n        m2._data = data.data[m2.market_info]\n"),
 "second target": sub(ASSIGN, ASSIGN.replace("market.data = ", "market.data = market._data = ")),
 "assign under if False": sub(ASSIGN, "        if False:\n    " + ASSIGN),
 "shared frame to a setter": sub(ASSIGN, ASSIGN + "        market.set_data(data.data[market.market_info])\n"),
 "loop variable rebound (walrus)": sub(ADD, "        (market := config.markets[0])\n" + ADD),
 "loop variable rebound (inner for)": sub(ADD, "        for market in config.markets:\n            break\n" + ADD),
 "loop variable rebound (tuple)": sub(ADD, "        market, _ = config.markets[0], None\n" + ADD),
 "rebound after add": sub(ADD, ADD + "        market = config.markets[0]\n"),
 "mode 2 then per-market deepcopy after add": sub(ADD, ADD + "        market = copy.deepcopy(market)\n"),
 "second add_market": sub(ADD, ADD + "        actuator.broker.add_market(config.markets[0])\n"),
 "seq branch without the call": sub(LOOP, "                pass\n"),
 "seq branch under if False": sub(LOOP, "                if False:\n    " + LOOP.replace("\n        ", "\n            ")),
 "seq branch other data": sub(LOOP, LOOP.replace("self.data", "None")),
 "seq branch first strategy only": sub(LOOP, LOOP.replace("strategy, self", "self.strategies[0], self")),
 "seq branch global data": sub(LOOP, LOOP.replace("_start_with_param_data(self.config, self.data, ", "_start_with_global_data(self.config, ")),
 "seq branch loop over a slice": sub("            for strategy in self.strategies:\n                # A backtest", "            for strategy in self.strategies[:1]:\n                # A backtest"),
 "seq test widened": sub("elif len(self.strategies) == 1 or self.threads == 1:", "elif len(self.strategies) >= 1 or self.threads == 1:"),
 "seq test on another length": sub("elif len(self.strategies) == 1 or self.threads == 1:", "elif len(self.strategies) - 1 == 1 or self.threads == 1:"),
 "seq test and-ed": sub("elif len(self.strategies) == 1 or self.threads == 1:", "elif len(self.strategies) == 1 and self.threads == 1:"),
 "loop moved out of the branch": sub(SEQ, "            pass\n").replace("        start_time = time.time()", "        self._in_process()\n        start_time = time.time()").replace("    def run(self):", IN_PROCESS),
 # shapes that copy as much as today, or less in a way the flags name: answered, not refused
 "renamed variables": sub("position", "k").replace("cells", "col").replace("lambda cell:", "lambda x:").replace("isinstance(cell,", "isinstance(x,").replace("frame", "own"),
 "from copy import deepcopy": sub("cells.map(copy.deepcopy)", "cells.map(deepcopy)").replace("import copy\n", "import copy\nfrom copy import deepcopy\n", 1),
 "copy(deep=True)": sub("shared.copy(deep=False)", "shared.copy(deep=True)"),
 "no cell copy": sub("    " + RANGE + "\n        cells = frame.iloc[:, position]\n        " + GUARD + "\n            frame.isetitem(position, cells.map(copy.deepcopy))\n", ""),
 "inline copy": sub(ASSIGN, ASSIGN.replace("_own_frame(data.data[market.market_info])", "data.data[market.market_info].copy(deep=False)")),
 "shared frame itself": sub(ASSIGN, ASSIGN.replace("_own_frame(data.data[market.market_info])", "data.data[market.market_info]")),
 "helper returns its argument": sub("    return frame\n", "    return shared\n"),
 "markets themselves": sub(MLOOP, "    for market in config.markets:\n"),
 "deepcopy per market": sub(MLOOP, "    for market in config.markets:\n        market = copy.deepcopy(market)\n"),
 "deepcopy kept under a name": sub(MLOOP, "    markets = copy.deepcopy(config.markets)\n    for market in markets:\n"),
 "deepcopy name rebound": sub(MLOOP, "    markets = copy.deepcopy(config.markets)\n    markets = config.markets\n    for market in markets:\n"),
 "seq branch in a method": sub(SEQ, "            self._in_process()\n").replace("    def run(self):", IN_PROCESS),
 "seq call in a method": sub(LOOP, "                self._run_one(strategy)\n").replace("    def run(self):", "    def _run_one(self, strategy):\n        try:\n            return _start_with_param_data(self.config, self.data, strategy, self.backtest_config)\n        except Exception as e:\n            e_callback(e)\n\n    def run(self):"),
 "seq call in a module function": sub(LOOP, "                _guarded(self.config, self.data, strategy, self.backtest_config)\n").replace("def e_callback(e):", "def _guarded(c, d, s, b):\n    try:\n        _start_with_param_data(c, d, s, b)\n    except Exception as e:\n        e_callback(e)\n\n\ndef e_callback(e):"),
 "seq module function swaps arguments": sub(LOOP, "                _guarded(self.config, self.data, strategy, self.backtest_config)\n").replace("def e_callback(e):", "def _guarded(c, d, s, b):\n    try:\n        _start_with_param_data(c, s, d, b)\n    except Exception as e:\n        e_callback(e)\n\n\ndef e_callback(e):"),
 "seq direct _start": sub(LOOP, LOOP.replace("_start_with_param_data(", "_start(")),
}
CEXPECT = {
 "current": "2TTT",
 "guard narrowed": "ShapeError", "guard if False and": "ShapeError", "range(1)": "ShapeError", "lru_cache on _own_frame": "ShapeError",
 "cache on _own_frame": "ShapeError", "market._data after": "ShapeError", "market rebound before add": "ShapeError", "seq branch pass": "2FTT",
 "guard or-ed away": "ShapeError", "guard without dtype": "ShapeError", "guard only lists": "ShapeError", "guard all()": "ShapeError",
 "range minus one": "ShapeError", "range(shape[0])": "ShapeError", "continue first": "ShapeError", "break after": "ShapeError",
 "isetitem(0, …)": "ShapeError", "cells of column 0": "ShapeError", "map(copy.copy)": "ShapeError", "frame rebound": "ShapeError",
 "early return shared": "ShapeError", "copy shadowed": "ShapeError", "_own_frame redefined": "ShapeError", "_own_frame reassigned": "ShapeError",
 "decorated _start": "ShapeError", "decorated param wrapper": "ShapeError", "decorated global wrapper": "ShapeError",
 "wrapper passes other data": "ShapeError", "market.data augmented": "ShapeError", "setattr data": "ShapeError",
 "setattr _data by alias": "ShapeError", "alias ._data": "ShapeError", "second target": "ShapeError", "assign under if False": "ShapeError",
 "shared frame to a setter": "ShapeError", "loop variable rebound (walrus)": "ShapeError", "loop variable rebound (inner for)": "ShapeError",
 "loop variable rebound (tuple)": "ShapeError", "rebound after add": "ShapeError", "mode 2 then per-market deepcopy after add": "ShapeError",
 "second add_market": "ShapeError", "seq branch without the call": "2FTT", "seq branch under if False": "2FTT", "seq branch other data": "2FTT",
 "seq branch first strategy only": "2FTT", "seq branch global data": "2FTT", "seq branch loop over a slice": "2FTT", "seq test widened": "2FTT",
 "seq test on another length": "2FTT", "seq test and-ed": "2FTT", "loop moved out of the branch": "2FTT",
 "renamed variables": "2TTT", "from copy import deepcopy": "2TTT", "copy(deep=True)": "2TTT", "no cell copy": "2TTF", "inline copy": "2TTF",
 "shared frame itself": "2TFF", "helper returns its argument": "2TFF", "markets themselves": "0TTT", "deepcopy per market": "1TTT",
 "deepcopy kept under a name": "2TTT", "deepcopy name rebound": "ShapeError", "seq branch in a method": "2TTT", "seq call in a method": "2TTT",
 "seq call in a module function": "2TTT", "seq module function swaps arguments": "2FTT", "seq direct _start": "2TTT",
}
F7 = ("guard narrowed", "guard if False and", "range(1)", "lru_cache on _own_frame", "cache on _own_frame", "market._data after",
      "market rebound before add", "seq branch pass")
cbad = 0
for k, v in ccases.items():
    ast.parse(v)
    assert k == "current" or v != SRC, k
    got = cflags(v)
    ok = got == CEXPECT[k] and not (k in F7 and got == "2TTT")
    cbad += not ok
    print(f"{'ok ' if ok else 'BAD'} {k:42s} {got}" + ("" if ok else f"   expected {CEXPECT[k]}"))
# the in-process branch that runs nothing is refused by the failure flags as well (no in-process loop to judge)
got = flags(ccases["seq branch pass"])
ok = got == "ShapeError"
cbad += not ok
print(f"{'ok ' if ok else 'BAD'} {'seq branch pass (failure flags)':42s} {got}" + ("" if ok else "   expected ShapeError"))
# process-wide state: the Snapshot class must hold no object shared by its instances (variants of broker/_typing.py)
TSRC = open(os.path.join(REPO, "demeter/broker/_typing.py")).read()
FIELD = "    market_status: MarketDict[Union[pd.Series, pd.DataFrame]] = field(default_factory=MarketDict)"
if TSRC.count(FIELD) != 1:
    print("consts_manager_selftest: the text of broker/_typing.py is not the one these variants are edits of (not a failure of the extractor)")
    sys.exit(2)
def snap(src):
    try:
        return "T" if cm.snapshot_fields_private(ast.parse(src), ShapeError) else "F"
    except ShapeError:
        return "ShapeError"
ANN = "    market_status: MarketDict[Union[pd.Series, pd.DataFrame]]"
scases = {
 "current": (TSRC, "T"),
 "class-level MarketDict()": (TSRC.replace(FIELD, ANN + " = MarketDict()"), "F"),
 "class-level dict display": (TSRC.replace(FIELD, ANN + " = {}"), "F"),
 "field(default=MarketDict())": (TSRC.replace(FIELD, ANN + " = field(default=MarketDict())"), "F"),
 "default taken from a module-level object": (TSRC.replace(FIELD, ANN + " = _SHARED_STATUS"), "F"),
 "factory returning a module-level object is not judged here, a cache attribute is": (TSRC.replace(FIELD, FIELD + "\n    _last = MarketDict()"), "ShapeError"),
 "extra annotated class-level cache": (TSRC.replace(FIELD, FIELD + "\n    last_status: dict = dict()"), "F"),
 "no default": (TSRC.replace(FIELD, ANN), "T"),
 "not a dataclass any more": (TSRC.replace("@dataclass\nclass Snapshot:", "class Snapshot:"), "ShapeError"),
}
sbad = 0
for k, (v, want) in scases.items():
    ast.parse(v)
    assert k == "current" or v != TSRC, k
    got = snap(v)
    sbad += got != want
    print(f"{'ok ' if got == want else 'BAD'} snapshot: {k:60s} {got}" + ("" if got == want else f"   expected {want}"))
n, nbad = len(cases) + len(ccases) + 1 + len(scases), bad + cbad + sbad
print(f"consts_manager_selftest: {n - nbad}/{n} as expected ({len(cases) - bad}/{len(cases)} failure-handling variants, {len(ccases) + 1 - cbad}/{len(ccases) + 1} copy-flag variants, "
      f"{len(scases) - sbad}/{len(scases)} snapshot-field variants)")
sys.exit(1 if nbad else 0)
