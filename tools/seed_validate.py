#!/usr/bin/env python3
"""tools/seed_validate.py [seed-dir ...]: re-validate seeded changes against /repo's current HEAD.
For each seeded/<ID>-m<i>: scratch worktree of /repo HEAD; demo.py must print PASS on it; the patch must apply; demo.py must
FAIL with it; every baseline test that passes on the clean tree must still pass with it.  Writes the verdict into
meta.json ("validated_at": <repo HEAD>, "valid": true/false, "invalid_reason").  Scratch under /var/tmp, removed afterwards."""
import json, os, subprocess, sys, shutil, glob
from concurrent.futures import ThreadPoolExecutor
V = os.path.dirname(os.path.dirname(os.path.abspath(__file__)))
HEAD = subprocess.run(["git", "-C", "/repo", "rev-parse", "--short", "HEAD"], capture_output=True, text=True).stdout.strip()
PYTEST = ["/venv/bin/python", "-m", "pytest", "-q", "-p", "no:cacheprovider", "--timeout=900", "--continue-on-collection-errors", "-rA"]

def sh(cmd, cwd, timeout=1800):
    p = subprocess.run(cmd, cwd=cwd, capture_output=True, text=True, timeout=timeout, env=dict(os.environ, PYTHONDONTWRITEBYTECODE="1"))
    return p.returncode, p.stdout + p.stderr

def passed(wt):
    rc, out = sh(PYTEST, wt)
    return sorted(l for l in out.split("\n") if l.startswith("PASSED"))

CLEAN = None
def one(d):
    name = os.path.basename(d.rstrip("/"))
    wt = f"/var/tmp/sv.{os.getpid()}.{name}"
    subprocess.run(["git", "-C", "/repo", "worktree", "add", "-q", "--detach", wt, "HEAD"], check=True)
    try:
        shutil.copy(os.path.join(d, "demo.py"), os.path.join(wt, "demo.py"))
        rc0, o0 = sh(["/venv/bin/python", "demo.py"], wt)
        rca, oa = sh(["git", "apply", os.path.join(d, "patch.diff")], wt)
        if rca != 0:
            rca, oa = sh(["git", "apply", "--3way", os.path.join(d, "patch.diff")], wt)
        if rca != 0:
            return name, False, "patch does not apply to HEAD"
        rc1, o1 = sh(["/venv/bin/python", "demo.py"], wt)
        if rc0 != 0 or "PASS" not in o0:
            return name, False, "demo does not PASS on the clean HEAD: " + o0[-300:]
        if rc1 == 0:
            return name, False, "demo does not FAIL with the patch on HEAD"
        os.remove(os.path.join(wt, "demo.py"))
        p = passed(wt)
        lost = [t for t in CLEAN if t not in p]
        if lost:
            return name, False, f"baseline tests lost: {lost[:3]}"
        return name, True, ""
    finally:
        subprocess.run(["git", "-C", "/repo", "worktree", "remove", "--force", wt])

def main():
    global CLEAN
    dirs = sys.argv[1:] or sorted(glob.glob(os.path.join(V, "seeded", "*-m*")))
    wt = f"/var/tmp/sv.{os.getpid()}.clean"
    subprocess.run(["git", "-C", "/repo", "worktree", "add", "-q", "--detach", wt, "HEAD"], check=True)
    CLEAN = passed(wt)
    subprocess.run(["git", "-C", "/repo", "worktree", "remove", "--force", wt])
    print("clean tree passes", len(CLEAN), "tests at", HEAD)
    with ThreadPoolExecutor(8) as ex:
        for name, ok, why in ex.map(one, dirs):
            mp = os.path.join(V, "seeded", name, "meta.json")
            if os.path.exists(mp):
                m = json.load(open(mp))
                m["validated_at"], m["valid"] = HEAD, ok
                if ok: m.pop("invalid_reason", None)
                else: m["invalid_reason"] = why
                json.dump(m, open(mp, "w"), indent=1)
            print(name, "valid" if ok else "INVALID: " + why)
main()
