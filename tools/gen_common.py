"""Shared helpers. Regenerate lean/Demeter/Gen/*.lean from /repo's current working tree (ast only, nothing is imported).

Every constant a theorem mentions is copied from the source text here, so a changed constant changes the
Lean file and the proof obligations are re-checked against what the code says now.  If the source no
longer has the expected shape this script exits non-zero (treated like a broken correspondence).
"""
import ast, os, sys, re

REPO = os.environ.get("DEMETER_REPO", "/repo")
OUT = os.path.join(os.path.dirname(os.path.abspath(__file__)), "..", "lean", "Demeter", "Gen")


class ShapeError(Exception):
    pass


def parse(rel):
    p = os.path.join(REPO, rel)
    with open(p) as f:
        return ast.parse(f.read(), p)


def find_func(tree, name, cls=None):
    for node in ast.walk(tree):
        if cls and isinstance(node, ast.ClassDef) and node.name == cls:
            for n in node.body:
                if isinstance(n, (ast.FunctionDef,)) and n.name == name:
                    return n
        if not cls and isinstance(node, ast.FunctionDef) and node.name == name:
            return node
    raise ShapeError(f"function {cls+'.' if cls else ''}{name} not found")


_CONST_INDEX = None


def _const_index():
    """name -> list of value expressions, for every module-level and class-level `NAME = <expr>` / `NAME: T = <expr>` under <repo>/demeter
    (a constant that a refactor moved out of a function body is still found by its name)"""
    global _CONST_INDEX
    if _CONST_INDEX is None:
        _CONST_INDEX = {}
        for dp, _, fs in os.walk(os.path.join(REPO, "demeter")):
            for f in fs:
                if not f.endswith(".py"):
                    continue
                try:
                    tree = ast.parse(open(os.path.join(dp, f)).read())
                except SyntaxError:
                    continue
                scopes = [tree.body] + [n.body for n in tree.body if isinstance(n, ast.ClassDef)]
                for body in scopes:
                    for n in body:
                        if isinstance(n, ast.Assign) and len(n.targets) == 1 and isinstance(n.targets[0], ast.Name):
                            _CONST_INDEX.setdefault(n.targets[0].id, []).append(n.value)
                        elif isinstance(n, ast.AnnAssign) and isinstance(n.target, ast.Name) and n.value is not None:
                            _CONST_INDEX.setdefault(n.target.id, []).append(n.value)
    return _CONST_INDEX


def resolve(node, depth=0):
    """a bare name / `self.NAME` / `Cls.NAME` standing for a module- or class-level constant is replaced by the expression assigned to
    it (when that is unambiguous across the package); anything else is returned as it is"""
    name = node.id if isinstance(node, ast.Name) else (node.attr if isinstance(node, ast.Attribute) else None)
    if name is None or depth > 4:
        return node
    vals = _const_index().get(name, [])
    dumps = {ast.dump(v) for v in vals}
    if len(dumps) == 1:
        return resolve(vals[0], depth + 1)
    return node


def const_int(node):
    """evaluate a constant integer expression (literals, + - * // ** << >>, unary minus)"""
    node = resolve(node)
    if isinstance(node, ast.Constant) and isinstance(node.value, int):
        return node.value
    if isinstance(node, ast.UnaryOp) and isinstance(node.op, ast.USub):
        return -const_int(node.operand)
    if isinstance(node, ast.BinOp):
        a, b = const_int(node.left), const_int(node.right)
        if isinstance(node.op, ast.Add): return a + b
        if isinstance(node.op, ast.Sub): return a - b
        if isinstance(node.op, ast.Mult): return a * b
        if isinstance(node.op, ast.Pow): return a ** b
        if isinstance(node.op, ast.LShift): return a << b
        if isinstance(node.op, ast.RShift): return a >> b
        if isinstance(node.op, ast.FloorDiv): return a // b
    raise ShapeError("not a constant int: " + ast.dump(node))


def const_str_decimal(node):
    """Decimal("...") / Decimal(int) / Decimal(float-literal) -> (kind, text)"""
    node = resolve(node)
    if isinstance(node, ast.Call) and getattr(node.func, "id", getattr(node.func, "attr", None)) == "Decimal":
        a = node.args[0]
        if isinstance(a, ast.Constant):
            return a.value
        return const_int(a)
    if isinstance(node, ast.Constant):
        return node.value
    raise ShapeError("not a Decimal constant: " + ast.dump(node))


def rat_of(v):
    """Lean Rat literal for python value v as Decimal(str)-semantics if str/int, exact binary if float"""
    from fractions import Fraction
    if isinstance(v, float):
        fr = Fraction(v)  # exact binary value
    elif isinstance(v, int):
        fr = Fraction(v)
    else:
        from decimal import Decimal
        fr = Fraction(Decimal(v))
    if fr.denominator == 1:
        return f"({fr.numerator} : Rat)"
    return f"(({fr.numerator} : Rat) / {fr.denominator})"


