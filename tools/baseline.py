#!/usr/bin/env python3
"""Run the repository's pinned baseline (guard off) and compare with /root/.vp/BASELINE.json stable_pass."""
import json, os, subprocess, sys, tempfile, xml.etree.ElementTree as ET
base = json.load(open("/root/.vp/BASELINE.json"))
out = tempfile.mktemp(suffix=".xml", dir="/var/tmp")
env = dict(os.environ); env.pop("DEMETER_VERIF", None)
subprocess.run(base["cmd"].replace("<file>", out), shell=True, env=env, stdout=subprocess.DEVNULL, stderr=subprocess.DEVNULL)
passed = set()
for tc in ET.parse(out).getroot().iter("testcase"):
    if not any(ch.tag in ("failure", "error", "skipped") for ch in tc):
        passed.add(f"{tc.get('classname')}::{tc.get('name')}")
os.remove(out)
missing = [t for t in base["stable_pass"] if t not in passed]
print(f"baseline: {len(base['stable_pass']) - len(missing)}/{len(base['stable_pass'])} stable tests pass; newly passing {len(passed - set(base['stable_pass']))}")
for m in missing: print("  MISSING", m)
sys.exit(1 if missing else 0)
