#!/usr/bin/env python3
"""Render /verif/seeded/*/meta.json as the table of DESIGN.md §6.6 (between the SEEDTABLE markers)."""
import json, glob, os, re
V = os.path.dirname(os.path.dirname(os.path.abspath(__file__)))
rows = []
obsolete = []
for d in sorted(glob.glob(os.path.join(V, "seeded", "*"))):
    m = json.load(open(os.path.join(d, "meta.json")))
    name = os.path.basename(d)
    if m.get("valid") is False:
        obsolete.append((name, m.get("summary", "").replace("|", "/")[:150], m.get("invalid_reason", "")[:90]))
        continue
    res = m.get("check_result", [])
    by = []
    for l in res:
        mm = re.match(r"== (\w+): (\d+) VIOLATION", l)
        if mm:
            by.append(f"{mm.group(1)}{'✓' if int(mm.group(2)) else '✗'}")
    how = m.get("caught_how", "")
    if m.get("also_caught_by"):
        how = (how + "; " if how else "") + "caught by another property's check: " + ", ".join(m["also_caught_by"])
    rows.append((name, m.get("summary", "").replace("|", "/")[:150], m.get("needs", "").replace("|", "/")[:140],
                 ("caught" if m.get("detected") else "**missed**") + (" (" + ", ".join(by) + ")" if by else "") + (": " + how if how else "")))
n = len(rows); c = sum(1 for r in rows if r[3].startswith("caught"))
out = [f"{c} of {n} seeded changes that are valid against /repo HEAD are caught by the quick tier of the check of the property they break "
       f"({len(obsolete)} more are obsolete: a later `fix:` commit changed the code they patch or made their demonstration pass).", "",
       "| seeded change | what was changed | needs | verdict |", "|---|---|---|---|"]
for r in rows:
    out.append("| " + " | ".join(r) + " |")
if obsolete:
    out += ["", "Obsolete at /repo HEAD:", "", "| seeded change | what was changed | why obsolete |", "|---|---|---|"] + ["| " + " | ".join(o) + " |" for o in obsolete]
txt = "\n".join(out)
p = os.path.join(V, "DESIGN.md")
s = open(p).read()
if "<!-- SEEDTABLE:BEGIN -->" in s:
    s = re.sub(r"<!-- SEEDTABLE:BEGIN -->.*<!-- SEEDTABLE:END -->", lambda _: "<!-- SEEDTABLE:BEGIN -->\n" + txt + "\n<!-- SEEDTABLE:END -->", s, flags=re.S)
else:
    s = s.replace("SEEDTABLE", "<!-- SEEDTABLE:BEGIN -->\n" + txt + "\n<!-- SEEDTABLE:END -->", 1)
open(p, "w").write(s)
print(f"seed table: {c}/{n} caught")
