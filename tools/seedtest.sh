#!/bin/sh
# tools/seedtest.sh <dir-with-patch.diff> <property> [<property> ...]
# Runs the named checks against a scratch worktree of /repo with the seeded change applied, using a scratch copy
# of /verif (so neither /repo nor /verif/lean is disturbed). Prints one line per check: <prop> exit=<rc> <last line>.
# Scratch lives under /var/tmp/seedrun.$$ and is removed afterwards.
set -u
P="$(cd "$1" && pwd)"; shift
V="$(cd "$(dirname "$0")/.." && pwd)"      # the /verif checkout this script lives in (main or a builder's worktree)
S=/var/tmp/seedrun.$$
mkdir -p "$S"
git -C /repo worktree add -q --detach "$S/repo" HEAD || exit 2
if ! git -C "$S/repo" apply "$P/patch.diff" 2>/dev/null && ! git -C "$S/repo" apply --3way "$P/patch.diff" 2>/dev/null; then echo "patch does not apply to /repo HEAD (the code changed since the seed was made: re-base the patch)"; git -C /repo worktree remove --force "$S/repo"; rm -rf "$S"; exit 2; fi
mkdir -p "$S/verif"
# committed state of /verif at ${SEED_VERIF_REV:-HEAD} (builders' uncommitted work in progress is left out) + the compiled .lake as a cache
git -C "$V" archive "${SEED_VERIF_REV:-HEAD}" | tar -x -C "$S/verif"
rsync -a "$V/lean/.lake" "$S/verif/lean/" 2>/dev/null
for prop in "$@"; do
  out=$(cd "$S/verif" && DEMETER_REPO="$S/repo" VERIF_TIER="${VERIF_TIER:-quick}" timeout 3000 ./check "$prop" 2>&1 | grep -v conda); rc=$?
  echo "$out" > "$S/$prop.log"
  echo "== $prop: $(echo "$out" | grep -c '^VIOLATION') VIOLATION line(s); $(echo "$out" | grep '^VIOLATION' | head -3 | tr '\n' ' ')"
  echo "   $(echo "$out" | tail -1)"
  if [ -n "${SEED_KEEP_LOG:-}" ]; then cp "$S/$prop.log" "$SEED_KEEP_LOG.$prop.log"; fi
done
git -C /repo worktree remove --force "$S/repo"
rm -rf "$S"
