#!/usr/bin/env python3
"""tools/seed_all.py [-j N] [--only-missed] [seed-name ...]: run the quick check of the property each seeded change breaks against the
changed code (tools/seedtest.sh, scratch worktree + scratch copy of the committed /verif) and record the verdict in its meta.json
(check_result, detected, checked_at = /verif commit).  Seeds whose meta.json says "valid": false (the code moved on) are skipped."""
import glob, json, os, re, subprocess, sys
from concurrent.futures import ThreadPoolExecutor
V = os.path.dirname(os.path.dirname(os.path.abspath(__file__)))
J = int(sys.argv[sys.argv.index("-j") + 1]) if "-j" in sys.argv else 4
names = [a for a in sys.argv[1:] if re.fullmatch(r"C\d+-m\d+", a)]
HEAD = subprocess.run(["git", "-C", V, "rev-parse", "--short", "HEAD"], capture_output=True, text=True).stdout.strip()
dirs = [os.path.join(V, "seeded", n) for n in names] or sorted(glob.glob(os.path.join(V, "seeded", "C*-m*")))

def one(d):
    mp = os.path.join(d, "meta.json")
    m = json.load(open(mp))
    name = os.path.basename(d)
    if m.get("valid") is False:
        return name, "invalid"
    if "--only-missed" in sys.argv and m.get("detected"):
        return name, "skipped"
    prop = m.get("breaks_property") or m["property"]
    p = subprocess.run(["sh", os.path.join(V, "tools", "seedtest.sh"), d, prop], capture_output=True, text=True)
    lines = [l.strip() for l in (p.stdout + p.stderr).split("\n") if l.strip() and "conda" not in l and "rsync" not in l and "vanished" not in l]
    m["check_result"] = lines[-4:]
    m["detected"] = any(re.search(r"[1-9]\d* VIOLATION line", l) for l in lines)
    m["checked_at"] = HEAD
    m["ran"] = f"tools/seedtest.sh seeded/{name} {prop}   (scratch worktree of /repo + scratch copy of /verif at {HEAD}; quick tier)"
    json.dump(m, open(mp, "w"), indent=1)
    return name, "caught" if m["detected"] else "MISSED"

with ThreadPoolExecutor(J) as ex:
    res = list(ex.map(one, dirs))
for n, v in res:
    if v in ("MISSED",):
        print(n, v)
c = sum(1 for _, v in res if v == "caught"); t = sum(1 for _, v in res if v in ("caught", "MISSED"))
print(f"{c} of {t} valid seeded changes caught ({sum(1 for _, v in res if v == 'invalid')} obsolete)")
