"""Constants of the Aave v3 market model (component `aave`) -> lean/Demeter/Gen/ConstsAave.lean.

Everything is read from the source text with `ast`; a change of shape raises ShapeError (= broken tie)."""
import ast
from fractions import Fraction


def _float_expr(node, ShapeError):
    """evaluate a float constant expression exactly as CPython does (binary64 arithmetic)"""
    if isinstance(node, ast.Constant) and isinstance(node.value, (int, float)):
        return float(node.value)
    if isinstance(node, ast.BinOp):
        a, b = _float_expr(node.left, ShapeError), _float_expr(node.right, ShapeError)
        if isinstance(node.op, ast.Sub):
            return a - b
        if isinstance(node.op, ast.Add):
            return a + b
        if isinstance(node.op, ast.Mult):
            return a * b
    raise ShapeError("not a float constant expression: " + ast.dump(node))


def _decimal_arg(node, ShapeError):
    """Decimal("...") -> str ; Decimal(<int>) -> int ; Decimal(<float>) -> float"""
    from gen_common import resolve
    node = resolve(node)
    if isinstance(node, ast.Call) and getattr(node.func, "id", None) == "Decimal" and len(node.args) == 1 \
            and isinstance(node.args[0], ast.Constant):
        return node.args[0].value
    raise ShapeError("not a Decimal(<literal>): " + ast.dump(node))


def _module_consts(*trees):
    """NAME -> value node for module-level and class-level `NAME = <expr>` assignments of the given modules"""
    out = {}
    for tree in trees:
        for n in tree.body:
            if isinstance(n, ast.Assign) and len(n.targets) == 1 and isinstance(n.targets[0], ast.Name):
                out.setdefault(n.targets[0].id, n.value)
            if isinstance(n, ast.ClassDef):
                for m in n.body:
                    if isinstance(m, ast.Assign) and len(m.targets) == 1 and isinstance(m.targets[0], ast.Name):
                        out.setdefault(m.targets[0].id, m.value)
    return out


def _resolve(node, consts, depth=0):
    """follow `NAME` / `Something.NAME` to the constant expression it was assigned (a literal moved into a named constant is the same
    constant: the extractor follows the name instead of insisting on the literal's position)"""
    while depth < 5:
        key = node.id if isinstance(node, ast.Name) else node.attr if isinstance(node, ast.Attribute) else None
        if key is None or key not in consts:
            return node
        node = consts[key]
        depth += 1
    return node


def _assign_in_class(tree, cls, var, consts=None):
    """value node of the first `var = <constant expression>` in any method of class `cls` (the statement may move between methods;
    assignments of computed values to the same name are skipped)"""
    for c in tree.body:
        if isinstance(c, ast.ClassDef) and c.name == cls:
            for n in ast.walk(c):
                if isinstance(n, ast.Assign) and len(n.targets) == 1 and getattr(n.targets[0], "id", "") == var:
                    v = _resolve(n.value, consts or {})
                    if isinstance(v, ast.Call) and getattr(v.func, "id", getattr(v.func, "attr", None)) == "Decimal" \
                            and len(v.args) == 1 and isinstance(v.args[0], ast.Constant):
                        return v
    return None


def _quant_digits(text, ShapeError):
    # "0.0001" -> 4
    if not (text.startswith("0.") and set(text[2:-1]) <= {"0"} and text.endswith("1")):
        raise ShapeError("quantize step is not 10^-k: " + text)
    return len(text) - 2


def register(add, parse, find_func, const_int, rat_of, ShapeError, module_assign):
    core = parse("demeter/aave/core.py")
    cls = None
    for n in core.body:
        if isinstance(n, ast.ClassDef) and n.name == "AaveV3CoreLib":
            cls = n
    if cls is None:
        raise ShapeError("AaveV3CoreLib not found")
    consts = {}
    for n in cls.body:
        if isinstance(n, ast.Assign) and isinstance(n.targets[0], ast.Name):
            consts[n.targets[0].id] = n.value
    for k in ("SECONDS_IN_A_YEAR", "HEALTH_FACTOR_LIQUIDATION_THRESHOLD", "DEFAULT_LIQUIDATION_CLOSE_FACTOR",
              "MAX_LIQUIDATION_CLOSE_FACTOR", "CLOSE_FACTOR_HF_THRESHOLD"):
        if k not in consts:
            raise ShapeError(f"AaveV3CoreLib.{k} not found")
    add("aaveSecondsInYear", "Nat", str(const_int(consts["SECONDS_IN_A_YEAR"])), "AaveV3CoreLib.SECONDS_IN_A_YEAR")
    add("aaveHfThreshold", "Rat", rat_of(_decimal_arg(consts["HEALTH_FACTOR_LIQUIDATION_THRESHOLD"], ShapeError)),
        "AaveV3CoreLib.HEALTH_FACTOR_LIQUIDATION_THRESHOLD")
    add("aaveCloseFactorDefault", "Rat", rat_of(_decimal_arg(consts["DEFAULT_LIQUIDATION_CLOSE_FACTOR"], ShapeError)),
        "AaveV3CoreLib.DEFAULT_LIQUIDATION_CLOSE_FACTOR")
    add("aaveCloseFactorMax", "Rat", rat_of(_decimal_arg(consts["MAX_LIQUIDATION_CLOSE_FACTOR"], ShapeError)),
        "AaveV3CoreLib.MAX_LIQUIDATION_CLOSE_FACTOR")
    add("aaveCloseFactorHf", "Rat", rat_of(_decimal_arg(consts["CLOSE_FACTOR_HF_THRESHOLD"], ShapeError)),
        "AaveV3CoreLib.CLOSE_FACTOR_HF_THRESHOLD")
    helper = parse("demeter/aave/helper.py")
    market = parse("demeter/aave/market.py")
    named = _module_consts(core, helper, market)
    # get_max_borrow_value: ... * Decimal("0.99")
    fn = find_func(core, "get_max_borrow_value", cls="AaveV3CoreLib")
    ui = None
    for n in ast.walk(fn):
        if isinstance(n, ast.Return) and isinstance(n.value, ast.BinOp) and isinstance(n.value.op, ast.Mult):
            ui = _decimal_arg(_resolve(n.value.right, named), ShapeError)
    if ui is None:
        raise ShapeError("get_max_borrow_value: '* Decimal(\"0.99\")' not found")
    add("aaveMaxBorrowUi", "Rat", rat_of(ui), "factor applied by get_max_borrow_value (dapp web ui)")

    # helper.MIN_TOKEN_VALUE = 1e-18 - 1e-27 (float arithmetic; compared against a Decimal -> exact binary value)
    mtv = _float_expr(module_assign(helper, "MIN_TOKEN_VALUE"), ShapeError)
    add("aaveMinTokenValue", "Rat", rat_of(mtv), f"exact binary value of the float MIN_TOKEN_VALUE = {mtv!r} (helper.sub_base_amount)")
    sba = find_func(helper, "sub_base_amount")
    ok = False
    for n in ast.walk(sba):
        if isinstance(n, ast.Compare) and isinstance(n.ops[0], ast.Lt) and getattr(n.comparators[0], "id", "") == "MIN_TOKEN_VALUE":
            ok = True
    if not ok:
        raise ShapeError("sub_base_amount: 'new_v < MIN_TOKEN_VALUE' not found")

    # get_market_balance: rounding = Decimal("0.0001")
    gmb = find_func(market, "get_market_balance", cls="AaveV3Market")
    q = None
    for n in ast.walk(gmb):
        if isinstance(n, ast.Assign) and getattr(n.targets[0], "id", "") == "rounding":
            q = _decimal_arg(_resolve(n.value, named), ShapeError)
    if not isinstance(q, str):
        raise ShapeError("get_market_balance: rounding = Decimal(\"...\") not found")
    add("aaveBalanceQuantDigits", "Nat", str(_quant_digits(q, ShapeError)), f"get_market_balance quantizes to Decimal({q!r})")
    # repay: round(base - payback_base, 18) >= 0
    rp = find_func(market, "repay", cls="AaveV3Market")
    nd = None
    for n in ast.walk(rp):
        if isinstance(n, ast.Call) and getattr(n.func, "id", "") == "round" and len(n.args) == 2:
            nd = const_int(_resolve(n.args[1], named))
    if nd is None:
        raise ShapeError("repay: round(..., 18) not found")
    add("aaveRepayRoundDigits", "Nat", str(nd), "repay: round(debt_base - payback_base, n) >= 0")
    # _liquidate: min_borrow_value = Decimal(10e21)  (float literal -> exact value)
    v = _assign_in_class(market, "AaveV3Market", "min_borrow_value", named)
    sent = None if v is None else _decimal_arg(_resolve(v, named), ShapeError)
    if sent is None:
        raise ShapeError("_liquidate: min_borrow_value sentinel not found")
    add("aaveLiqSentinel", "Rat", rat_of(sent), "_liquidate: initial min_borrow_value ('a very large number')")
