"""GMX constants (v1: demeter/gmx/market.py, _typing.py; v2: demeter/gmx/gmx_v2/_typing.py) -> Demeter/Gen/ConstsGmx.lean"""
import ast


def register(add, parse, find_func, const_int, rat_of, ShapeError, module_assign):
    # ---------------------------------------------------------------- v1
    tree = parse("demeter/gmx/market.py")
    init = find_func(tree, "__init__", cls="GmxMarket")
    attrs = {}
    for n in ast.walk(init):
        if isinstance(n, ast.Assign) and isinstance(n.targets[0], ast.Attribute) and getattr(n.targets[0].value, "id", "") == "self":
            try:
                attrs[n.targets[0].attr] = const_int(n.value)
            except ShapeError:
                pass
    for py, lean, what in (("mint_burn_fee_basis_points", "gmxMintBurnFeeBps", "base fee"), ("tax_basis_points", "gmxTaxBps", "tax"),
                           ("glp_decimal", "gmxGlpDecimals", "GLP decimals")):
        if py not in attrs:
            raise ShapeError(f"GmxMarket.__init__: self.{py} = <int> not found")
        add(lean, "Nat", str(attrs[py]), f"GmxMarket.{py} ({what})")
    add("gmxUsdgDecimals", "Nat", str(const_int(module_assign(tree, "USDG_DECIMALS"))), "gmx/market.py USDG_DECIMALS (adjustForDecimals)")
    add("gmxPricePrecision", "Nat", str(const_int(module_assign(parse("demeter/gmx/_typing.py"), "PRICE_PRECISION"))), "gmx/_typing.py PRICE_PRECISION")

    # _collect_swap_fee: token_amount * fee_point / 10000
    f = find_func(tree, "_collect_swap_fee", cls="GmxMarket")
    div = None
    for n in ast.walk(f):
        if isinstance(n, ast.BinOp) and isinstance(n.op, ast.Div) and isinstance(n.left, ast.BinOp) and isinstance(n.left.op, ast.Mult):
            div = const_int(n.right)
    if div is None:
        raise ShapeError("_collect_swap_fee: amount * fee / <divisor> not found")
    add("gmxBpsDivisor", "Nat", str(div), "BASIS_POINTS_DIVISOR in GmxMarket._collect_swap_fee")

    # _add_liquidity / _remove_liquidity: aum / Decimal(10**12)
    for fn in ("_add_liquidity", "_remove_liquidity"):
        f = find_func(tree, fn, cls="GmxMarket")
        v = None
        for n in ast.walk(f):
            if isinstance(n, ast.Assign) and getattr(n.targets[0], "id", "") == "aum_in_usdg" and isinstance(n.value, ast.BinOp) \
                    and isinstance(n.value.op, ast.Div):
                r = n.value.right
                v = const_int(r.args[0] if isinstance(r, ast.Call) else r)
        if v is None:
            raise ShapeError(f"{fn}: aum_in_usdg = aum / Decimal(<int>) not found")
        add("gmxAumDivisor" + ("Add" if fn == "_add_liquidity" else "Remove"), "Nat", str(v), f"{fn}: AUM (1e30) -> USDG (1e18) divisor")

    # buy_usdg: token_amount * 10**token.decimal * price / 10**30
    f = find_func(tree, "buy_usdg", cls="GmxMarket")
    divs = set()
    for n in ast.walk(f):
        if isinstance(n, ast.BinOp) and isinstance(n.op, ast.Div):
            try:
                divs.add(const_int(n.right))
            except ShapeError:
                pass
    if len(divs) != 1:
        raise ShapeError(f"buy_usdg: expected one constant divisor, found {sorted(divs)}")
    add("gmxBuyUsdgDivisor", "Nat", str(divs.pop()), "buy_usdg: amount * 10**decimal * price / <this>")

    # _update_fee: Decimal(interval) * 60
    f = find_func(tree, "_update_fee", cls="GmxMarket")
    mul = None
    for n in ast.walk(f):
        if isinstance(n, ast.Assign) and getattr(n.targets[0], "id", "") == "block_reward" and isinstance(n.value, ast.BinOp) \
                and isinstance(n.value.op, ast.Mult):
            mul = const_int(n.value.right)
    if mul is None:
        raise ShapeError("_update_fee: block_reward = Decimal(interval) * <int> not found")
    add("gmxRewardSeconds", "Nat", str(mul), "_update_fee: reward per bar = interval * <this> * held / supply")

    # ---------------------------------------------------------------- v2 PoolConfig defaults (floats: exact binary value)
    tree2 = parse("demeter/gmx/gmx_v2/_typing.py")
    cls = None
    for n in tree2.body:
        if isinstance(n, ast.ClassDef) and n.name == "PoolConfig":
            cls = n
    if cls is None:
        raise ShapeError("gmx_v2/_typing.py: class PoolConfig not found")

    def fval(node):
        if isinstance(node, ast.Constant) and isinstance(node.value, (int, float)):
            return node.value
        if isinstance(node, ast.BinOp) and isinstance(node.op, ast.Div):
            return const_int(node.left) / const_int(node.right)      # python true division -> float, as in the source
        raise ShapeError("PoolConfig default is not a literal: " + ast.dump(node))
    want = {"swapImpactExponentFactor": "gmx2ImpactExponent", "swapImpactFactorPositive": "gmx2ImpactFactorPos",
            "swapImpactFactorNegative": "gmx2ImpactFactorNeg", "depositFeeFactorForPositiveImpact": "gmx2DepositFeePos",
            "depositFeeFactorForNegativeImpact": "gmx2DepositFeeNeg", "withdrawFeeFactorForPositiveImpact": "gmx2WithdrawFeePos",
            "withdrawFeeFactorForNegativeImpact": "gmx2WithdrawFeeNeg"}
    seen = {}
    for n in cls.body:
        if isinstance(n, ast.AnnAssign) and n.value is not None and n.target.id in want:
            seen[n.target.id] = fval(n.value)
    for py, lean in want.items():
        if py not in seen:
            raise ShapeError(f"PoolConfig.{py} default not found")
        v = seen[py]
        add(lean, "Rat", rat_of(float(v)), f"PoolConfig.{py} = {v!r} (exact binary value of the float)")

    # withdraw always charges the negative-impact fee factor: getSwapFees(pool_config, amount, False, Withdrawal)
    tree3 = parse("demeter/gmx/gmx_v2/ExecuteWithdrawUtils.py")
    f = find_func(tree3, "getOutputAmount", cls="ExecuteWithdrawUtils")
    flags = []
    for n in ast.walk(f):
        if isinstance(n, ast.Call) and getattr(n.func, "attr", "") == "getSwapFees":
            a = n.args[2]
            if not (isinstance(a, ast.Constant) and isinstance(a.value, bool)):
                raise ShapeError("getOutputAmount: getSwapFees forPositiveImpact argument is not a literal")
            flags.append(a.value)
    if len(flags) != 2 or flags[0] != flags[1]:
        raise ShapeError("getOutputAmount: expected two getSwapFees calls with the same literal flag")
    add("gmx2WithdrawForPositive", "Bool", "true" if flags[0] else "false", "getOutputAmount: forPositiveImpact flag passed to getSwapFees")
