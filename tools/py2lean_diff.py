#!/venv/bin/python
"""tools/py2lean_diff.py [n_cases] [seed] — differential test of the TRANSLATOR (tools/py2lean.py + Demeter/PyPrelude.lean):
run the real Python functions of /repo and the generated Lean definitions (evaluated by `lake env lean` with the
CPython rounding context `NumCtx.py`) on the same random inputs, compare results and exception classes exactly.
This is evidence for the translator's trusted base; it is not part of ./check.  Run with PYTHONPATH=/repo."""
import os, random, subprocess, sys, tempfile
from decimal import Decimal
from fractions import Fraction

REPO = os.environ.get("DEMETER_REPO", "/repo")
sys.path.insert(0, REPO)
import demeter  # noqa: sets decimal prec = 35
import pandas as pd
from demeter import TokenInfo
from demeter.uniswap import liquitidy_math as lm
from demeter.aave.core import AaveV3CoreLib as A
from demeter.deribit.helper import round_decimal

V = os.path.dirname(os.path.dirname(os.path.abspath(__file__)))
N = int(sys.argv[1]) if len(sys.argv) > 1 else 150
rng = random.Random(int(sys.argv[2]) if len(sys.argv) > 2 else 0)

ERR = {"ZeroDivisionError": "ZeroDivisionError", "DivisionByZero": "DivisionByZero", "InvalidOperation": "InvalidOperation",
       "AssertionError": "AssertionError", "KeyError": "KeyError", "ValueError": "ValueError", "TypeError": "TypeError", "IndexError": "IndexError",
       "RuntimeError": "RuntimeError", "OverflowError": "OverflowError"}


def li(n):           # Lean Int literal
    return f"({n} : Int)"


def lr(d):           # Lean Rat literal of a Decimal / int
    fr = Fraction(d)
    return f"(({fr.numerator} : Rat) / {fr.denominator})"


def show(v):
    if isinstance(v, tuple):
        return "(" + ", ".join(show(x) for x in v) + ")"
    if isinstance(v, Decimal):
        if v.is_infinite():
            return "inf"
        fr = Fraction(v)
        return f"{fr.numerator}/{fr.denominator}"
    return str(int(v))


cases = []   # (label, lean expression of type String, expected string)


def case(label, lean_call, kind, fn):
    try:
        exp = "ok " + show(fn())
    except Exception as e:  # noqa
        exp = "err " + ERR.get(type(e).__name__, type(e).__name__)
    cases.append((label, f"{kind} ({lean_call})", exp))


def rand_dec(lo=-3, hi=24, digits=None):
    digits = digits or rng.randint(1, 30)
    m = rng.randint(0, 10 ** digits)
    return Decimal(m).scaleb(-rng.randint(0, digits)) * (1 if rng.random() < 0.9 else 0)


for _ in range(N):
    t = rng.choice([rng.randint(-887272, 887272), rng.randint(-300, 300), 887272, -887272, 887273, -887273, 0, rng.randint(-10**6, 10**6)])
    case("tick", f"get_sqrt_ratio_at_tick {li(t)}", "shI", lambda: lm.get_sqrt_ratio_at_tick(t))
    a, b, d = rng.randint(-10**30, 10**40), rng.randint(0, 10**30), rng.choice([0, rng.randint(1, 10**30), -rng.randint(1, 10**10)])
    case("mul_div", f"mul_div {li(a)} {li(b)} {li(d)}", "shI", lambda: lm.mul_div(a, b, d))
    sa, sb = rng.randint(1, 2**100), rng.randint(1, 2**100)
    if rng.random() < 0.1:
        sb = sa
    amt = rng.randint(-10**20, 10**30)
    case("liq0", f"get_liquidity_for_amount0 {li(sa)} {li(sb)} {li(amt)}", "shI", lambda: lm.get_liquidity_for_amount0(sa, sb, amt))
    case("liq1", f"get_liquidity_for_amount1 {li(sa)} {li(sb)} {li(amt)}", "shI", lambda: lm.get_liquidity_for_amount1(sa, sb, amt))
    x, dec = rand_dec(), rng.choice([0, 6, 8, 18])
    case("to_wei", f"to_wei NumCtx.py {lr(x)} {li(dec)}", "shI", lambda: lm.to_wei(x, dec))
    ta, tb = rng.randint(-20000, 20000), rng.randint(-20000, 20000)
    if rng.random() < 0.1:
        tb = ta
    s = lm.get_sqrt_ratio_at_tick(rng.choice([ta, tb, rng.randint(-25000, 25000)])) + rng.choice([0, 0, 1, -1, 12345])
    a0, a1, d0, d1 = rand_dec(), rand_dec(), rng.choice([6, 8, 18]), rng.choice([6, 18])
    case("get_liquidity", f"get_liquidity NumCtx.py {li(s)} {li(ta)} {li(tb)} {lr(a0)} {lr(a1)} {li(d0)} {li(d1)}", "shI",
         lambda: lm.get_liquidity(s, ta, tb, a0, a1, d0, d1))
    L = rng.randint(0, 10**28)
    case("amount0", f"get_amount0 NumCtx.py {li(sa)} {li(sb)} {li(L)} {li(d0)}", "shR", lambda: lm.get_amount0(sa, sb, L, d0))
    case("amount1", f"get_amount1 NumCtx.py {li(sa)} {li(sb)} {li(L)} {li(d1)}", "shR", lambda: lm.get_amount1(sa, sb, L, d1))
    case("amounts", f"get_amounts NumCtx.py {li(s)} {li(ta)} {li(tb)} {li(L)} {li(d0)} {li(d1)}", "shRR",
         lambda: lm.get_amounts(s, ta, tb, L, d0, d1))
    # ---- aave
    p, q = rand_dec(), rng.choice([Decimal(0), rand_dec(), rand_dec()])
    case("safe_div", f"aave_safe_div NumCtx.py {lr(p)} {lr(q)}", "shX", lambda: A.safe_div(p, q))
    case("get_amount", f"aave_get_amount NumCtx.py {lr(p)} {lr(q)}", "shR", lambda: A.get_amount(p, q))
    case("get_base_amount", f"aave_get_base_amount NumCtx.py {lr(p)} {lr(q)}", "shR", lambda: A.get_base_amount(p, q))
    names = ["WETH", "USDC", "WBTC", "DAI", "LINK"]
    toks = {n: TokenInfo(n, 18) for n in names}
    rows = {n: (Decimal(rng.randint(0, 9000)) / 10000, Decimal(rng.randint(0, 9500)) / 10000) for n in names if rng.random() < 0.9}
    frame = pd.DataFrame({"baseLTVasCollateral": {n: r[0] for n, r in rows.items()},
                          "reserveLiquidationThreshold": {n: r[1] for n, r in rows.items()}}, dtype=object)
    colls = {toks[n]: rand_dec() for n in rng.sample(names, rng.randint(0, 4))}
    bors = {toks[n]: rand_dec() for n in rng.sample(names, rng.randint(0, 3))}
    ldict = lambda d: "[" + ", ".join(f'("{k.name}", {lr(v)})' for k, v in d.items()) + "]"
    lframe = "(fun k col => match ([" + ", ".join(f'("{n}", {lr(r[0])}, {lr(r[1])})' for n, r in rows.items()) \
        + '] : List (String × Rat × Rat)).find? (fun r => r.1 == k) with | none => Except.error Err.KeyError ' \
          '| some r => if col == "baseLTVasCollateral" then Except.ok r.2.1 else Except.ok r.2.2)'
    case("health_factor", f"aave_health_factor NumCtx.py {ldict(colls)} {ldict(bors)} {lframe}", "shX",
         lambda: A.health_factor(colls, bors, frame))
    case("max_ltv", f"aave_max_ltv NumCtx.py {ldict(colls)} {lframe}", "shX", lambda: A.max_ltv(colls, frame))
    case("liq_threshold", f"aave_total_liquidation_threshold NumCtx.py {ldict(colls)} {lframe}", "shX",
         lambda: A.total_liquidation_threshold(colls, frame))
    tk, price = toks[rng.choice(names)], rng.choice([Decimal(0), rand_dec(), rand_dec()])
    case("min_withdraw", f'aave_get_min_withdraw_kept_amount NumCtx.py "{tk.name}" {ldict(colls)} {ldict(bors)} {lframe} {lr(price)}', "shR",
         lambda: A.get_min_withdraw_kept_amount(tk, colls, bors, frame, price))
    rate = Decimal(rng.randint(0, 10**12)) / Decimal(10**20)
    case("rate_to_apy", f"aave_rate_to_apy NumCtx.py (dpowNat 35) {lr(rate)}", "shR", lambda: A.rate_to_apy(rate))
    # ---- deribit
    y, e = rand_dec(), rng.randint(-8, 3)
    case("round_decimal", f"deribit_round_decimal {lr(y)} {li(e)}", "shR", lambda: round_decimal(y, e))

    # ---- broker wallet: Asset.add / Asset.sub (object field self.balance read as balance-in -> balance-out)
    from demeter.broker._typing import Asset
    bal = rng.choice([Decimal(0), rand_dec(), rand_dec(-3, 8, 6)])
    amt2 = rng.choice([Decimal(0), bal, bal * Decimal("1.000001"), bal * Decimal("1.00002"), bal * Decimal("0.99999"), bal * Decimal("0.9999999"),
                       bal * (1 + Decimal(rng.randint(-30, 30)) / Decimal(10 ** 6)), rand_dec(), -rand_dec(-3, 8, 6)])
    allow = rng.random() < 0.3

    def asset_sub():
        a_ = Asset(TokenInfo("x", 18), bal)
        a_.sub(amt2, allow)
        return a_.balance

    def asset_add():
        a_ = Asset(TokenInfo("x", 18), bal)
        a_.add(amt2)
        return a_.balance
    case("asset_sub", f"asset_sub NumCtx.py {lr(bal)} {lr(amt2)} {'true' if allow else 'false'}", "shR", asset_sub)
    case("asset_add", f"asset_add NumCtx.py {lr(bal)} {lr(amt2)}", "shR", asset_add)

    # ---- time triggers (times = whole seconds from a midnight epoch)
    from datetime import datetime, timedelta
    from types import SimpleNamespace
    import demeter.strategy.trigger as tr
    EP = datetime(2023, 5, 1)
    T = lambda sec: EP + timedelta(seconds=sec)        # noqa: E731
    SEC = lambda dt: int((dt - EP).total_seconds())    # noqa: E731
    snap_t = 60 * rng.randint(0, 3000)
    snap = SimpleNamespace(timestamp=T(snap_t))
    t0 = rng.choice([snap_t, snap_t + 60 * rng.randint(-50, 50), snap_t + rng.randint(-3000, 3000)])
    case("to_minute", f"trig_to_minute {li(t0)}", "shI", lambda: SEC(tr.to_minute(T(t0))))
    dl = rng.choice([60, 120, 90, 0, -60, 3600, 61, rng.randint(-100, 4000)])

    def chk():
        tr._check_time_delta(timedelta(seconds=dl))
        return 0
    case("check_delta", f"(trig_check_time_delta {li(dl)}).map (fun _ => (0 : Int))", "shI", chk)
    tm = [60 * (snap_t // 60 + rng.randint(-5, 5)) for _ in range(rng.randint(0, 4))]
    lts = "[" + ", ".join(li(x) for x in tm) + "]"

    def mk(cls, **fields):
        o = cls.__new__(cls)
        o.__dict__.update(fields)
        return o
    case("at_time_when", f"(trig_at_time_when {li(snap_t)} {li(60 * (t0 // 60))}).map (fun b => if b then (1 : Int) else 0)", "shI",
         lambda: int(mk(tr.AtTimeTrigger, _time=T(60 * (t0 // 60))).when(snap)))
    case("at_times_when", f"(trig_at_times_when {li(snap_t)} {lts}).map (fun b => if b then (1 : Int) else 0)", "shI",
         lambda: int(mk(tr.AtTimesTrigger, _time=[T(x) for x in tm]).when(snap)))
    case("at_times_out", f"(trig_at_times_is_out_date {lts} {li(snap_t)}).map (fun b => if b then (1 : Int) else 0)", "shI",
         lambda: int(mk(tr.AtTimesTrigger, _time=[T(x) for x in tm]).is_out_date(T(snap_t))))
    rs_ = [(60 * (snap_t // 60 + rng.randint(-6, 3)), 60 * (snap_t // 60 + rng.randint(-3, 6))) for _ in range(rng.randint(0, 3))]
    lrs = "[" + ", ".join(f"({li(a_)}, {li(b_)})" for a_, b_ in rs_) + "]"
    case("ranges_when", f"(trig_ranges_when {li(snap_t)} {lrs}).map (fun b => if b then (1 : Int) else 0)", "shI",
         lambda: int(mk(tr.TimeRangesTrigger, _time_range=[tr.TimeRange(T(a_), T(b_)) for a_, b_ in rs_]).when(snap)))
    case("ranges_out", f"(trig_ranges_is_out_date {lrs} {li(snap_t)}).map (fun b => if b then (1 : Int) else 0)", "shI",
         lambda: int(mk(tr.TimeRangesTrigger, _time_range=[tr.TimeRange(T(a_), T(b_)) for a_, b_ in rs_]).is_out_date(T(snap_t))))
    pd_, pend_, imm_ = 60 * rng.randint(1, 9), 60 * rng.choice([0, 0, 1, 7]), rng.random() < 0.5
    nxt = rng.choice([None, snap_t, snap_t - pd_ * rng.randint(0, 6), snap_t + 60 * rng.randint(-30, 30), snap_t - 60 * rng.randint(0, 200)])

    def period_when():
        o = mk(tr.PeriodTrigger, _next_match=None if nxt is None else T(nxt), _delta=timedelta(seconds=pd_), _pending=timedelta(seconds=pend_),
               _trigger_immediately=imm_)
        r = o.when(snap)
        return int(r) * 10 ** 9 + (SEC(o._next_match) if o._next_match is not None else -1)
    lnx = "none" if nxt is None else f"(some {li(nxt)})"
    case("period_when", f"(trig_period_when 100000 {li(snap_t)} {li(pd_)} {li(pend_)} {'true' if imm_ else 'false'} {lnx}).map "
                        f"(fun r => (if r.1 then (1000000000 : Int) else 0) + (match r.2 with | some x => x | none => -1))", "shI", period_when)

    # ---- squeeth liquidation / vault-safety arithmetic (a SqueethMarket object with the TWAP and the effective collateral stubbed)
    from demeter.squeeth.market import SqueethMarket
    from demeter.squeeth import Vault, VaultKey
    sq = SqueethMarket.__new__(SqueethMarket)
    o_price, w_price = rand_dec(-3, 2, 8), rand_dec(-1, 5, 8)
    sq.get_twap_price = lambda tok, now=None: o_price if tok.name.upper().startswith("O") else w_price
    mx, sh, co = rand_dec(-2, 6, 9), rand_dec(-2, 6, 9), rng.choice([rand_dec(-2, 6, 9), Decimal("0.5"), Decimal(0)])
    case("sq_single", f"sq_get_single_liquidation_amount NumCtx.py {lr(o_price)} {lr(mx)} {lr(sh)}", "shRR", lambda: sq._get_single_liquidation_amount(mx, sh))
    case("sq_liq_result", f"sq_get_liquidation_result NumCtx.py {lr(o_price)} {lr(mx)} {lr(sh)} {lr(co)}", "shRR", lambda: sq._get_liquidation_result(mx, sh, co))
    ne, no, pb = rand_dec(-2, 4, 8), rng.choice([rand_dec(-2, 6, 9), sh, sh * 2]), rng.random() < 0.6

    def sq_reduce():
        v = Vault(7, co, sh, 3)
        b_, x_, bo_ = sq._get_reduce_debt_result_in_vault(v, ne, no, pb)
        assert v.uni_nft_id is None
        return (b_, x_, bo_, v.osqth_short_amount, v.collateral_amount)
    case("sq_reduce_debt", f"(sq_get_reduce_debt_result_in_vault NumCtx.py {lr(o_price)} {lr(sh)} {lr(co)} (some 3) {lr(ne)} {lr(no)} {'true' if pb else 'false'}).map "
                           f"(fun r => s!\"({{rs r.1.1}}, {{rs r.1.2.1}}, {{rs r.1.2.2}}, {{rs r.2.1}}, {{rs r.2.2.1}})\")", "shS", sq_reduce)
    tot, nf_ = rng.choice([rand_dec(-2, 6, 9), Decimal("0.5"), Decimal("0.4999")]), rand_dec(-1, 0, 6)
    sh2 = rng.choice([sh, Decimal(0)])
    sq.vault = {VaultKey(7): Vault(7, co, sh2, None)}
    sq._get_effective_collateral_in_eth = lambda vk, nf=None, p_=None: tot
    given = rng.choice([None, rand_dec(-1, 5, 8)])
    lgiven = "none" if given is None else f"(some {lr(given)})"
    case("sq_vault_status", f"(sq_get_vault_status NumCtx.py {lr(w_price)} {lr(sh2)} {lr(tot)} {lr(nf_)} {lgiven}).map (fun r => (if r.1 then (10 : Int) else 0) + (if r.2 then 1 else 0))",
         "shI", lambda: (lambda r: 10 * int(r[0]) + int(r[1]))(sq.get_vault_status(VaultKey(7), nf_, given)))

    # ---- uniswap/core.py V3CoreLib: positions and the per-bar fee (objects built as the market builds them; the Lean side gets the fields they read)
    from demeter.uniswap.core import V3CoreLib
    from demeter.uniswap._typing import UniV3Pool, Position, PositionInfo, UniV3PoolStatus
    from demeter.uniswap.helper import from_atomic_unit
    upool = UniV3Pool(TokenInfo("USDC", d0), TokenInfo("WETH", d1), 0.05, TokenInfo("USDC", d0))
    lo_t, up_t = sorted([ta, tb]) if rng.random() < 0.85 else (ta, tb)
    if rng.random() < 0.03:
        up_t = rng.choice([887273, -887273, 10**6])

    def new_pos():
        r = V3CoreLib.new_position(upool, a0, a1, lo_t, up_t, s)
        assert type(r[3]) is PositionInfo
        return (r[0], r[1], r[2], r[3].lower_tick, r[3].upper_tick)
    case("uc_new_position", f"(unicore_new_position NumCtx.py {li(d0)} {li(d1)} {lr(a0)} {lr(a1)} {li(lo_t)} {li(up_t)} {li(s)}).map "
                            f"(fun r => s!\"({{rs r.1}}, {{rs r.2.1}}, {{r.2.2.1}}, {{r.2.2.2.1}}, {{r.2.2.2.2}})\")", "shS", new_pos)
    Lq = rng.choice([0, L, rng.randint(1, 10**20), -rng.randint(1, 10**12)])
    pinfo = PositionInfo(lo_t, up_t)
    # the result is (int 0, int 0) for a zero liquidity and Decimals otherwise: the translated type is the number (`num`), so compare the values
    num2 = lambda r: (Decimal(r[0]), Decimal(r[1]))      # noqa: E731
    case("uc_token_amounts", f"unicore_get_token_amounts NumCtx.py {li(d0)} {li(d1)} {li(lo_t)} {li(up_t)} {li(s)} {li(Lq)}", "shRR",
         lambda: num2(V3CoreLib.get_token_amounts(upool, pinfo, s, Lq)))
    case("uc_close_position", f"unicore_close_position NumCtx.py {li(d0)} {li(d1)} {li(lo_t)} {li(up_t)} {li(Lq)} {li(s)}", "shRR",
         lambda: num2(V3CoreLib.close_position(upool, pinfo, Lq, s)))
    # a position's liquidity held as a Decimal (after a partial removal): the products with it round
    Ld = rng.choice([Decimal(Lq), Decimal(rng.randint(1, 10**40)), rand_dec()])
    case("uc_token_amounts_dliq", f"unicore_get_token_amounts_dliq NumCtx.py {li(d0)} {li(d1)} {li(lo_t)} {li(up_t)} {li(s)} {lr(Ld)}", "shRR",
         lambda: num2(V3CoreLib.get_token_amounts(upool, pinfo, s, Ld)))
    case("uc_close_position_dliq", f"unicore_close_position_dliq NumCtx.py {li(d0)} {li(d1)} {li(lo_t)} {li(up_t)} {lr(Ld)} {li(s)}", "shRR",
         lambda: num2(V3CoreLib.close_position(upool, pinfo, Ld, s)))
    x_at = rng.choice([rand_dec(), Decimal(rng.randint(0, 10**24)), -rand_dec(-3, 8, 6)])
    case("from_atomic_dec", f"uni_from_atomic_unit_dec NumCtx.py {lr(x_at)} {li(d0)}", "shR", lambda: from_atomic_unit(x_at, d0))
    # update_fee: ticks around a range so that every branch (inside, same side, crossing up/down/over, touching a bound) is met
    f_lo = rng.randint(-3000, 3000)
    f_up = f_lo + rng.choice([0, 1, 10, 60, 600])
    pick = lambda: rng.choice([f_lo, f_up, f_lo - 1, f_up - 1, f_up + 1, rng.randint(f_lo - 700, f_up + 700)])      # noqa: E731
    f_last, f_close = pick(), pick()
    f_liq = rng.choice([0, rng.randint(1, 10**18)])
    f_cur = rng.choice([Decimal(0), Decimal(rng.randint(1, 10**22)), Decimal(f_liq), rand_dec()])
    f_in0, f_in1 = Decimal(rng.randint(0, 10**14)), rng.choice([Decimal(rng.randint(0, 10**24)), rand_dec()])
    f_p0, f_p1 = rng.choice([Decimal(0), rand_dec()]), rng.choice([Decimal(0), rand_dec()])

    def upd_fee():
        position = Position(f_p0, f_p1, f_liq, Decimal(1), Decimal(2), Decimal(1))
        st = UniV3PoolStatus(price=Decimal(1), currentLiquidity=f_cur, inAmount0=f_in0, inAmount1=f_in1, closeTick=f_close)
        V3CoreLib.update_fee(f_last, upool, PositionInfo(f_lo, f_up), position, st)
        return (position.pending_amount0, position.pending_amount1)
    case("uc_update_fee", f"unicore_update_fee NumCtx.py {li(f_liq)} {lr(f_cur)} {lr(f_in0)} {lr(f_in1)} {li(d0)} {li(d1)} {lr(upool.fee_rate)} "
                          f"{li(f_lo)} {li(f_up)} {li(f_close)} {lr(f_p0)} {lr(f_p1)} {li(f_last)}", "shRR", upd_fee)

    # ---- GMX v2 (float mode): the generated definitions at α = Float against CPython floats, bit for bit (NaN = NaN; the two zeros are one value:
    # the prelude's abs keeps the sign of -0.0, see Demeter/PyFloat.lean).  Labels ending in `(pow)` go through `**` (libm `pow`, an oracle).
    import struct
    from demeter.gmx.gmx_v2._typing import PoolConfig, GmxV2PoolStatus
    from demeter.gmx.gmx_v2.utils import Calc, PricingUtils
    from demeter.gmx.gmx_v2.MarketUtils import MarketUtils as MU
    from demeter.gmx.gmx_v2.SwapPricingUtils import SwapPriceUtils as SPU, SwapPricingType, GetPriceImpactUsdParams, PoolParams
    from demeter.gmx.gmx_v2.ExecuteDepositUtils import ExecuteDepositUtils as EDU
    from demeter.gmx.gmx_v2.ExecuteWithdrawUtils import ExecuteWithdrawUtils as EWU

    def lf(x):          # Lean Float from its bits
        return f"(Float.ofBits {struct.unpack('<Q', struct.pack('<d', float(x)))[0]})"

    def lof(x):
        return "none" if x is None else f"(some {lf(x)})"

    def fshow(v):
        if isinstance(v, (tuple, list)):
            return "[" + ", ".join(fshow(x) for x in v) + "]"
        if isinstance(v, complex):
            raise ArithmeticError("complex")
        v = float(v)
        if v != v:
            return "nan"
        if v == 0:
            return "0"
        return str(struct.unpack('<Q', struct.pack('<d', v))[0])

    def fcase(label, lean_call, fn, flat=None):
        try:
            r = fn()
            exp = "ok " + fshow(flat(r) if flat else r)
        except ArithmeticError as e:       # OverflowError, ZeroDivisionError are ArithmeticErrors; a complex result is reported as Unsupported
            nm = type(e).__name__
            exp = "err Unsupported" if nm == "ArithmeticError" else "err " + nm
        except TypeError:                  # arithmetic on a complex that came out of `**`
            exp = "err Unsupported"
        except Exception as e:  # noqa
            exp = "err " + type(e).__name__
        cases.append((label, f"shFs ({lean_call})", exp))

    def rf(kind=None):
        kind = kind or rng.choice(["amt", "amt", "amt", "price", "small", "zero", "neg", "huge"])
        if kind == "zero": return 0.0
        if kind == "neg": return -rng.uniform(0, 1e6)
        if kind == "huge": return rng.choice([1e200, 1e308, 1e-300, float("inf")]) if rng.random() < 0.5 else rng.uniform(1e15, 1e25)
        if kind == "small": return rng.uniform(0, 1e-6)
        if kind == "price": return rng.choice([1.0, rng.uniform(0.5, 70000)])
        return rng.uniform(0, 1e7)
    O = "floatOps64"
    x1, x2, x3 = rf(), rf(), rf()
    bl = rng.random() < 0.5
    lb = "true" if bl else "false"
    fcase("g2_diff", f"(gmx2_diff {lf(x1)} {lf(x2)}).map (fun r => [r])", lambda: [Calc.diff(x1, x2)])
    fcase("g2_toSigned", f"(gmx2_toSigned {lf(x1)} {lb}).map (fun r => [r])", lambda: [Calc.toSigned(x1, bl)])
    fcase("g2_sumUint", f"(gmx2_sumReturnUint256 {lf(x1)} {lf(x2)}).map (fun r => [r])", lambda: [Calc.sumReturnUint256(x1, x2)])
    fcase("g2_gm_price", f"(gmx2_get_gm_price {O} {lf(x1)} {lf(x2)}).map (fun r => [r])", lambda: [PricingUtils.get_gm_price(x1, x2)])
    ex = rng.choice([2.0, 2.0, 2.0, 1.0, 1.5, 2.2, 0.0, -1.0, 3.0])
    fa, fb_ = rng.choice([2e-10, 1e-9, 0.0, rf("small")]), rng.choice([4e-10, 5e-10, rf("small")])
    fcase("g2_applyImpactFactor(pow)", f"(gmx2_applyImpactFactor {O} {lf(x1)} {lf(fa)} {lf(ex)}).map (fun r => [r])",
          lambda: [PricingUtils.applyImpactFactor(x1, fa, ex)])
    d1, d2 = abs(x1), abs(x2)
    fcase("g2_sameSide(pow)", f"(gmx2_getPriceImpactUsdForSameSideRebalance {O} {lf(d1)} {lf(d2)} {lf(fa)} {lf(ex)}).map (fun r => [r])",
          lambda: [PricingUtils.getPriceImpactUsdForSameSideRebalance(d1, d2, fa, ex)])
    fcase("g2_crossover(pow)", f"(gmx2_getPriceImpactUsdForCrossoverRebalance {O} {lf(d1)} {lf(d2)} {lf(fa)} {lf(fb_)} {lf(ex)}).map (fun r => [r])",
          lambda: [PricingUtils.getPriceImpactUsdForCrossoverRebalance(d1, d2, fa, fb_, ex)])
    cfg = PoolConfig(18, 6, ex, fa, fb_, rng.choice([0.0005, 0.0]), rng.choice([0.0007, 0.01]), 0.0005, rng.choice([0.0007, 0.003]))
    fcase("g2_adjFactors", f"(gmx2_getAdjustedSwapImpactFactors {lf(fa)} {lf(fb_)}).map (fun r => [r.1, r.2])", lambda: MU.getAdjustedSwapImpactFactors(cfg))
    fcase("g2_impactWithCap", f"(gmx2_getSwapImpactAmountWithCap {O} {lf(x1)} {lf(x2)} {lf(x3)}).map (fun r => [r.1, r.2])",
          lambda: MU.getSwapImpactAmountWithCap(x1, x2, x3))
    fcase("g2_usdToGm", f"(gmx2_usdToMarketTokenAmount {O} {lf(x1)} {lf(x2)} {lf(x3)}).map (fun r => [r])", lambda: [MU.usdToMarketTokenAmount(x1, x2, x3)])
    la, sa = rf("amt"), rf("amt") * 2000
    lp, sp = rng.choice([rf("price"), 0.0]) if rng.random() < 0.1 else rf("price"), rng.choice([1.0, rf("price")])
    pv = rng.choice([la * lp + sa * sp, rf(), 0.0]) if rng.random() < 0.3 else la * lp + sa * sp
    sup = rng.choice([rf("amt"), 0.0]) if rng.random() < 0.1 else rf("amt") + 1.0
    vl, vs = (None, None) if rng.random() < 0.3 else (rng.choice([None, rf("amt")]), rf("amt") * 2000)
    ipool = rng.choice([0.0, rf("small"), rf("amt")])
    st = GmxV2PoolStatus(la, sa, vl, vs, pv, sup, ipool, lp, sp, lp)
    gm = rng.choice([rf("amt"), 0.0, rf()])
    fcase("g2_amountsFromGM", f"(gmx2_getTokenAmountsFromGM {O} {lf(la)} {lf(sa)} {lf(pv)} {lf(sup)} {lf(lp)} {lf(sp)} {lf(gm)}).map (fun r => [r.1, r.2])",
          lambda: MU.getTokenAmountsFromGM(st, gm))
    da, db = rng.choice([rf("amt"), -rf("amt"), 0.0]) * lp, rng.choice([rf("amt"), -rf("amt"), 0.0])
    prm = GetPriceImpactUsdParams(cfg, lp, sp, da, db, True, True)
    pp4 = lambda r: [r.poolUsdForTokenA, r.poolUsdForTokenB, r.nextPoolUsdForTokenA, r.nextPoolUsdForTokenB]      # noqa: E731
    fcase("g2_nextPoolParams", f"(gmx2_getNextPoolAmountsParams {lf(lp)} {lf(sp)} {lf(da)} {lf(db)} {lf(la)} {lf(sa)}).map "
                               "(fun r => [r.1, r.2.1, r.2.2.1, r.2.2.2])", lambda: pp4(SPU.getNextPoolAmountsParams(prm, la, sa)))
    ppv = PoolParams(rf("amt"), rf("amt"), rf("amt"), rf("amt"))
    fcase("g2__getPriceImpactUsd(pow)", f"(gmx2__getPriceImpactUsd {O} {lf(fa)} {lf(fb_)} {lf(ex)} "
                                        f"({lf(ppv.poolUsdForTokenA)}, {lf(ppv.poolUsdForTokenB)}, {lf(ppv.nextPoolUsdForTokenA)}, {lf(ppv.nextPoolUsdForTokenB)})).map (fun r => [r])",
          lambda: [SPU._getPriceImpactUsd(cfg, ppv)])
    fcase("g2_getPriceImpactUsd(pow)", f"(gmx2_getPriceImpactUsd {O} {lf(lp)} {lf(sp)} {lf(da)} {lf(db)} true true {lf(fa)} {lf(fb_)} {lf(ex)} "
                                       f"{lf(la)} {lf(sa)} {lof(vl)} {lof(vs)}).map (fun r => [r])", lambda: [SPU.getPriceImpactUsd(prm, st)])
    spt = rng.choice(list(SwapPricingType))
    fcase("g2_getSwapFees", f"(gmx2_getSwapFees {lf(cfg.depositFeeFactorForPositiveImpact)} {lf(cfg.depositFeeFactorForNegativeImpact)} "
                            f"{lf(cfg.withdrawFeeFactorForPositiveImpact)} {lf(cfg.withdrawFeeFactorForNegativeImpact)} {lf(x1)} {lb} {li(spt.value)}).map (fun r => [r.1, r.2])",
          lambda: (lambda f_: [f_.amountAfterFees, f_.totalFee])(SPU.getSwapFees(cfg, x1, bl, spt)))
    fees4 = f"{lf(cfg.depositFeeFactorForPositiveImpact)} {lf(cfg.depositFeeFactorForNegativeImpact)} {lf(cfg.withdrawFeeFactorForPositiveImpact)} {lf(cfg.withdrawFeeFactorForNegativeImpact)}"
    amt_in, imp = rf("amt"), rng.choice([rf("amt"), -rf("amt"), 0.0, -rf("huge")])
    left = rng.choice([None, ipool, rf("small")])
    fcase("g2_calc_token_amount", f"(gmx2_calc_token_amount {O} {fees4} {lf(pv)} {lf(sup)} {lf(ipool)} {lf(lp)} {lf(sp)} {lf(amt_in)} {lf(imp)} {lof(left)}).map "
                                  "(fun r => [r.1, r.2.1, r.2.2])",
          lambda: (lambda r: [r[0], r[1].amountAfterFees, r[1].totalFee])(EDU.calc_token_amount(cfg, st, lp, sp, amt_in, imp, left)))
    dl_, ds_ = rng.choice([rf("amt") / 1000, 0.0, -1.0]), rng.choice([rf("amt"), 0.0])
    lp9 = lambda r: [r.long_amount, r.short_amount, r.total_usd, r.gm_amount, r.gm_usd, r.long_fee, r.short_fee, r.fee_usd, r.price_impact_usd]   # noqa: E731
    L9 = "(fun r => [r.1, r.2.1, r.2.2.1, r.2.2.2.1, r.2.2.2.2.1, r.2.2.2.2.2.1, r.2.2.2.2.2.2.1, r.2.2.2.2.2.2.2.1, r.2.2.2.2.2.2.2.2])"
    fcase("g2_get_mint_amount(pow)", f"(gmx2_get_mint_amount {O} {lf(fa)} {lf(fb_)} {lf(ex)} {fees4} {lf(la)} {lf(sa)} {lof(vl)} {lof(vs)} {lf(pv)} {lf(sup)} "
                                     f"{lf(ipool)} {lf(lp)} {lf(sp)} {lf(dl_)} {lf(ds_)}).map {L9}", lambda: lp9(EDU.get_mint_amount(cfg, st, dl_, ds_)))
    fcase("g2_getOutputAmount", f"(gmx2_getOutputAmount {O} {fees4} 18 6 {lf(la)} {lf(sa)} {lf(pv)} {lf(sup)} {lf(lp)} {lf(sp)} {lf(gm)}).map {L9}",
          lambda: lp9(EWU.getOutputAmount(cfg, st, gm)))

    # ---- result/metrics/calculator.py: the drawdown scan on a list of Python floats (what `Series.to_list()` hands it)
    from demeter.result.metrics.calculator import _withdraw_with_high_low, return_value
    nv = [rng.choice([rf("amt"), rf("amt"), 0.0, rf("neg"), 100.0]) for _ in range(rng.choice([0, 1, 2, 3, 5, 8, 13]))]
    if rng.random() < 0.3:
        nv = sorted(nv)
    fcase("m_withdraw_high_low", f"(metrics_withdraw_with_high_low {O} [{', '.join(lf(x) for x in nv)}]).map (fun r => [r.1, Float.ofInt r.2.1, Float.ofInt r.2.2])",
          lambda: (lambda r: [float(r[0]), float(r[1]), float(r[2])])(_withdraw_with_high_low(list(nv))))
    fcase("m_return_value", f"(metrics_return_value {lf(x1)} {lf(x2)}).map (fun r => [r])", lambda: [return_value(x1, x2)])

HEAD = """import Demeter.Gen.PySqueethMarket
import Demeter.Gen.PyMetricsCalculator
import Demeter.Gen.PyGmx2ExecuteDepositUtils
import Demeter.Gen.PyGmx2ExecuteWithdrawUtils
import Demeter.Gen.PyUniswapCore
import Demeter.Gen.PyTrigger
import Demeter.Gen.PyBrokerTyping
import Demeter.Gen.PyLiquitidyMath
import Demeter.Gen.PyAaveCore
import Demeter.Gen.PyDeribitMarket
open Demeter Demeter.Py
def shErr : Err → String
  | .ZeroDivisionError => "ZeroDivisionError" | .DivisionByZero => "DivisionByZero" | .InvalidOperation => "InvalidOperation"
  | .AssertionError => "AssertionError" | .KeyError => "KeyError" | .ValueError => "ValueError" | .TypeError => "TypeError" | .IndexError => "IndexError"
  | .Raised c => c | .Unsupported w => "Unsupported:" ++ w
def rs (v : Rat) : String := s!"{v.num}/{v.den}"
def shI : Except Err Int → String | .ok v => s!"ok {v}" | .error e => "err " ++ shErr e
def shR : Except Err Rat → String | .ok v => "ok " ++ rs v | .error e => "err " ++ shErr e
def shRR : Except Err (Rat × Rat) → String | .ok v => s!"ok ({rs v.1}, {rs v.2})" | .error e => "err " ++ shErr e
def shS : Except Err String → String | .ok v => "ok " ++ v | .error e => "err " ++ shErr e
def fb (x : Float) : String := if x.isNaN then "nan" else if x == 0 then "0" else toString x.toBits
def shFs : Except Err (List Float) → String
  | .ok v => "ok [" ++ String.intercalate ", " (v.map fb) ++ "]"
  | .error (.Unsupported _) => "err Unsupported"
  | .error e => "err " ++ shErr e
def shX : Except Err XDec → String | .ok (.fin v) => "ok " ++ rs v | .ok .inf => "ok inf" | .error e => "err " ++ shErr e
"""

# the imported modules must be compiled against the current prelude / generated sources (`lake env lean` does not rebuild imports)
mods = [l.split()[1] for l in HEAD.split("\n") if l.startswith("import ")]
pb = subprocess.run(["lake", "build"] + mods, cwd=os.path.join(V, "lean"), stdout=subprocess.PIPE, stderr=subprocess.STDOUT, text=True)
if pb.returncode != 0:
    print("py2lean_diff: lake build of the generated modules failed:\n" + pb.stdout[-1500:])
    sys.exit(2)
with tempfile.NamedTemporaryFile("w", suffix=".lean", delete=False, dir="/tmp") as f:
    f.write(HEAD)
    for _, lean, _ in cases:
        f.write(f"#eval IO.println ({lean})\n")
    path = f.name
p = subprocess.run(["lake", "env", "lean", path], cwd=os.path.join(V, "lean"), stdout=subprocess.PIPE, stderr=subprocess.STDOUT, text=True)
os.unlink(path)
out = [l for l in p.stdout.split("\n") if l and "conda" not in l]
if len(out) != len(cases):
    print(f"py2lean_diff: lean produced {len(out)} lines for {len(cases)} cases; first lines:\n" + "\n".join(out[:8]))
    sys.exit(2)
bad, per = 0, {}
for (label, lean, exp), got in zip(cases, out):
    per.setdefault(label, [0, 0])[0] += 1
    if got.strip() != exp:
        per[label][1] += 1
        bad += 1
        if bad <= 10:
            print(f"MISMATCH {label}: python {exp!r} lean {got.strip()!r}\n   {lean[:300]}")
print("py2lean_diff: " + ", ".join(f"{k} {v[0] - v[1]}/{v[0]}" for k, v in per.items()))
kinds = {}
for _, _, exp in cases:
    k = exp if exp.startswith("err") or exp == "ok inf" else "ok"
    kinds[k] = kinds.get(k, 0) + 1
print("py2lean_diff: outcomes " + ", ".join(f"{k}: {v}" for k, v in sorted(kinds.items())))
print(f"py2lean_diff: {len(cases)} cases, {bad} mismatches")
sys.exit(1 if bad else 0)
