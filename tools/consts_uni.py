"""Constants of the Uniswap market model (lean/Demeter/Gen/ConstsUni.lean)."""
import ast


def register(add, parse, find_func, const_int, rat_of, ShapeError, module_assign):
    # MIN_ERROR = Decimal("1e-31")  (uniswap/helper.py) — the threshold below which add_liquidity_by_value does not swap
    tree = parse("demeter/uniswap/helper.py")
    v = module_assign(tree, "MIN_ERROR")
    if not (isinstance(v, ast.Call) and getattr(v.func, "id", "") == "Decimal" and isinstance(v.args[0], ast.Constant)):
        raise ShapeError("MIN_ERROR is not Decimal(<literal>)")
    add("uniMinError", "Rat", rat_of(v.args[0].value), f"MIN_ERROR = Decimal({v.args[0].value!r}) (uniswap/helper.py)")
    # in_range of update_fee: `tick >= pos.upper_tick` -> 1, `tick < pos.lower_tick` -> -1 (half-open range [lower, upper))
    tree = parse("demeter/uniswap/core.py")
    fn = find_func(tree, "update_fee", cls="V3CoreLib")
    inr = None
    for n in ast.walk(fn):
        if isinstance(n, ast.FunctionDef) and n.name == "in_range":
            inr = n
    if inr is None:
        raise ShapeError("update_fee.in_range not found")
    tests = [t for t in ast.walk(inr) if isinstance(t, ast.Compare)]
    ops = [type(t.ops[0]).__name__ + ":" + getattr(t.comparators[0], "attr", "?") for t in tests]
    if ops != ["GtE:upper_tick", "Lt:lower_tick"]:
        raise ShapeError("update_fee.in_range comparisons changed: " + repr(ops))
    add("uniUpperInclusiveAbove", "Bool", "true", "in_range: tick >= upper_tick is above (1), tick < lower_tick is below (-1)")
    # the weight alarm: `if weight_decimal > 1`
    alarm = [n for n in ast.walk(fn) if isinstance(n, ast.Compare) and getattr(n.left, "id", "") == "weight_decimal"]
    if len(alarm) != 1 or not isinstance(alarm[0].ops[0], ast.Gt) or const_int(alarm[0].comparators[0]) != 1:
        raise ShapeError("update_fee weight alarm changed")
    add("uniWeightAlarm", "Rat", "(1 : Rat)", "update_fee raises RuntimeError when weight_decimal > 1")
    # pool fee tiers -> tick spacing: int(fee * 200)
    tree = parse("demeter/uniswap/_typing.py")
    init = find_func(tree, "__init__", cls="UniV3Pool")
    mult = None
    for n in ast.walk(init):
        if isinstance(n, ast.Assign) and getattr(n.targets[0], "attr", "") == "tick_spacing":
            c = n.value
            if isinstance(c, ast.Call) and getattr(c.func, "id", "") == "int" and isinstance(c.args[0], ast.BinOp):
                mult = const_int(c.args[0].right)
    if mult is None:
        raise ShapeError("UniV3Pool.tick_spacing = int(fee * K) not found")
    add("uniSpacingPerFeePercent", "Nat", str(mult), "UniV3Pool.tick_spacing = int(fee * 200), fee in percent")
