#!/usr/bin/env python3
"""tools/benign_all.py [-j N] [name ...]: run, against every behaviour-preserving change under benign/<name>/ (patch.diff, meta.json), the quick
check of every property whose anchored source files the patch touches (tools/seedtest.sh).  A VIOLATION there is a false alarm of that check
(or shows that the change is not as harmless as claimed: then it is moved to seeded/).  Verdicts go to meta.json and reports/benign_table.md."""
import glob, json, os, re, subprocess, sys
from concurrent.futures import ThreadPoolExecutor
V = os.path.dirname(os.path.dirname(os.path.abspath(__file__)))
J = int(sys.argv[sys.argv.index("-j") + 1]) if "-j" in sys.argv else 3
names = [a for a in sys.argv[1:] if not a.startswith("-") and not a.isdigit()]
props = [json.loads(l) for l in open(os.path.join(V, "properties.jsonl"))]
HEAD = subprocess.run(["git", "-C", V, "rev-parse", "--short", "HEAD"], capture_output=True, text=True).stdout.strip()
dirs = [os.path.join(V, "benign", n) for n in names] or sorted(glob.glob(os.path.join(V, "benign", "*-b*")))

def one(d):
    files = re.findall(r"^\+\+\+ b/(\S+)", open(os.path.join(d, "patch.diff")).read(), re.M)
    common = ("demeter/_typing.py", "demeter/utils/", "demeter/broker/")
    ps = [p["id"] for p in props if any(f in p["anchors"]["files"] or f.startswith(common) for f in files)]
    p = subprocess.run(["sh", os.path.join(V, "tools", "seedtest.sh"), d] + ps, capture_output=True, text=True)
    out = [l for l in (p.stdout + p.stderr).split("\n") if "conda" not in l]
    res = {}
    for i, l in enumerate(out):
        m = re.match(r"== (C\d+): (\d+) VIOLATION", l)
        if m:
            res[m.group(1)] = {"violations": int(m.group(2)), "last": out[i + 1].strip() if i + 1 < len(out) else ""}
    mp = os.path.join(d, "meta.json")
    m = json.load(open(mp))
    m["checked_at"], m["checks"] = HEAD, res
    m["alarms"] = sorted(k for k, v in res.items() if v["violations"] or "exit 0" not in v["last"])
    json.dump(m, open(mp, "w"), indent=1)
    return os.path.basename(d), m

with ThreadPoolExecutor(J) as ex:
    res = list(ex.map(one, dirs))
with open(os.path.join(V, "reports", "benign_table.md"), "w") as f:
    f.write("| harmless change | what | checks run | alarms |\n|---|---|---|---|\n")
    for n, m in res:
        f.write(f"| {n} | {m.get('summary','')[:160].replace('|','/')} | {' '.join(sorted(m['checks']))} | {' '.join(m['alarms']) or '—'} |\n")
for n, m in res:
    print(n, "ALARM " + " ".join(m["alarms"]) if m["alarms"] else "quiet", f"({len(m['checks'])} checks)")
