"""C08 — per-bar LP fee (V3CoreLib.update_fee, UniLpMarket.set_market_status/update, the second refresh of Actuator.run)."""
from __future__ import annotations

import logging
from decimal import Decimal
from fractions import Fraction

import numpy as np
import pandas as pd

from common import Ctx, driver_json, fmt, rel_close
import uni_common as U

PROPERTY = "C08"
LEAN_MODULES = ["Proofs.C08", "Proofs.C08.Bar", "Proofs.C08.Ops", "Proofs.C08.Shares", "Proofs.C08.Range", "Proofs.C08.RangeOps", "Proofs.C08.Run"]
DRIVERS = ["driver"]
RULE = ("(a) direct V3CoreLib.update_fee on random (previous close | nan, close, range, own/pool liquidity, volumes, decimals, fee tier, tick dtype "
        "python-int/int64/float64) with a boundary stream (close or previous close exactly on a bound, one tick inside, jump across the whole range "
        "both ways, stationary inside/outside, zero liquidity, zero pool); (b) real Actuator.run with a scripted strategy that adds / removes / "
        "collects / swaps in initialize, before_bar, on_bar and after_bar of random bars, every set_market_status and update() observed, and after every update() "
        "the market's own get_market_balance().base_uncollected/quote_uncollected compared with the exact sum of the held positions' pending "
        "amounts mapped by is_token0_quote (buckets uncollected:<orientation>:<tokens pending>:<held>:<transferred out>:<exact|rounded>); adds on an empty range "
        "(lower = upper, or two ticks that trim_tick rounds together) must raise ZeroDivisionError and change nothing, and every position handed "
        "to update() must have lower < upper and liquidity >= 0 (the invariant C08_runOps_preserves_range); in "
        "half of the runs the broker carries a second, never-written market registered before or after the one under test. "
        "Buckets = (stream, path class, model branch tag, outcome, dtype | phase pattern of the bar).")
TRUSTED = ["arithmetic theorems are for the exact rational semantics; the driver reproduces the 35-digit Decimal results bit-exactly and the oracle "
           "allows 1e-30 relative (five roundings of 5e-35)",
           "the strategy's operations enter the bar theorems as arbitrary state transformers satisfying Frame/Coherent; that every concrete "
           "UniLpMarket operation satisfies them is proved in Proofs/C08/Ops.lean for the model of the operations",
           "pandas row extraction (`data.loc[ts]`) and the Actuator's phase order are exercised through the real code, not modelled"]
ASSUMPTIONS = ["Decimal arithmetic = exact result rounded half-even to 35 digits",
               "pool data rows carry Decimal amounts/liquidity (as load_uni_v3_data produces) or Python ints",
               "bar 0 has no previous bar: its path starts at its own close (DESIGN.md decision)",
               "run-level theorems (C08_run_fees*): the market is fresh at the start of the run and every data row has currentLiquidity > 0; the "
               "other side conditions (lower < upper, liquidity >= 0, pool + own != 0) are proved invariant (Proofs/C08/Range*.lean, Run.lean) "
               "and observed on the implementation's states",
               "pool + own liquidity stays below 1e35: beyond 35 digits Python's sum() over a mix of int and Decimal liquidities rounds after every "
               "addition while the model rounds the exact total once (last-digit difference; such states are counted and the refreshed "
               "currentLiquidity is not compared)"]

TOL = Fraction(1, 10 ** 30)
POOLS = [(6, 18, True), (6, 18, False), (18, 6, True), (18, 6, False), (8, 18, True), (18, 18, False), (6, 6, True), (18, 8, False)]
FEES = [0.05, 0.3, 1]


def mk_pool(rng):
    TokenInfo, Broker, MarketInfo, UniLpMarket, UniV3Pool, UniswapMarketStatus = U.imports()
    d0, d1, q0 = rng.choice(POOLS)
    t0, t1 = TokenInfo("ta", d0), TokenInfo("tb", d1)
    return UniV3Pool(t0, t1, rng.choice(FEES), t0 if q0 else t1)


# ------------------------------------------------------------------------------------------ (a) direct update_fee
PATHS = ["in-in", "above-above", "below-below", "in-above", "above-in", "below-in", "in-below", "below-above", "above-below",
         "close=upper", "close=lower", "prev=upper", "prev=lower", "close=upper-1", "below-lower", "stat-in", "stat-out", "nan-in", "nan-out",
         "random"]


def gen_direct(rng, pool):
    sp = pool.tick_spacing
    c = rng.randint(-2500, 2500) * sp
    w = rng.choice((1, 1, 2, 5, 50, 500)) * sp
    lower, upper = c - w * rng.randint(1, 3), c + w * rng.randint(1, 3)
    lower, upper = max(lower, -887200), min(upper, 887200)
    kind = rng.choice(PATHS)

    def inside():
        return rng.randint(lower, upper - 1)

    def above():
        return upper + rng.choice((0, 1, rng.randint(0, 5000)))

    def below():
        return lower - rng.choice((1, 2, rng.randint(1, 5000)))
    prev = close = None
    if kind == "in-in":
        prev, close = inside(), inside()
    elif kind == "above-above":
        prev, close = above(), above()
    elif kind == "below-below":
        prev, close = below(), below()
    elif kind == "in-above":
        prev, close = inside(), above()
    elif kind == "above-in":
        prev, close = above(), inside()
    elif kind == "below-in":
        prev, close = below(), inside()
    elif kind == "in-below":
        prev, close = inside(), below()
    elif kind == "below-above":
        prev, close = below(), above()
    elif kind == "above-below":
        prev, close = above(), below()
    elif kind == "close=upper":
        prev, close = rng.choice((inside(), below(), above())), upper
    elif kind == "close=lower":
        prev, close = rng.choice((inside(), below(), above())), lower
    elif kind == "prev=upper":
        prev, close = upper, rng.choice((inside(), below(), above()))
    elif kind == "prev=lower":
        prev, close = lower, rng.choice((inside(), below(), above()))
    elif kind == "close=upper-1":
        prev, close = rng.choice((inside(), below(), above())), upper - 1
    elif kind == "below-lower":
        prev, close = lower - 1, lower
    elif kind == "stat-in":
        prev = close = inside()
    elif kind == "stat-out":
        prev = close = rng.choice((above(), below()))
    elif kind == "nan-in":
        prev, close = None, inside()
    elif kind == "nan-out":
        prev, close = None, rng.choice((above(), below()))
    else:
        prev, close = rng.randint(lower - 3 * w, upper + 3 * w), rng.randint(lower - 3 * w, upper + 3 * w)
    r = rng.random()
    liq = 0 if r < 0.05 else (1 if r < 0.1 else rng.randint(1, 10 ** rng.randint(3, 26)))
    r = rng.random()
    pool_liq = Decimal(0) if r < 0.04 else Decimal(rng.randint(1, 10 ** rng.randint(6, 28)))
    cur = pool_liq + liq if rng.random() < 0.8 else pool_liq + liq + rng.randint(0, 10 ** 20)
    if rng.random() < 0.15:
        cur = int(cur)

    def vol():
        r = rng.random()
        if r < 0.08:
            return Decimal(0)
        v = Decimal(rng.randint(1, 10 ** rng.randint(1, 30)))
        return v if rng.random() < 0.85 else int(v)
    in0, in1 = vol(), vol()

    def pend():
        return Decimal(0) if rng.random() < 0.5 else Decimal(rng.randint(0, 10 ** 12)) / Decimal(10 ** rng.randint(0, 18))
    dtype = rng.choice(("int", "int", "int64", "float64"))
    return dict(kind=kind, lower=lower, upper=upper, prev=prev, close=close, liq=liq, cur=cur, in0=in0, in1=in1, p0=pend(), p1=pend(), dtype=dtype)


def cast_tick(t, dtype):
    if t is None:
        return np.nan
    return {"int": int, "int64": np.int64, "float64": np.float64}[dtype](t)


def run_direct_case(ctx, pool, c, reqs):
    from demeter.uniswap.core import V3CoreLib
    from demeter.uniswap._typing import PositionInfo, Position
    key = PositionInfo(c["lower"], c["upper"])
    pos = Position(c["p0"], c["p1"], c["liq"], Decimal(1), Decimal(2), Decimal(1))
    st = pd.Series(data=[c["in0"], c["in1"], c["cur"], cast_tick(c["close"], c["dtype"]), Decimal(1)],
                   index=["inAmount0", "inAmount1", "currentLiquidity", "closeTick", "price"], dtype=object)
    rep = {k: (fmt(v) if isinstance(v, Decimal) else v) for k, v in c.items()}
    rep["pool"] = U.pool_json(pool)
    before = U.pos_json(key, pos)
    row = U.row_json(st)
    err = None
    try:
        with U.guard("update_fee"):
            V3CoreLib.update_fee(cast_tick(c["prev"], c["dtype"]), pool, key, pos, st)
    except Exception as e:  # noqa: BLE001
        err = type(e).__name__
    after = U.pos_json(key, pos)
    reqs.append((rep, {"fn": "uni.updateFee", "pool": rep["pool"], "last": None if c["prev"] is None else str(c["prev"]), "row": row, "pos": before},
                 err, after))
    # ---- oracle on the implementation's own observation
    d0, d1 = pool.token0.decimal, pool.token1.decimal
    dp0 = Fraction(pos.pending_amount0) - Fraction(c["p0"])
    dp1 = Fraction(pos.pending_amount1) - Fraction(c["p1"])
    cur = Fraction(c["cur"])
    tag = f"direct:{c['kind']}:{c['dtype']}:{'liq0' if c['liq'] == 0 else 'liq+'}:{'pool0' if cur == 0 else 'pool+'}:{err or 'ok'}"
    ctx.case(tag, rep)
    if c["prev"] is None:
        return   # a fresh market's nan: no previous close to talk about (the Actuator never updates fees in that state)
    if cur == 0:
        return   # division by an empty pool: rejected by Decimal, nothing accrues
    if err is not None:
        ctx.violate(f"update_fee.raises.{err}.{c['dtype']}",
                    f"update_fee raised {err} for prev={c['prev']} close={c['close']} range=[{c['lower']},{c['upper']}) tick dtype {c['dtype']} "
                    f"instead of accruing the in-range fraction", rep)
        return
    pf = U.path_fraction(c["prev"], c["close"], c["lower"], c["upper"])
    share = Fraction(c["liq"]) / cur
    e0 = Fraction(int(c["in0"]), 10 ** d0) * Fraction(pool.fee_rate) * pf * share
    e1 = Fraction(int(c["in1"]), 10 ** d1) * Fraction(pool.fee_rate) * pf * share
    if dp0 < 0 or dp1 < 0:
        ctx.violate("update_fee.negative", f"negative accrual ({dp0}, {dp1})", rep)
    if pf == 0 and (dp0 != 0 or dp1 != 0):
        ctx.violate("update_fee.out_of_range_earns", f"path fraction 0 but accrued ({float(dp0)}, {float(dp1)})", rep)
    # absolute allowance: the sum pending+fee is itself rounded to 35 digits
    a0 = TOL * max(abs(Fraction(c["p0"])), e0)
    a1 = TOL * max(abs(Fraction(c["p1"])), e1)
    if abs(dp0 - e0) > a0 or abs(dp1 - e1) > a1:
        ctx.violate("update_fee.amount", f"accrued ({float(dp0):.12g}, {float(dp1):.12g}) but volume*fee*fraction*share = ({float(e0):.12g}, {float(e1):.12g}) "
                    f"(fraction {pf}, share {float(share):.6g})", rep)
    ctx.dev(dp0 + Fraction(c["p0"]), e0 + Fraction(c["p0"]))
    ctx.dev(dp1 + Fraction(c["p1"]), e1 + Fraction(c["p1"]))


def run_direct(ctx: Ctx):
    n = ctx.scale(12000, 200000)
    reqs = []
    for _ in range(n):
        pool = mk_pool(ctx.rng)
        run_direct_case(ctx, pool, gen_direct(ctx.rng, pool), reqs)
    ctx.impl_traces += n
    if ctx.driver_ok:
        out = driver_json([r[1] for r in reqs])
        for (rep, req, err, after), o in zip(reqs, out):
            m_err = o.get("error")
            if m_err is not None and "case" not in o:
                ctx.disagree(f"uni.updateFee: driver error {m_err}", rep)
            elif (m_err or None) != err:
                ctx.disagree(f"uni.updateFee outcome: impl {err or 'ok'} model {m_err or 'ok'} (model branch {o.get('case')})", rep)
            elif err is None:
                d = U.diff_json(after, o["pos"])
                if d:
                    ctx.disagree(f"uni.updateFee result differs at {d}", rep)
            ctx.count("model_branch_" + str(o.get("case")))


# ------------------------------------------------------------------------------------------ (b) Actuator runs
def gen_run(rng, pool):
    """tick path + per-bar pool data + a script of operations by phase"""
    sp = pool.tick_spacing
    n = rng.randint(4, 14)
    c = rng.randint(-300, 300) * sp * 10
    w = rng.choice((2, 5, 20)) * sp
    ticks = [c + rng.randint(-w, w)]
    for _ in range(n - 1):
        r = rng.random()
        if r < 0.2:
            ticks.append(ticks[-1])
        elif r < 0.6:
            ticks.append(ticks[-1] + rng.randint(-w, w))
        elif r < 0.8:
            ticks.append(c + rng.choice((-1, 1)) * rng.randint(w, 6 * w))
        else:
            ticks.append(c + rng.choice((-w, w, 0, -w - 1, w - 1)))   # on the bounds of the central range
    in0 = [rng.randint(0, 10 ** rng.randint(6, 24)) for _ in range(n)]
    in1 = [rng.randint(0, 10 ** rng.randint(6, 24)) for _ in range(n)]
    for k in range(n):
        # one-directional bars: only one of the two tokens flowed in (or none did); the other token's fee is still owed
        r = rng.random()
        if r < 0.12:
            in0[k] = 0
        elif r < 0.24:
            in1[k] = 0
        elif r < 0.28:
            in0[k] = in1[k] = 0
    liqs = [rng.randint(10 ** 10, 10 ** 22) for _ in range(n)]
    ranges = [(c - w, c + w), (c - 3 * w, c - w), (c + w, c + 4 * w), (c - 6 * w, c + 6 * w), (c, c + sp)]

    def op():
        r = rng.random()
        if r < 0.45:
            lo, up = rng.choice(ranges)
            return ("add", lo, up, rng.choice(("0.01", "0.5", "3")), rng.choice(("10", "500", "2000")))
        if r < 0.6:
            return ("remove", rng.randint(0, 3), rng.choice((None, 0.5, 0.1)), rng.random() < 0.5)
        if r < 0.75:
            return ("collect", rng.randint(0, 3))
        if r < 0.84:
            return ("sell", rng.choice(("0.001", "0.2")))
        if r < 0.92:
            return ("buy", rng.choice(("0.001", "0.2")))
        # a position lent to another market (what the squeeth market does with vault collateral) and taken back: it stays a position of this
        # market's owner, its liquidity stays part of the own-liquidity term and it keeps earning
        return ("transfer_out", rng.randint(0, 3)) if r < 0.97 else ("transfer_in", rng.randint(0, 3))
    plan = {"init": [], "before": {}, "on": {}, "after": {}}
    if rng.random() < 0.5:
        plan["init"] = [("add",) + tuple(ranges[0]) + ("0.5", "500")]
    else:
        plan["on"][0] = [("add",) + tuple(ranges[0]) + ("0.5", "500")]
    for k in range(n):
        for ph, pr in (("before", 0.1), ("on", 0.35), ("after", 0.15)):
            if rng.random() < pr:
                plan[ph].setdefault(k, []).extend(op() for _ in range(rng.randint(1, 2)))
    # an add on an empty range: lower = upper given directly, or two different ticks that trim_tick rounds to the same usable tick (spacing >= 10).
    # _add_liquidity_by_tick only refuses lower > upper; the empty range must die in get_liquidity (ZeroDivisionError) before anything changes
    # (theorems C08_empty_range_rejected / C08_std_kernel_rejects_empty_range), so that no position with lower = upper ever exists
    if rng.random() < 0.6:
        k = rng.randrange(n)
        e = c + sp * rng.randint(-3, 3)
        lo, up = rng.choice(((e, e), (e + 1, e + 2), (e + 2, e - 1), (e - sp // 2 + 1, e + sp // 2 - 1)))
        plan[rng.choice(("before", "on", "on", "after"))].setdefault(k, []).append(("add_empty", lo, up, rng.choice(("0", "0.5")), rng.choice(("0", "500"))))
    dtype = "float64" if rng.random() < 0.7 else "int64"
    # a second market on the same broker that the script never writes to, registered before or after the Uniswap market under test:
    # the per-bar refresh after on_bar must reach every market with a pending write, whatever the other markets did
    probe = rng.choice((None, None, "before", "before", "after"))
    return dict(ticks=ticks, in0=in0, in1=in1, liqs=liqs, plan=plan, dtype=dtype, probe=probe)


def snapshot(market):
    return ([(int(k.lower_tick), int(k.upper_tick), Fraction(p.liquidity), Fraction(p.pending_amount0), Fraction(p.pending_amount1), bool(p.transferred))
             for k, p in market.positions.items()],
            {t.name: Fraction(a.balance) for t, a in market.broker.assets.items()})


def do_op(market, op, log):
    keys = list(market.positions.keys())
    if op[0] == "add_empty":
        before, outcome = snapshot(market), "ok"
        try:
            market.add_liquidity_by_tick(op[1], op[2], Decimal(op[3]), Decimal(op[4]))
        except Exception as e:  # noqa: BLE001
            outcome = type(e).__name__
        log.append(("add_empty", outcome, snapshot(market) == before, (op[1], op[2])))
        return
    try:
        if op[0] == "add":
            market.add_liquidity_by_tick(op[1], op[2], Decimal(op[3]), Decimal(op[4]))
        elif op[0] == "remove":
            if keys:
                k = keys[op[1] % len(keys)]
                liq = None if op[2] is None else int(Fraction(market.positions[k].liquidity) * Fraction(op[2]))
                market.remove_liquidity(k, liq, collect=op[3])
        elif op[0] == "collect":
            if keys:
                market.collect_fee(keys[op[1] % len(keys)])
        elif op[0] == "transfer_out":
            if keys:
                market.transfer_position_out(keys[op[1] % len(keys)])
        elif op[0] == "transfer_in":
            if keys:
                market.transfer_position_in(keys[op[1] % len(keys)])
        elif op[0] == "sell":
            market.sell(Decimal(op[1]))
        elif op[0] == "buy":
            market.buy(Decimal(op[1]))
        log.append((op[0], "ok"))
    except Exception as e:  # noqa: BLE001
        log.append((op[0], type(e).__name__))


def exec_run(pool, case, extra=None):
    """run the real Actuator; returns (records, error class of the run or None)"""
    from demeter import Actuator, Strategy, MarketInfo
    from demeter.uniswap import UniLpMarket
    mk = MarketInfo("uni")
    plan = case["plan"]
    oplog = []

    class Script(Strategy):
        def initialize(self):
            for op in plan["init"]:
                do_op(self.broker.markets[mk], op, oplog)

        def before_bar(self, snapshot):
            for op in plan["before"].get(snapshot.row_id, []):
                do_op(self.broker.markets[mk], op, oplog)

        def on_bar(self, snapshot):
            for op in plan["on"].get(snapshot.row_id, []):
                do_op(self.broker.markets[mk], op, oplog)
            if extra:
                for op in extra.get(snapshot.row_id, []):
                    do_op(self.broker.markets[mk], op, oplog)

        def after_bar(self, snapshot):
            for op in plan["after"].get(snapshot.row_id, []):
                do_op(self.broker.markets[mk], op, oplog)

    act = Actuator()
    act.strategy = Script()
    market = UniLpMarket(mk, pool)
    probe = case.get("probe")
    if probe:
        other = UniLpMarket(MarketInfo("probe"), pool)
        other.data = U.mk_data(pool, case["ticks"], case["in0"], case["in1"], case["liqs"], case["dtype"])
    if probe == "before":
        act.broker.add_market(other)
    act.broker.add_market(market)
    if probe == "after":
        act.broker.add_market(other)
    act.broker.set_balance(pool.base_token, Decimal(100))
    act.broker.set_balance(pool.quote_token, Decimal(200000))
    market.data = U.mk_data(pool, case["ticks"], case["in0"], case["in1"], case["liqs"], case["dtype"])
    act.set_price(market.get_price_from_data())
    recs = []
    orig_update, orig_set = market.update, market.set_market_status

    def upd():
        before = U.state_json(market, act.broker)
        err = None
        bal = None
        try:
            orig_update()
            # what the market itself reports as uncollected fees right after the bar's accrual (UniLpBalance.base_uncollected / quote_uncollected)
            try:
                mb = market.get_market_balance()
                bal = {"base": U.num(Decimal(mb.base_uncollected)), "quote": U.num(Decimal(mb.quote_uncollected)), "count": int(mb.position_count)}
            except Exception as e:  # noqa: BLE001
                bal = {"error": type(e).__name__}
        except Exception as e:  # noqa: BLE001
            err = type(e).__name__
            raise
        finally:
            recs.append(("update", before, U.state_json(market, act.broker), err, bal))

    def setst(ms, price):
        before = U.state_json(market, act.broker)
        k = U.ts_index(market, ms.timestamp)
        orig_set(ms, price)
        recs.append(("set", before, U.state_json(market, act.broker), k))
    market.update, market.set_market_status = upd, setst
    run_err = None
    try:
        with U.quiet(), U.guard("Actuator.run"):
            act.run(print_result=False)
    except Exception as e:  # noqa: BLE001
        run_err = type(e).__name__
    return recs, run_err, oplog


def digits35(x: Fraction) -> bool:
    """is the rational x a decimal number of at most 35 significant digits (i.e. a value a 35-digit Decimal sum returns unrounded)"""
    n, d = abs(x.numerator), x.denominator
    while d % 2 == 0:
        d //= 2
        n *= 5
    while d % 5 == 0:
        d //= 5
        n *= 2
    if d != 1:
        return False
    while n and n % 10 == 0:
        n //= 10
    return len(str(n)) <= 35


def check_uncollected(ctx, pool, k, after, bal, rep, tagp):
    """UniLpBalance.base_uncollected / quote_uncollected, as get_market_balance() reports them right after update(), against the exact sum of the
    pending amounts of the positions the market holds (transferred-out positions are not counted by the code, nor here), token0/token1 mapped to
    base/quote by is_token0_quote.  Exact when every partial sum has at most 35 digits (then no Decimal addition rounded), else 1e-30 relative."""
    if bal is None:
        return
    q0 = bool(pool.is_token0_quote)
    held = [p for p in after["positions"] if not p["tr"]]
    if "error" in bal:
        ctx.case(f"uncollected:{'q0' if q0 else 'q1'}:raises-{bal['error']}")
        ctx.violate(f"uncollected.raises.{bal['error']}", f"bar {k}: get_market_balance() raised {bal['error']} after update()", rep)
        return
    s0 = s1 = Fraction(0)
    exact = True
    for p in held:
        s0 += Fraction(p["p0"])
        s1 += Fraction(p["p1"])
        exact = exact and digits35(s0) and digits35(s1)
    e_base, e_quote = (s1, s0) if q0 else (s0, s1)
    n0 = sum(1 for p in held if Fraction(p["p0"]) != 0)
    n1 = sum(1 for p in held if Fraction(p["p1"]) != 0)
    both = sum(1 for p in held if Fraction(p["p0"]) != 0 and Fraction(p["p1"]) != 0)
    cls = "none" if not held else ("both-tokens" if both else ("one-token" if n0 or n1 else "zero"))
    ctx.case(f"uncollected:{'q0' if q0 else 'q1'}:{cls}:held{min(len(held), 3)}:{'out' if len(held) < len(after['positions']) else 'all-in'}:"
             f"{'exact' if exact else 'rounded'}")
    if both:
        ctx.count("uncollected_checked_both_tokens_" + ("token0_quote" if q0 else "token1_quote"))
    if bal["count"] != len(held):
        ctx.violate("uncollected.position_count", f"bar {k}: position_count {bal['count']} but {len(held)} positions are held", rep)
    for name, got, exp in (("base", Fraction(bal["base"]), e_base), ("quote", Fraction(bal["quote"]), e_quote)):
        ok = got == exp if exact else abs(got - exp) <= TOL * len(held) * abs(exp)
        if not ok:
            tok = ("token1" if q0 else "token0") if name == "base" else ("token0" if q0 else "token1")
            ctx.violate(f"uncollected.{name}", f"bar {k}: {name}_uncollected = {fmt(got)} but the held positions' pending {tok} amounts sum to {fmt(exp)} "
                        f"(is_token0_quote={q0}, {len(held)} held of {len(after['positions'])} positions)", rep)
        ctx.dev(got, exp)


def check_oplog(ctx, oplog, rep):
    """adds on an empty range (lower = upper after trimming): refused, by ZeroDivisionError out of get_liquidity as the model says, nothing changed"""
    for o in oplog:
        if o[0] != "add_empty":
            continue
        _, outcome, unchanged, (lo, up) = o
        ctx.case(f"op:add_empty:{'same' if lo == up else 'trimmed'}:{outcome}:{'intact' if unchanged else 'changed'}")
        if outcome == "ok":
            ctx.violate("add.empty_range_accepted", f"add_liquidity_by_tick({lo}, {up}) on an empty range was accepted", rep)
        elif not unchanged:
            ctx.violate("add.empty_range_state_changed", f"add_liquidity_by_tick({lo}, {up}) raised {outcome} but positions or wallet changed", rep)
        elif outcome != "ZeroDivisionError":
            ctx.disagree(f"add_liquidity_by_tick({lo}, {up}) on an empty range: impl {outcome}, model ZeroDivisionError", rep)


def check_run(ctx, pool, case, recs, run_err, rep, reqs, tagp):
    ticks, d0, d1 = case["ticks"], pool.token0.decimal, pool.token1.decimal
    fee = Fraction(pool.fee_rate)
    sets_in_bar = {}
    for r in recs:
        if r[0] == "set":
            _, before, after, k = r
            sets_in_bar[k] = sets_in_bar.get(k, 0) + 1
            raw = {"tick": str(ticks[k]), "liq": str(case["liqs"][k]), "in0": str(case["in0"][k]), "in1": str(case["in1"][k]), "price": after["row"]["price"]}
            reqs.append((rep, {"fn": "uni.setStatus", "state": before, "raw": raw, "ts": k, "open": True}, ("set", after, k)))
        else:
            _, before, after, err, bal = r
            k = before["ts"]
            reqs.append((rep, {"fn": "uni.update", "pool": rep["pool"], "state": before}, ("update", after, err)))
            prev = ticks[k - 1] if k >= 1 else ticks[0]
            own = sum(int(p["liq"]) for p in before["positions"])
            D = Fraction(case["liqs"][k]) + own
            second = sets_in_bar.get(k, 0) >= (3 if k == 0 else 2)
            ctx.case(f"run:{tagp}:bar{'0' if k == 0 else '+'}:{'second-refresh' if second else 'single-refresh'}:npos{min(len(before['positions']), 3)}:{err or 'ok'}")
            if err is not None:
                ctx.violate(f"update.raises.{err}.{case['dtype']}", f"update() raised {err} in bar {k} (tick {prev} -> {ticks[k]}, tick dtype {case['dtype']})", rep)
                continue
            check_uncollected(ctx, pool, k, after, bal, rep, tagp)
            for p in before["positions"]:
                # the side conditions of the amount theorems, on the implementation's own state (invariant: C08_runOps_preserves_range)
                if not int(p["lower"]) < int(p["upper"]) or int(p["liq"]) < 0:
                    ctx.violate("position.ill_formed", f"bar {k}: update() is handed the position [{p['lower']},{p['upper']}) with liquidity {p['liq']}", rep)
            # several positions (theorems C08_shares_sum / C08_total_fee_le_volume): whatever the ranges, all positions together earn at most
            # volume x fee rate x (own total / (pool + own total)) per token, and each at most what it would earn alone, own / (pool + own)
            pool_liq = Fraction(case["liqs"][k])
            rs = [(int(p["lower"]), int(p["upper"])) for p in before["positions"] if int(p["liq"]) > 0]
            if any(a[0] < b[1] and b[0] < a[1] for i, a in enumerate(rs) for b in rs[i + 1:]):
                ctx.count("bars_with_overlapping_positions")
            for t, (dec, vol) in enumerate(((d0, case["in0"][k]), (d1, case["in1"][k]))):
                total = sum(Fraction(pa[f"p{t}"]) - Fraction(pb[f"p{t}"]) for pb, pa in zip(before["positions"], after["positions"]))
                cap = Fraction(vol, 10 ** dec) * fee * Fraction(own) / D if D else Fraction(0)
                scale = max([abs(Fraction(pa[f"p{t}"])) for pa in after["positions"]] + [cap, Fraction(1, 10 ** 30)])
                if total > cap + TOL * scale * (len(after["positions"]) + 1):
                    ctx.violate("bar_fee.total_exceeds_share", f"bar {k}: the {len(before['positions'])} positions together earned {float(total):.10g} of token{t}, more than "
                                f"volume*fee*own/(pool+own) = {float(cap):.10g} (own {own}, pool {case['liqs'][k]})", rep)
            for pb, pa in zip(before["positions"], after["positions"]):
                lo, up, liq = int(pb["lower"]), int(pb["upper"]), int(pb["liq"])
                pf = U.path_fraction(prev, ticks[k], lo, up)
                for t, (dec, vol) in enumerate(((d0, case["in0"][k]), (d1, case["in1"][k]))):
                    b, a = Fraction(pb[f"p{t}"]), Fraction(pa[f"p{t}"])
                    exp = Fraction(vol, 10 ** dec) * fee * pf * Fraction(liq) / D
                    got = a - b
                    alone = Fraction(vol, 10 ** dec) * fee * pf * Fraction(liq) / (pool_liq + liq) if pool_liq + liq else Fraction(0)
                    if got > alone + TOL * max(abs(a), alone):
                        ctx.violate("bar_fee.share_above_alone", f"bar {k}: position [{lo},{up}) earned {float(got):.10g} of token{t}, more than with the share "
                                    f"own/(pool+own) = {liq}/({case['liqs'][k]}+{liq}) it would have as the only position ({float(alone):.10g})", rep)
                    if got < 0:
                        ctx.violate("bar_fee.negative", f"bar {k}: negative accrual {got}", rep)
                    if abs(got - exp) > TOL * max(abs(b), exp):
                        if before["last"] is None or int(before["last"]) != prev:
                            why, key = f"path started at tick {before['last']} instead of the previous close {prev}", "bar_fee.path_start"
                        elif Fraction(before["row"]["liq"]) != D:
                            why, key = f"currentLiquidity {before['row']['liq']} is not pool + own = {D}", "bar_fee.share_denominator"
                        else:
                            why, key = "amount differs from volume*fee*fraction*share", "bar_fee.amount"
                        ctx.violate(key, f"bar {k} ({'second refresh' if second else 'single refresh'}): position [{lo},{up}) earned {float(got):.10g} "
                                    f"of token{t}, expected {float(exp):.10g}: {why}", rep)
                    ctx.dev(a, b + exp)
    if run_err is not None and not any(r[0] == "update" and r[3] for r in recs):
        ctx.violate(f"run.raises.{run_err}", f"Actuator.run raised {run_err} outside update()", rep)


def run_runs(ctx: Ctx):
    n = ctx.scale(100, 1500)
    reqs = []
    logging.disable(logging.CRITICAL)
    try:
        for i in range(n):
            pool = mk_pool(ctx.rng)
            case = gen_run(ctx.rng, pool)
            rep = {"kind": "run", "pool": U.pool_json(pool), "fee": float(pool.fee_rate * 100), "case": case}
            recs, run_err, oplog = exec_run(pool, case)
            for o in oplog:
                ctx.count(f"op_{o[0]}_{o[1]}")
            check_oplog(ctx, oplog, rep)
            check_run(ctx, pool, case, recs, run_err, rep, reqs, case["dtype"] + (":probe-" + case["probe"] if case.get("probe") else ""))
            ctx.impl_traces += 1
            # paired run: the same script plus unrelated same-bar operations; fees may differ only through the share's denominator
            if i % 3 == 0 and run_err is None:
                sp = pool.tick_spacing
                far = min(case["ticks"]) - 5000 * sp
                far -= far % sp
                extra = {k: [("add", far, far + 10 * sp, "0.1", "100"), ("sell", "0.01")] for k in range(1, len(case["ticks"]), 2)}
                recs2, err2, oplog2 = exec_run(pool, case, extra)
                rep2 = dict(rep, extra={str(k): v for k, v in extra.items()})
                check_oplog(ctx, oplog2, rep2)
                check_run(ctx, pool, case, recs2, err2, rep2, reqs, case["dtype"] + "+unrelated")
                ua = [r for r in recs if r[0] == "update"]
                ub = [r for r in recs2 if r[0] == "update"]
                for ra, rb in zip(ua, ub):
                    Da, Db = Fraction(ra[1]["row"]["liq"]), Fraction(rb[1]["row"]["liq"])
                    pb_by_key = {(p["lower"], p["upper"]): (p, q) for p, q in zip(rb[1]["positions"], rb[2]["positions"])}
                    for p, q in zip(ra[1]["positions"], ra[2]["positions"]):
                        other = pb_by_key.get((p["lower"], p["upper"]))
                        if other is None or other[0]["liq"] != p["liq"]:
                            continue
                        for t in ("p0", "p1"):
                            ga = Fraction(q[t]) - Fraction(p[t])
                            gb = Fraction(other[1][t]) - Fraction(other[0][t])
                            # both pendings carry the rounding of their own running sum
                            if abs(ga * Da - gb * Db) > TOL * 10 * max(abs(Fraction(q[t])) * Da, abs(Fraction(other[1][t])) * Db, 1):
                                ctx.violate("only_through_share", f"bar {ra[1]['ts']}: unrelated same-bar operations changed the fee of [{p['lower']},{p['upper']}) "
                                            f"beyond the share denominator: {float(ga):.10g}*{Da} vs {float(gb):.10g}*{Db}", rep2)
                ctx.case("pair:only-through-share")
    finally:
        logging.disable(logging.NOTSET)
    if ctx.driver_ok and reqs:
        out = driver_json([r[1] for r in reqs])
        for (rep, req, exp), o in zip(reqs, out):
            if "state" not in o:
                ctx.disagree(f"{req['fn']}: driver error {o.get('error')}", rep)
                continue
            if exp[0] == "set":
                if abs(Fraction(exp[1]["row"]["liq"])) >= 10 ** 35:
                    # pool + own liquidity needs more than 35 digits: Python's sum() over int and Decimal liquidities then rounds after every
                    # addition, the model once (ASSUMPTIONS: own liquidity total below 1e35; a uint128 liquidity has at most 39 digits)
                    ctx.count("set_status_liquidity_beyond_35_digits_skipped")
                    continue
                d = U.diff_json({k: v for k, v in exp[1].items() if k != "actions"}, {k: v for k, v in o["state"].items() if k != "actions"})
                if d:
                    ctx.disagree(f"set_market_status (bar {exp[2]}) differs from the model at {d}", rep)
            else:
                if (o.get("error") or None) != exp[2]:
                    ctx.disagree(f"update(): impl {exp[2] or 'ok'} model {o.get('error') or 'ok'}", rep)
                else:
                    d = U.diff_json(exp[1]["positions"], o["state"]["positions"])
                    if d:
                        ctx.disagree(f"update() positions differ from the model at {d}", rep)


def run(ctx: Ctx):
    U.cap_violations(ctx)
    run_direct(ctx)
    run_runs(ctx)
    U.report_process_state(ctx)


def replay(ctx: Ctx, case) -> bool:
    if isinstance(case, dict) and case.get("kind") == "process-state":
        return U.replay_process_state(case)
    TokenInfo, Broker, MarketInfo, UniLpMarket, UniV3Pool, UniswapMarketStatus = U.imports()
    pj = case["pool"]
    t0, t1 = TokenInfo(pj["tok0"], pj["d0"]), TokenInfo(pj["tok1"], pj["d1"])
    fee = {"0.0005": 0.05, "0.003": 0.3, "0.01": 1}[str(Fraction(pj["fee_rate"]).limit_denominator(10 ** 6).__float__())] if False else float(Fraction(pj["fee_rate"]) * 100)
    pool = UniV3Pool(t0, t1, fee, t0 if pj["q0"] else t1)
    sub = Ctx(ctx.prop, ctx.tier, ctx.seed, False)
    if case.get("kind") == "run":
        c = dict(case["case"])
        c["plan"] = {"init": [tuple(o) for o in c["plan"]["init"]],
                     **{ph: {int(k): [tuple(o) for o in v] for k, v in c["plan"][ph].items()} for ph in ("before", "on", "after")}}
        extra = {int(k): [tuple(o) for o in v] for k, v in case["extra"].items()} if "extra" in case else None
        logging.disable(logging.CRITICAL)
        try:
            recs, run_err, oplog = exec_run(pool, c, extra)
        finally:
            logging.disable(logging.NOTSET)
        check_run(sub, pool, c, recs, run_err, {"pool": pj}, [], "replay")
        check_oplog(sub, oplog, {"pool": pj})
    else:
        c = dict(case)
        for k in ("cur", "in0", "in1", "p0", "p1"):
            c[k] = Decimal(c[k]) if isinstance(c[k], str) else c[k]
        run_direct_case(sub, pool, c, [])
    for v in sub.violations:
        print("  ", v["key"], v["what"])
    return not sub.violations
