"""C04, GMX part — a rejected buy_glp / sell_glp / update / deposit / withdraw leaves wallet, holdings, rewards and action log intact."""
from __future__ import annotations

import math
from decimal import Decimal
from fractions import Fraction as F

from common import Ctx, driver_json
import gmx_common as G
from c17 import ser_op, de_op

PROPERTY = "C04"
LEAN_MODULES = ["Proofs.C04.Gmx"]
DRIVERS = ["driver_gmx"]
RULE = ("rejection-directed: for each operation (v1 buy_glp, sell_glp, update; v2 deposit, withdraw) and each cause (negative amount, more than held, "
        "insufficient wallet balance incl. just beyond the 1e-5 dust band, second token short after the first was debited, token missing from the wallet, "
        "unknown token column, zero AUM / supply / price / pool value, quantize overflow, negative impact larger than the deposit, float/int amount of the wrong type) "
        "a state in which exactly that precondition fails, after a random prefix of 0-3 accepted operations; bucket = (version, op, cause, exception class, prefix length)")
TRUSTED = ["snapshot = holdings, reward, every wallet entry (order and value), action log (length and identity of records), and the repr of every scalar attribute of the market object"]
ASSUMPTIONS = ["has_update is excluded (the property says so); pandas frames of the market are not part of the snapshot (GMX operations never write to them)"]


def deep_snapshot(w):
    m = w.market
    scal = {}
    for k, v in vars(m).items():
        if k in ("_data", "broker", "logger", "_record_action_callback", "_market_status", "_price_status", "has_update", "open"):
            continue
        scal[k] = repr(sorted(t.name for t in v)) if isinstance(v, set) else repr(v)
    return (w.snapshot(), tuple(id(a) for a in w.acts), tuple(sorted(scal.items())))


# ------------------------------------------------------------------------------------------------ v1
V1_CAUSES = ["buy.negative", "buy.insufficient", "buy.just-over-dust", "buy.no-wallet-entry", "buy.unknown-token", "buy.aum-zero", "buy.aum-zero-amount-zero",
             "buy.overflow", "buy.float-amount", "buy.int-amount", "sell.negative", "sell.over-holding", "sell.over-by-1wei", "sell.unknown-token", "sell.supply-zero",
             "sell.price-zero", "sell.float-amount", "update.supply-zero", "buy.total-weight-missing-token"]


def v1_reject_case(rng, cause):
    """(world, op) such that `op` must be rejected for `cause`"""
    for _ in range(50):
        row, names, kind = G.gen_v1_row(rng)
        if kind.startswith("recorded") or (F(row["aum"]) >= 10 ** 24 and F(row["glp"]) > 10 ** 12 and row["usdg"] > 0):
            break
    tok = rng.choice(names)
    dec = G.V1_DEC[tok]
    wallet = [(n, G.rand_dec(rng, -2, 5, 6)) for n in names]
    glp = G.rand_dec(rng, -2, 5, 18) if rng.random() < 0.8 else Decimal(0)
    extra_tokens = list(names)
    op = None
    bal = dict(wallet)[tok]
    if cause == "buy.negative":
        op = {"kind": "buy", "tok": tok, "amount": -G.rand_dec(rng, -6, 3, dec)}
    elif cause == "buy.insufficient":
        op = {"kind": "buy", "tok": tok, "amount": bal * rng.choice([2, 10, Decimal("1.001")]) + 1}
    elif cause == "buy.just-over-dust":
        op = {"kind": "buy", "tok": tok, "amount": bal * (1 + Decimal(rng.choice(["0.0000100001", "0.000011", "0.00002"])))}
    elif cause == "buy.no-wallet-entry":
        wallet = [(n, b) for n, b in wallet if n != tok]
        op = {"kind": "buy", "tok": tok, "amount": G.rand_dec(rng, -4, 3, dec)}
    elif cause in ("buy.unknown-token", "sell.unknown-token"):
        wallet.append(("doge", Decimal(5)))
        op = {"kind": cause.split(".")[0], "tok": "doge", "amount": G.rand_dec(rng, -4, 1, 8) if cause.startswith("buy") else min(glp, Decimal(1))}
    elif cause == "buy.aum-zero":
        row["aum"] = Decimal(rng.choice([0, 10 ** 11]))
        op = {"kind": "buy", "tok": tok, "amount": min(bal, G.rand_dec(rng, -3, 2, dec)) or Decimal(1)}
    elif cause == "buy.aum-zero-amount-zero":
        row["aum"] = Decimal(0)
        op = {"kind": "buy", "tok": tok, "amount": Decimal(0)}
    elif cause == "buy.overflow":
        wallet = [(n, Decimal(10) ** 30) for n in names]
        op = {"kind": "buy", "tok": tok, "amount": Decimal(10) ** rng.randint(20, 28)}
    elif cause == "buy.float-amount":
        op = {"kind": "buy", "tok": tok, "amount": 0.5}
    elif cause == "buy.int-amount":
        op = {"kind": "buy", "tok": rng.choice([n for n in names if n not in ("weth", "wavax")] or [tok]), "amount": 1}
    elif cause == "sell.negative":
        op = {"kind": "sell", "tok": tok, "amount": -G.rand_dec(rng, -6, 3, 18)}
    elif cause == "sell.over-holding":
        op = {"kind": "sell", "tok": tok, "amount": glp * rng.choice([2, 10]) + 1}
    elif cause == "sell.over-by-1wei":
        op = {"kind": "sell", "tok": tok, "amount": glp + Decimal(1) / Decimal(G.E18)}
    elif cause == "sell.supply-zero":
        row["glp"] = Decimal(0)
        glp = glp or Decimal(1)
        op = {"kind": "sell", "tok": tok, "amount": rng.choice([Decimal(0), glp / 2])}
    elif cause == "sell.price-zero":
        row[f"{tok}_price"] = Decimal(0) if tok in ("weth", "wavax") else 0
        glp = glp or Decimal(1)
        op = {"kind": "sell", "tok": tok, "amount": glp / 2}
    elif cause == "sell.float-amount":
        glp = glp or Decimal(1)
        op = {"kind": "sell", "tok": tok, "amount": 0.25}
    elif cause == "update.supply-zero":
        row["glp"] = Decimal(0)
        op = {"kind": "update"}
    elif cause == "buy.total-weight-missing-token":
        extra_tokens = names + ["doge"]          # a token of the market's token set without columns in the data
        op = {"kind": "buy", "tok": tok, "amount": min(bal, G.rand_dec(rng, -3, 2, dec)) or Decimal(1)}
    w = G.V1World(row, names, wallet, glp=glp, reward=G.rand_dec(rng, -3, 2, 20) if rng.random() < 0.5 else None)
    if extra_tokens != names:
        w.market.add_token(w.token("doge"))
    return w, op


def v1_prefix(rng, w, k):
    n = 0
    for _ in range(k * 3):
        if n >= k:
            break
        op, _ = G.gen_v1_op(rng, w)
        if op["kind"] != "update" and (op["amount"] is None or not isinstance(op["amount"], Decimal)):
            continue
        snap = w.snapshot()
        out, _, _ = w.apply(op)
        if out == "ok":
            n += 1
    return n


def run_v1(ctx: Ctx, per_cause: int):
    pending = []
    for cause in V1_CAUSES:
        for i in range(per_cause):
            w, op = v1_reject_case(ctx.rng, cause)
            typed = cause.endswith("float-amount") or cause.endswith("int-amount")
            k = 0
            if not cause.endswith("zero") and cause not in ("buy.aum-zero-amount-zero", "buy.total-weight-missing-token", "sell.price-zero") and i % 2:
                k = v1_prefix(ctx.rng, w, ctx.rng.randint(1, 3))
                if op["kind"] == "sell" and cause.startswith("sell.over"):
                    g = w.market.glp_amount
                    op["amount"] = g + Decimal(1) / Decimal(G.E18) if cause.endswith("1wei") else g * 3 + 1
                if cause in ("buy.insufficient", "buy.just-over-dust"):
                    b = w.broker.assets[w.token(op["tok"])].balance
                    op["amount"] = b * (1 + Decimal("0.000011")) if cause.endswith("dust") and b else b * 2 + 1
            spec = w.spec()
            pre = w.dump()
            env = w.env_json() if not typed else None
            s0 = deep_snapshot(w)
            out, res, acts = w.apply(op)
            s1 = deep_snapshot(w)
            ctx.impl_traces += 1
            rep = {"world": spec, "ops": [ser_op(op) if not typed else dict(op, amount=["F" if isinstance(op["amount"], float) else "I", repr(op["amount"])])], "cause": cause}
            tag = f"v1:{cause}:{out}:prefix{k}"
            if out == "ok":
                ctx.case(tag + ":ACCEPTED", rep)
                if cause not in ("buy.int-amount",):     # an int amount on an int-priced token is simply accepted by Python arithmetic? no: must be looked at
                    ctx.note("accepted_" + cause, ctx.notes.get("accepted_" + cause, 0) + 1)
                continue
            if s0 != s1:
                ctx.violate(f"gmx.v1.{op['kind']}.{out}", f"{op['kind']}_glp rejected with {out} ({cause}) but state changed: "
                            f"glp {s0[0][0]} -> {s1[0][0]}, wallet {s0[0][2]} -> {s1[0][2]}, actions {s0[0][3]} -> {s1[0][3]}"[:700], rep)
            if typed:
                ctx.case(tag, rep)
                continue
            pending.append((tag, op, out, acts, w.dump(), rep,
                            w.step_request(pre, env, op)))
    if not ctx.driver_ok:
        for p in pending:
            ctx.case(p[0])
        return
    for (tag, op, out, acts, post, rep, req), a in zip(pending, driver_json([p[-1] for p in pending], exe="driver_gmx")):
        ctx.case(tag, rep)
        if "error" in a:
            ctx.disagree(f"driver error {a['error']}", rep)
        elif a["outcome"] != out:
            ctx.disagree(f"v1 {tag}: outcome impl {out} model {a['outcome']}", rep)
        else:
            d = G.state_eq_v1(a["state"], post, acts)
            if d:
                ctx.disagree(f"v1 {tag}: state after rejection: " + "; ".join(d)[:500], rep)


# ------------------------------------------------------------------------------------------------ v2
V2_CAUSES = ["deposit.negative-long", "deposit.negative-short", "deposit.insufficient-long", "deposit.insufficient-short", "deposit.both-insufficient",
             "deposit.just-over-dust-short", "deposit.no-long-entry", "deposit.no-short-entry", "deposit.zero-pool-value", "deposit.zero-supply", "deposit.zero-price",
             "deposit.impact-exceeds-deposit", "withdraw.negative", "withdraw.over-holding", "withdraw.over-by-1ulp", "withdraw.zero-supply", "withdraw.empty-pool",
             "withdraw.zero-price"]


def v2_reject_case(rng, cause):
    for _ in range(100):
        pool, pcls = G.gen_v2_pool(rng)
        if not pcls.startswith("zero"):
            break
    cfg = G.gen_v2_cfg(rng) if rng.random() < 0.3 else {}
    lb, sb = Decimal(str(round(G._logu(rng, -1, 3), 6))), Decimal(str(round(G._logu(rng, 1, 6), 4)))
    wallet = [("weth", lb), ("usdc", sb)]
    amount = round(G._logu(rng, -2, 6), 4) if rng.random() < 0.8 else 0.0
    small_l, small_s = float(lb) * rng.uniform(0.01, 0.5), float(sb) * rng.uniform(0.01, 0.5)
    if cause == "deposit.negative-long":
        op = {"kind": "deposit", "long": -small_l, "short": rng.choice([0.0, small_s])}
    elif cause == "deposit.negative-short":
        op = {"kind": "deposit", "long": rng.choice([0.0, small_l]), "short": -small_s}
    elif cause == "deposit.insufficient-long":
        op = {"kind": "deposit", "long": float(lb) * 3 + 1, "short": rng.choice([0.0, small_s])}
    elif cause == "deposit.insufficient-short":
        op = {"kind": "deposit", "long": small_l, "short": float(sb) * 3 + 1}
    elif cause == "deposit.both-insufficient":
        op = {"kind": "deposit", "long": float(lb) * 2 + 1, "short": float(sb) * 2 + 1}
    elif cause == "deposit.just-over-dust-short":
        op = {"kind": "deposit", "long": float(lb), "short": float(sb) * 1.0000101}
    elif cause == "deposit.no-long-entry":
        wallet = [("usdc", sb)]
        op = {"kind": "deposit", "long": small_l, "short": small_s}
    elif cause == "deposit.no-short-entry":
        wallet = [("weth", lb)]
        op = {"kind": "deposit", "long": small_l, "short": small_s}
    elif cause == "deposit.zero-pool-value":
        pool["poolValue"] = 0.0
        op = {"kind": "deposit", "long": small_l, "short": 0.0}
    elif cause == "deposit.zero-supply":
        pool["marketTokensSupply"] = 0.0
        op = {"kind": "deposit", "long": rng.choice([0.0, small_l]), "short": 0.0}
    elif cause == "deposit.zero-price":
        pool["longPrice"] = 0.0
        op = {"kind": "deposit", "long": small_l, "short": 0.0}
    elif cause == "deposit.impact-exceeds-deposit":
        # heavy long side, deposit more long: the negative impact (factor x 2 x diff x usd) exceeds the deposit
        pool.update({"longAmount": 3e10 / pool["longPrice"], "shortAmount": 1e6 / pool["shortPrice"], "virtualSwapInventoryLong": None, "virtualSwapInventoryShort": None})
        cfg = {}
        op = {"kind": "deposit", "long": small_l, "short": 0.0}
    elif cause == "withdraw.negative":
        op = {"kind": "withdraw", "amount": -round(G._logu(rng, -3, 3), 6)}
    elif cause == "withdraw.over-holding":
        op = {"kind": "withdraw", "amount": amount * 3 + 1}
    elif cause == "withdraw.over-by-1ulp":
        op = {"kind": "withdraw", "amount": math.nextafter(amount, math.inf)}
    elif cause == "withdraw.zero-supply":
        pool["marketTokensSupply"] = 0.0
        amount = amount or 1.0
        op = {"kind": "withdraw", "amount": rng.choice([None, amount / 2])}
    elif cause == "withdraw.empty-pool":
        pool["longAmount"] = pool["shortAmount"] = 0.0
        amount = amount or 1.0
        op = {"kind": "withdraw", "amount": amount / 2}
    elif cause == "withdraw.zero-price":
        pool[rng.choice(["longPrice", "shortPrice"])] = 0.0
        amount = amount or 1.0
        op = {"kind": "withdraw", "amount": amount / 2}
    if op["kind"] == "deposit" and rng.random() < 0.3:
        op = dict(op, long=Decimal(repr(op["long"])), short=Decimal(repr(op["short"])))
    return G.V2World(pool, cfg, wallet, amount=amount), op


def run_v2(ctx: Ctx, per_cause: int):
    pending = []
    for cause in V2_CAUSES:
        for i in range(per_cause):
            w, op = v2_reject_case(ctx.rng, cause)
            k = 0
            if i % 2 and "zero" not in cause and "empty" not in cause and "impact" not in cause:
                for _ in range(ctx.rng.randint(1, 3)):
                    o2, _ = G.gen_v2_op(ctx.rng, w)
                    out2, _, _ = w.apply(o2)
                    k += out2 == "ok"
                a = float(w.market.amount)
                if cause == "withdraw.over-holding":
                    op["amount"] = a * 3 + 1
                elif cause == "withdraw.over-by-1ulp":
                    op["amount"] = math.nextafter(a, math.inf)
                elif cause.startswith("deposit.") and "insufficient" in cause or cause.endswith("dust-short"):
                    lb = float(w.broker.assets[w.long].balance) if w.long in w.broker.assets else 0.0
                    sb = float(w.broker.assets[w.short].balance) if w.short in w.broker.assets else 0.0
                    if cause in ("deposit.insufficient-long", "deposit.both-insufficient"):
                        op["long"] = lb * 2 + 1
                    if cause in ("deposit.insufficient-short", "deposit.both-insufficient"):
                        op["short"] = sb * 2 + 1
                    if cause == "deposit.insufficient-short":
                        op["long"] = lb * 0.5
                    if cause.endswith("dust-short"):
                        op["long"], op["short"] = lb, sb * 1.0000101 if sb else 1.0
            spec = w.spec()
            rep = {"world": spec, "ops": [ser_op(op)], "cause": cause}
            req = w.request(op)
            s0 = deep_snapshot(w)
            out, res, acts = w.apply(op)
            s1 = deep_snapshot(w)
            ctx.impl_traces += 1
            tag = f"v2:{cause}:{out}:prefix{k}"
            if out == "ok":
                ctx.case(tag + ":ACCEPTED", rep)
                ctx.note("accepted_" + cause, ctx.notes.get("accepted_" + cause, 0) + 1)
                continue
            if s0 != s1:
                ctx.violate(f"gmx.v2.{op['kind']}.{out}", f"{op['kind']} rejected with {out} ({cause}) but state changed: amount {s0[0][0]} -> {s1[0][0]}, "
                            f"wallet {s0[0][1]} -> {s1[0][1]}, actions {s0[0][2]} -> {s1[0][2]}"[:700], rep)
            pending.append((tag, op, out, acts, w.dump(), rep, req))
    if not ctx.driver_ok:
        for p in pending:
            ctx.case(p[0])
        return
    for (tag, op, out, acts, post, rep, req), a in zip(pending, driver_json([p[-1] for p in pending], exe="driver_gmx")):
        ctx.case(tag, rep)
        if "error" in a:
            ctx.disagree(f"driver error {a['error']}", rep)
        elif a["outcome"] != out:
            ctx.disagree(f"v2 {tag}: outcome impl {out} model {a['outcome']}", rep)
        else:
            d = G.state_eq_v2(a["state"], post, acts, tol=F(0))
            if d:
                ctx.disagree(f"v2 {tag}: state after rejection: " + "; ".join(d)[:500], rep)


def run(ctx: Ctx):
    G.cap_violations(ctx)
    n = ctx.scale(10, 250)
    run_v1(ctx, n)
    run_v2(ctx, n)
    G.special_stream(ctx, ctx.scale(400, 6000), "gmx.", reject_intact=True)


def replay(ctx: Ctx, case) -> bool:
    if "special" in case:
        return G.special_replay(case, "gmx.", reject_intact=True)
    sp = case["world"]
    w = G.V1World.from_spec(sp) if sp["ver"] == 1 else G.V2World.from_spec(sp)
    ok = True
    for o in case["ops"]:
        if o.get("amount") and o["amount"][0] == "I":
            op = dict(o, amount=int(o["amount"][1]))
        else:
            op = de_op(o)
        s0 = deep_snapshot(w)
        out, res, acts = w.apply(op)
        s1 = deep_snapshot(w)
        print(f"   {op} -> {out}; state {'unchanged' if s0 == s1 else 'CHANGED'}")
        if out != "ok" and s0 != s1:
            ok = False
    return ok
