"""Shared plumbing of the Deribit harness parts (c15, c16, c01_deribit, c03_deribit, c04_deribit):
building real DeribitOptionMarket objects from generated order books, dumping their state canonically,
applying operations, talking to `driver_deribit`, comparing, and the generators."""
from __future__ import annotations

import copy
import json
from decimal import Decimal
from fractions import Fraction

import pandas as pd

from common import driver_json, fmt

EXE = "driver_deribit"
EPOCH = pd.Timestamp("2023-09-01 00:00:00")
TOKEN_STEP = {"ETH": (0, -6), "BTC": (-1, -8)}     # (min_trade_decimal, min_fee_decimal) — only used by generators


def minutes(ts) -> int:
    return int((pd.Timestamp(ts) - EPOCH) / pd.Timedelta("1min"))


def ts_of(m: int) -> pd.Timestamp:
    return EPOCH + pd.Timedelta(minutes=m)


# ------------------------------------------------------------------------------------------ building
def book_frame(instrs: list[dict]) -> pd.DataFrame:
    """rows shaped like load_deribit_option_data's frame (the columns the market reads)"""
    rows = []
    for i in instrs:
        rows.append({
            "instrument_name": i["name"], "state": i["state"], "type": i["kind"], "strike_price": int(i["strike"]),
            "expiry_time": ts_of(i["expiry"]), "gamma": float(i["gamma"]), "delta": float(i["delta"]),
            "underlying_price": float(i["underlying"]), "mark_price": float(i["mark"]),
            "asks": copy.deepcopy(i["asks"]), "bids": copy.deepcopy(i["bids"]),
        })
    cols = ["instrument_name", "state", "type", "strike_price", "expiry_time", "gamma", "delta", "underlying_price",
            "mark_price", "asks", "bids"]
    df = pd.DataFrame(rows, columns=cols)
    if len(rows):
        df = df.astype({"strike_price": "int64", "gamma": "float64", "delta": "float64", "underlying_price": "float64",
                        "mark_price": "float64"})
    df["asks"] = df["asks"].astype(object)
    df["bids"] = df["bids"].astype(object)
    return df.set_index("instrument_name")


class Rig:
    """one broker + one Deribit market with an in-memory book; records the actions the market emits"""

    def __init__(self, instrs, now=360, token="ETH", wallet=Decimal(0), cash=Decimal(0), allow_neg=False, price=None,
                 is_open=None, positions=None, via_frame=False):
        from demeter import Broker, MarketInfo, MarketTypeEnum
        from demeter.deribit import DeribitOptionMarket, DeribitMarketStatus
        self.token_name = token
        self.tok = DeribitOptionMarket.ETH if token == "ETH" else DeribitOptionMarket.BTC
        self.broker = Broker(allow_negative_balance=allow_neg)
        self.market = DeribitOptionMarket(MarketInfo("deribit", MarketTypeEnum.deribit_option), self.tok)
        self.broker.add_market(self.market)
        self.actions = []
        # how a Broker's owner (the Actuator) receives the actions of a market
        if hasattr(self.market, "_record_action_callback"):
            self.market._record_action_callback = self.actions.append
        else:
            self.market._record_action = self.actions.append
        if price is None:
            price = float(instrs[0]["underlying"]) if instrs else 1600.0
        if via_frame and instrs:
            # the way the Actuator does it: the market owns the (time, instrument)-indexed frame and takes the bar's book out of it
            self.market.data = deribit_frame([(now, instrs)])
            self.market.set_market_status(DeribitMarketStatus(timestamp=ts_of(now), data=None), price=pd.Series([price], index=[self.tok.name]))
        else:
            self.market.set_market_status(DeribitMarketStatus(timestamp=ts_of(now), data=book_frame(instrs)),
                                          price=pd.Series([price], index=[self.tok.name]))
        if is_open is not None:
            self.market.is_open = is_open
        if wallet is not None:
            self.broker.set_balance(self.tok, wallet)
        self.market.balance = Decimal(cash)
        for p in positions or []:
            self.add_position(p)

    def add_position(self, p):
        from demeter.deribit import OptionPosition, OptionKind
        import numpy as np
        self.market.positions[p["name"]] = OptionPosition(
            instrument_name=p["name"], expiry_time=ts_of(p["expiry"]), strike_price=np.int64(p["strike"]),
            type=OptionKind(p["kind"]), amount=Decimal(p["amount"]), avg_buy_price=Decimal(p.get("avgBuy", "0.01")),
            buy_amount=Decimal(p.get("buyAmt", p["amount"])), avg_sell_price=Decimal(p.get("avgSell", 0)),
            sell_amount=Decimal(p.get("sellAmt", 0)))


# ------------------------------------------------------------------------------------------ dumping
def F(x) -> Fraction:
    return Fraction(x) if not isinstance(x, Fraction) else x


def Fn(x):
    """Fraction of a number of the data frame, the string "nan" for a NaN (a bar whose rows carry no data)"""
    try:
        if x != x:
            return "nan"
        return F(x)
    except (ValueError, TypeError, ArithmeticError):
        return "nan"


def Ff(x):
    """a float cell of the frame as a Fraction, "nan" when the cell holds no number (NaN / NaT of a row without data)"""
    try:
        return Fn(float(x))
    except (ValueError, TypeError):
        return "nan"


def dump_levels(ls):
    if not isinstance(ls, (list, tuple)):
        return "nan"
    return [[F(l[0]), F(l[1]), isinstance(l[1], float)] for l in ls]


def dump_book(df: pd.DataFrame):
    out = []
    for name, row in df.iterrows():
        out.append({
            "name": name, "open": bool(row["state"] == "open"), "kind": str(row["type"]),
            "strike": "nan" if pd.isna(row["strike_price"]) else F(int(row["strike_price"])),
            "expiry": "nan" if pd.isna(row["expiry_time"]) else minutes(row["expiry_time"]), "mark": Ff(row["mark_price"]),
            "underlying": Ff(row["underlying_price"]), "delta": Ff(row["delta"]), "gamma": Ff(row["gamma"]),
            "asks": dump_levels(row["asks"]), "bids": dump_levels(row["bids"]),
        })
    return out


def frame_cells(rig):
    """the order-book cells of the frame the market was given (None when the book was handed over directly)"""
    df = getattr(rig.market, "data", None)
    if df is None:
        return None
    return [(str(ix), copy.deepcopy(r["asks"]), copy.deepcopy(r["bids"])) for ix, r in df.iterrows()]


def dump_balance(b):
    if b is None:
        return None
    return {"netValue": Fn(b.net_value), "cash": Fn(b.balance), "premium": Fn(b.premium), "delta": Fn(b.delta), "gamma": Fn(b.gamma)}


def has_nan(x) -> bool:
    if isinstance(x, str):
        return x == "nan"
    if isinstance(x, dict):
        return any(has_nan(v) for v in x.values())
    if isinstance(x, (list, tuple)):
        return any(has_nan(v) for v in x)
    return False


# ---- private state of the market.  Everything the properties observe is read through the public API (balance, positions, market_status,
# get_market_balance(), recorded actions).  The one piece of private state the *model* needs in order to be stepped from the implementation's
# state is the cached valuation (it decides what get_market_balance() answers on the closed minutes of an hour).  It is looked up by what
# it is, not by its name: the attribute that turns into an OptionMarketBalance when a market values itself.  If no such attribute can be
# identified the cache is "unknown": the state comparison leaves it out and reads between the hours are compared through the oracle only.
_CACHE_ATTR = "unset"


def cache_attr():
    global _CACHE_ATTR
    if _CACHE_ATTR != "unset":
        return _CACHE_ATTR
    _CACHE_ATTR = None
    try:
        from demeter.deribit import OptionMarketBalance
        probe = Rig([], now=360)
        before = {k: v for k, v in vars(probe.market).items()}
        probe.market.get_market_balance()
        changed = [k for k, v in vars(probe.market).items()
                   if isinstance(v, OptionMarketBalance) and not isinstance(before.get(k), OptionMarketBalance)]
        if len(changed) == 1:
            _CACHE_ATTR = changed[0]
    except Exception:  # noqa: BLE001 — then the cache stays unknown
        _CACHE_ATTR = None
    return _CACHE_ATTR


def read_cache(m):
    """(known?, cached OptionMarketBalance or None)"""
    a = cache_attr()
    if a is None or not hasattr(m, a):
        return False, None
    return True, getattr(m, a)


def market_prices(m):
    """the price row the market was given with its status (public `price_status` if there is one)"""
    for a in ("price_status", "_price_status"):
        if hasattr(m, a):
            return getattr(m, a)
    return None


def dump_state(rig: Rig):
    m = rig.market
    pos = []
    for k, p in m.positions.items():
        pos.append({"key": k, "name": p.instrument_name, "expiry": minutes(p.expiry_time), "strike": F(int(p.strike_price)),
                    "kind": p.type.value, "amount": F(p.amount), "avgBuy": F(p.avg_buy_price), "buyAmt": F(p.buy_amount),
                    "avgSell": F(p.avg_sell_price), "sellAmt": F(p.sell_amount)})
    price, price_dec = 0, False
    try:
        pv = market_prices(m)[rig.tok.name]
        price_dec = isinstance(pv, Decimal)
        price = F(pv) if price_dec else F(float(pv))
    except Exception:
        pass
    return {
        "cash": F(m.balance), "positions": pos, "book": dump_book(m.market_status.data),
        "wallet": [[k.name, F(v.balance)] for k, v in rig.broker._assets.items()],
        "allowNeg": bool(rig.broker.allow_negative_balance), "cache": dump_balance(read_cache(m)[1]) if read_cache(m)[0] else "unknown",
        "flagOpen": bool(m.is_open), "now": minutes(m.market_status.timestamp), "price": price, "priceDec": price_dec,
    }


def dump_action(a):
    from demeter.deribit._typing import BuyAction, SellAction, DepositAction, WithdrawAction, DeliverAction, ExpiredAction
    if isinstance(a, (BuyAction, SellAction)):
        return {"type": "buy" if isinstance(a, BuyAction) else "sell", "name": a.instrument_name, "kind": a.type.value,
                "avgPrice": Fn(a.average_price), "amount": Fn(a.amount), "premium": Fn(a.total_premium), "mark": Fn(a.mark_price),
                "underlying": Fn(a.underlying_price), "fee": Fn(a.fee), "orders": [[Fn(o.price), Fn(o.amount)] for o in a.orders]}
    if isinstance(a, (DepositAction, WithdrawAction)):
        return {"type": "deposit" if isinstance(a, DepositAction) else "withdraw", "token": a.token, "amount": Fn(a.amount)}
    if isinstance(a, (DeliverAction, ExpiredAction)):
        d = {"type": "deliver" if isinstance(a, DeliverAction) else "expired", "name": a.instrument_name, "kind": a.type.value,
             "mark": Fn(a.mark_price), "amount": Fn(a.amount), "premium": Fn(a.total_premium), "strike": ("nan" if a.strike_price != a.strike_price else F(int(a.strike_price))),
             "underlying": Fn(a.underlying_price)}
        if isinstance(a, DeliverAction):
            d.update({"deliverAmount": Fn(a.deriver_amount), "fee": Fn(a.fee), "income": Fn(a.income_amount)})
        return d
    return {"type": type(a).__name__}


# ------------------------------------------------------------------------------------------ operations
def param_decimal(x):
    """what float_param_formatter turns an argument into"""
    if x is None:
        return None
    if isinstance(x, float) or type(x) == int:
        return Decimal(str(x))
    return x


def op_json(op):
    """the op as the model sees it (arguments after float_param_formatter)"""
    t = op["type"]
    if t in ("buy", "sell"):
        return {"type": t, "name": op["name"], "amount": F(param_decimal(op["amount"])),
                "priceTok": None if op.get("priceTok") is None else F(param_decimal(op["priceTok"])),
                "priceUsd": None if op.get("priceUsd") is None else F(param_decimal(op["priceUsd"])),
                "mult": None if op.get("mult") is None else F(param_decimal(op["mult"]))}
    if t in ("deposit", "withdraw"):
        return {"type": t, "amount": F(param_decimal(op["amount"]))}
    return {"type": t}


def apply_op(rig: Rig, op):
    """returns (outcome class or 'ok', canonical result)"""
    m = rig.market
    t = op["type"]
    try:
        if t in ("buy", "sell"):
            fn = m.buy if t == "buy" else m.sell
            fills, fee = fn(op["name"], op["amount"], price_in_token=op.get("priceTok"), price_in_usd=op.get("priceUsd"),
                            max_mark_price_multiple=op.get("mult"))
            return "ok", {"fills": [[F(o.price), F(o.amount)] for o in fills], "fee": F(fee)}
        if t == "deposit":
            return "ok", F(m.deposit(op["amount"]))
        if t == "withdraw":
            return "ok", F(m.withdraw(op["amount"]))
        if t == "balance":
            return "ok", dump_balance(m.get_market_balance())
        if t == "update":
            m.update()
            return "ok", None
        if t == "estimate":          # read-only helper
            return "ok", Fn(m.estimate_cost(op["name"], op["amount"], op.get("side", "buy"), op.get("priceTok")))
        if t == "check":             # read-only helper (what buy/sell call first)
            a, _, pr = m.check_transaction(op["name"], param_decimal(op["amount"]), param_decimal(op.get("priceTok")),
                                           param_decimal(op.get("priceUsd")), op.get("side", "buy") == "buy", param_decimal(op.get("mult")))
            return "ok", [Fn(a), None if pr is None else Fn(pr)]
        raise ValueError(t)
    except Exception as e:  # noqa: BLE001 — the exception class is the observation
        return type(e).__name__, None


# ------------------------------------------------------------------------------------------ model
def canon(x):
    """JSON-like structure with every number as Fraction -> with strings the driver parses"""
    if isinstance(x, Fraction):
        return fmt(x)
    if isinstance(x, dict):
        return {k: canon(v) for k, v in x.items()}
    if isinstance(x, (list, tuple)):
        return [canon(v) for v in x]
    return x


NUMERIC_STATE_KEYS = None


def parse_back(x):
    """driver answer -> Fractions where the driver sent numbers as strings"""
    if isinstance(x, str):
        try:
            return Fraction(x)
        except (ValueError, ZeroDivisionError):
            return x
    if isinstance(x, dict):
        return {k: (v if k in ("name", "key", "kind", "type", "token", "outcome", "cause") else parse_back(v)) for k, v in x.items()}
    if isinstance(x, list):
        return [parse_back(v) for v in x]
    return x


def norm_state(s):
    """wallet token names are strings that must not be parsed as numbers"""
    s = dict(s)
    s["wallet"] = [[w[0], F(w[1]) if not isinstance(w[1], Fraction) else w[1]] for w in s["wallet"]]
    return s


def step_request(state, op, token="ETH", ctx="py", flt="ieee"):
    if state.get("cache") == "unknown":
        state = dict(state, cache=None)
    return {"fn": "step", "cfg": token, "ctx": ctx, "float": flt, "state": canon(state), "op": canon(op_json(op))}


def model_answers(reqs):
    out = driver_json(reqs, exe=EXE)
    res = []
    for o in out:
        if "error" in o and "outcome" not in o:
            res.append({"driver_error": o["error"]})
            continue
        p = parse_back(o)
        w = o["state"]["wallet"]
        p["state"]["wallet"] = [[a[0], Fraction(a[1])] for a in w]
        res.append(p)
    return res


def diff(a, b, path=""):
    """first difference between two canonical structures (None if equal)"""
    if isinstance(a, dict) and isinstance(b, dict):
        for k in sorted(set(a) | set(b)):
            if k not in a or k not in b:
                return f"{path}.{k}: only on one side"
            d = diff(a[k], b[k], f"{path}.{k}")
            if d:
                return d
        return None
    if isinstance(a, list) and isinstance(b, list):
        if len(a) != len(b):
            return f"{path}: length {len(a)} vs {len(b)}"
        for i, (x, y) in enumerate(zip(a, b)):
            d = diff(x, y, f"{path}[{i}]")
            if d:
                return d
        return None
    if isinstance(a, (int, Fraction)) and isinstance(b, (int, Fraction)) and not isinstance(a, bool) and not isinstance(b, bool):
        return None if Fraction(a) == Fraction(b) else f"{path}: {fmt(Fraction(a))} vs {fmt(Fraction(b))}"
    return None if a == b else f"{path}: {a!r} vs {b!r}"


def compare_step(ctx, tag, before, op, impl_out, impl_res, impl_after, impl_actions, ans, replay):
    """model answer vs what the implementation did on the same state"""
    if "driver_error" in ans:
        ctx.disagree(f"{tag}: driver error {ans['driver_error']}", replay)
        return False
    if ans["outcome"] != impl_out:
        ctx.disagree(f"{tag}: outcome impl {impl_out} model {ans['outcome']} ({ans.get('cause')})", replay)
        return False
    unknown_cache = isinstance(impl_after, dict) and impl_after.get("cache") == "unknown"
    if unknown_cache:
        impl_after = {k: v for k, v in impl_after.items() if k != "cache"}
        ans = dict(ans, state={k: v for k, v in ans["state"].items() if k != "cache"})
        ctx.count("steps_compared_without_cache")
    d = diff(impl_after, ans["state"], "state")
    if d is None and impl_out == "ok" and not (unknown_cache and isinstance(impl_res, dict) and "netValue" in impl_res and impl_after["now"] % 60 != 0):
        d = diff(impl_res, ans["result"], "result")
    if d is None:
        d = diff(impl_actions, ans["actions"], "actions")
    if d:
        ctx.disagree(f"{tag}: {d}", replay)
        return False
    return True


# ------------------------------------------------------------------------------------------ generators
def grid_price(k: int) -> float:
    return round(k * 0.0005, 4)


def gen_size(rng, token):
    r = rng.random()
    if r < 0.45:
        return rng.randint(1, 900)                       # JSON int
    if r < 0.6:
        return float(rng.randint(1, 900))                # 5.0
    if r < 0.8:
        return rng.randint(1, 9000) / 10                 # 0.1 steps (floats that are not exact in binary)
    if r < 0.9:
        return round(rng.uniform(0.01, 50), rng.randint(1, 6))
    if r < 0.95:
        return 0 if rng.random() < 0.5 else 0.0          # an emptied level
    return rng.randint(1, 5)


def gen_levels(rng, token, start_k, direction, n, offgrid=False, dense=False):
    """n levels; asks ascending from start_k (direction +1), bids descending (direction -1); distinct prices"""
    ls = []
    k = start_k
    for _ in range(n):
        k += direction * (rng.randint(1, 4) if not dense else rng.choice((1, 1, 1, 2, 3)))
        if k <= 0:
            break
        p = grid_price(k)
        if offgrid and not dense:
            p = float(repr(round(p + direction * rng.uniform(0.00001, 0.0004), rng.randint(5, 9))))
            if p <= 0:
                break
        ls.append([p, gen_size(rng, token)])
    # enforce strict monotonicity / distinctness
    out, seen = [], set()
    for p, s in ls:
        if p in seen:
            continue
        seen.add(p)
        out.append([p, s])
    return out


def rough_side(rng, levels, token):
    """the same side the way a data file may hold it: levels in any order, a price level split over several rows (sizes int / float mixed).
    Orders are matched by price (best first, one level per price), not by the position of a row."""
    out = [list(l) for l in levels]
    r = rng.random()
    if out and r < 0.6:
        for _ in range(rng.randint(1, 3)):
            p = rng.choice(out)[0]
            out.insert(rng.randint(0, len(out)), [p, gen_size(rng, token)])
    if r > 0.3:
        rng.shuffle(out)
    return out


def gen_instr(rng, idx, token="ETH", now=360, crossed=False, max_levels=12, rough=0.0):
    kind = rng.choice(("CALL", "PUT"))
    strike = rng.choice(range(1000, 3001, 50))
    underlying = round(rng.uniform(1200, 2600), 2)
    dense = rng.random() < 0.15
    mark_k = rng.randint(4, 400) if not dense else rng.randint(1000, 2400)      # prices 0.5-1.2: neighbouring grid levels lie within 0.1 %
    mark = grid_price(mark_k) if rng.random() < 0.6 else round(mark_k * 0.0005 + rng.uniform(-0.0002, 0.0002), 6)
    offgrid = rng.random() < 0.2
    na = rng.choice((0, 1, 1, 2, 3, 5, 8, max_levels))
    nb = rng.choice((0, 1, 1, 2, 3, 5, 8, max_levels))
    asks = gen_levels(rng, token, mark_k, +1, na, offgrid, dense)
    bids = gen_levels(rng, token, mark_k, -1, nb, offgrid, dense)
    if crossed and rng.random() < 0.5:
        asks = gen_levels(rng, token, max(1, mark_k - 8), +1, na, offgrid)
    r = rng.random()
    expiry = now + rng.choice((60, 600, 30000)) if r < 0.8 else now - rng.choice((0, 60, 1000))
    ins = {
        "name": f"{token}-X{idx}-{strike}-{'C' if kind == 'CALL' else 'P'}", "state": "open" if rng.random() < 0.96 else "closed",
        "kind": kind, "strike": strike, "expiry": expiry, "mark": mark, "underlying": underlying,
        "delta": round(rng.uniform(-1, 1), 5), "gamma": round(rng.uniform(0, 0.01), 5), "asks": asks, "bids": bids,
    }
    if rough and rng.random() < rough:
        ins["asks"], ins["bids"] = rough_side(rng, asks, token), rough_side(rng, bids, token)
        ins["rough"] = True
    return ins


TIE_Q = 4096                # binary price grid of the cap-tie instruments: every price, mark x multiple and mark / multiple is exact
TIE_MULTS = (1, 1.25, 1.5, 2, 4)


def tie_mult_arg(rng, m):
    """the multiple as an int / float / Decimal argument (float_param_formatter makes the same Decimal of all of them)"""
    if m in (1, 2, 4) and rng.random() < 0.4:
        return int(m)
    return float(m) if rng.random() < 0.5 else Decimal(str(m))


def gen_tie_instr(rng, idx, token="ETH", now=360, rough=0.0):
    """an instrument with an ask priced EXACTLY at multiple x mark and a bid EXACTLY at mark / multiple (binary-exact marks such as
    0.029296875 = 120/4096, multiples 1 / 1.25 / 1.5 / 2 / 4), with 0-3 strictly better levels in front of them and 0-2 worse behind:
    whether a level exactly on the cap counts must not matter for the consistency of the outcome."""
    a = 60 * rng.randint(1, 12)
    mb, ms = rng.choice(TIE_MULTS), rng.choice(TIE_MULTS)
    cap, floor = int(a * mb), int(a / ms)
    assert cap == a * mb and floor * ms == a
    size = lambda: rng.choice((rng.randint(1, 40), float(rng.randint(1, 40)), rng.randint(1, 400) / 10)) if token == "ETH" \
        else rng.choice((rng.randint(1, 40), rng.randint(1, 400) / 10))  # noqa: E731
    better_a = sorted(rng.sample(range(a, cap), min(rng.randint(0, 3), cap - a))) if cap > a else []
    worse_a = sorted(rng.sample(range(cap + 1, cap + 40), rng.randint(0, 2)))
    better_b = sorted(rng.sample(range(floor + 1, a + 1), min(rng.randint(0, 3), a - floor)), reverse=True) if a > floor else []
    worse_b = sorted(rng.sample(range(max(1, floor - 40), floor), min(rng.randint(0, 2), max(0, floor - max(1, floor - 40)))), reverse=True)
    asks = [[k / TIE_Q, size()] for k in better_a + [cap] + worse_a]
    bids = [[k / TIE_Q, size()] for k in better_b + [floor] + worse_b]
    kind = rng.choice(("CALL", "PUT"))
    strike = rng.choice(range(1000, 3001, 50))
    ins = {
        "name": f"{token}-T{idx}-{strike}-{'C' if kind == 'CALL' else 'P'}", "state": "open", "kind": kind, "strike": strike,
        "expiry": now + rng.choice((60, 600, 30000)), "mark": a / TIE_Q, "underlying": round(rng.uniform(1200, 2600), 2),
        "delta": round(rng.uniform(-1, 1), 5), "gamma": round(rng.uniform(0, 0.01), 5), "asks": asks, "bids": bids,
        "tie": {"buy": [mb, cap / TIE_Q, len(better_a)], "sell": [ms, floor / TIE_Q, len(better_b)]},
    }
    if rough and rng.random() < rough:
        ins["asks"], ins["bids"] = rough_side(rng, asks, token), rough_side(rng, bids, token)
        ins["rough"] = True
    return ins


def gen_book(rng, token="ETH", now=360, crossed=False, n=None, max_levels=12, rough=0.0, tie=0.0):
    n = n if n is not None else rng.choice((1, 2, 3, 4))
    book = [gen_instr(rng, i, token, now, crossed, max_levels, rough) for i in range(n)]
    if tie and rng.random() < tie:
        book[rng.randrange(n)] = gen_tie_instr(rng, n, token, now, rough)
    return book


def level_dec(x) -> Decimal:
    return Decimal(str(x))


def gen_amount(rng, levels, token):
    """(amount argument, class tag)"""
    step = Decimal(1) if token == "ETH" else Decimal("0.1")
    sizes = [level_dec(l[1]) for l in levels]
    total = sum(sizes, Decimal(0))
    r = rng.random()
    if r < 0.15:
        return rng.randint(1, 20), "small-int"
    if r < 0.22:
        return float(rng.randint(1, 40)) + rng.choice((0.5, 0.4, 0.6, 0.25, 0.49999, 0.05, 0.15)), "fractional-float"
    if r < 0.3 and sizes:
        return sizes[0], "first-level-exact"
    if r < 0.5 and len(sizes) > 1:
        k = rng.randint(1, len(sizes))
        return sum(sizes[:k], Decimal(0)) + rng.choice((0, 0, step, -step)), "prefix-sum"
    if r < 0.68 and len(sizes) > 1 and total > 2:
        return (total * Decimal(rng.randint(5, 99)) / 100).quantize(step), "inside-depth"
    if r < 0.73:
        return total, "total-depth"
    if r < 0.79:
        return total + step * rng.choice((1, 2, 100)), "beyond-depth"
    if r < 0.83:
        return rng.choice((0, Decimal("0.01"), Decimal("0.04"), -1, Decimal("0.5") if token == "ETH" else Decimal("0.05"))), "below-min"
    if r < 0.86:
        return Decimal(rng.randint(1, 10 ** 6)), "huge"
    if r < 0.93:
        return Decimal(rng.randint(1, 300)) + Decimal(rng.randint(0, 99)) / 100, "decimal"
    return Decimal(rng.randint(1, 60)), "int-decimal"


def norm_levels(levels, side):
    """best price first, one level per price (Decimal sizes as they print): what the generator aims its amounts and limit prices at"""
    agg = {}
    for p, sz in levels:
        agg[p] = agg.get(p, Decimal(0)) + level_dec(sz)
    return [[p, agg[p]] for p in sorted(agg, reverse=(side == "sell"))]


def gen_trade(rng, instrs, token, side=None, positions=None):
    """a buy/sell op dict + tags"""
    side = side or rng.choice(("buy", "sell"))
    if not instrs or rng.random() < 0.04:
        return {"type": side, "name": "ETH-NOPE-1-C", "amount": 1}, "unknown-instrument"
    ins = rng.choice(instrs)
    ties = [i for i in instrs if "tie" in i]
    if ties and rng.random() < 0.5:
        return gen_tie_trade(rng, rng.choice(ties), token, side, positions)
    if side == "sell" and positions and rng.random() < 0.7:
        held = [i for i in instrs if i["name"] in positions]
        if held:
            ins = rng.choice(held)
    levels = norm_levels(ins["asks"] if side == "buy" else ins["bids"], side)
    amount, acls = gen_amount(rng, levels, token)
    if side == "sell" and positions and ins["name"] in positions and rng.random() < 0.55 and isinstance(amount, (int, Decimal)) \
            and amount > positions[ins["name"]] and acls != "below-min":
        amount, acls = positions[ins["name"]], acls + "-clipped"
    elif side == "sell" and positions and ins["name"] in positions and rng.random() < 0.3:
        held = positions[ins["name"]]
        amount, acls = rng.choice(((held, "held-exact"), (held + 1, "held+1"), (max(Decimal(1), held - 1), "held-1"),
                                   (held * 10, "held*10"), (Decimal(1), "one"), (amount, acls), (amount, acls), (amount, acls)))
    op = {"type": side, "name": ins["name"], "amount": amount}
    mode = rng.random()
    mtag = "market"
    if mode < 0.3 and levels:
        l = rng.choice(levels)
        p = l[0]
        q = rng.random()
        if q < 0.5:
            op["priceTok"], mtag = p, "limit-exact"
        elif q < 0.7:
            op["priceTok"], mtag = Decimal(str(p)) * Decimal(rng.choice(("1.0005", "0.9995", "1.00099", "0.99901"))), "limit-near"
        elif q < 0.8:
            op["priceTok"], mtag = Decimal(str(p)) * Decimal(rng.choice(("1.001", "0.999", "1.002", "0.99"))), "limit-edge"
        elif q < 0.9:
            op["priceTok"], mtag = rng.choice((0, -0.01, 5.0)), "limit-nowhere"
        else:
            op["priceUsd"], mtag = round(p * ins["underlying"], rng.choice((2, 6))), "limit-usd"
        if rng.random() < 0.5 and acls not in ("below-min", "beyond-depth"):
            lv = level_dec(l[1])
            step = Decimal(1) if token == "ETH" else Decimal("0.1")
            pd_ = Decimal(str(p))
            window = [x for x in levels if abs(Decimal(str(x[0])) - pd_) < pd_ / 1000]
            wsum = sum((level_dec(x[1]) for x in window), Decimal(0))
            choices = [(lv, "level-exact"), (lv + step, "level+1"), (max(step, lv - step), "level-1"), (step, "one")]
            if len(window) > 1:
                first = level_dec(window[0][1])          # the level the order snaps to is the best one inside the window
                choices += [(wsum, "window-sum"), (first + step, "window-first+1"), (first, "window-first-exact"),
                            (max(step, ((first + wsum) / 2).quantize(step)), "window-between")] * 2
            op["amount"], acls = rng.choice(choices)
    elif mode < 0.36:
        op["priceUsd"], mtag = round(rng.uniform(1, 200), 2), "limit-usd-random"
    if rng.random() < 0.3:
        mult = rng.choice((1.0, 1.01, 1.05, 1.5, 2, 10, Decimal("1.1"), 0.5, 0, -1))
        op["mult"] = mult
        mtag += "+cap" if (mult not in (0, -1)) else "+cap-degenerate"
    if ins.get("rough"):
        mtag += "~rough"
    return op, f"{mtag}:{acls}"


def gen_tie_trade(rng, ins, token, side, positions=None):
    """an order capped with the multiple that puts one level of the book exactly on the cap"""
    step = Decimal(1) if token == "ETH" else Decimal("0.1")
    m, tie_price, _ = ins["tie"][side]
    levels = ins["asks"] if side == "buy" else ins["bids"]
    strictly = [l for l in levels if (l[0] < tie_price if side == "buy" else l[0] > tie_price)]
    at_tie = [l for l in levels if l[0] == tie_price]
    inner = sum((level_dec(l[1]) for l in strictly), Decimal(0))
    tie_sz = sum((level_dec(l[1]) for l in at_tie), Decimal(0))
    r = rng.random()
    if r < 0.55:
        amount, acls = inner + max(step, (tie_sz * Decimal(rng.randint(1, 100)) / 100).quantize(step)), "into-tie-level"
    elif r < 0.7:
        amount, acls = inner, "strictly-better-exact"
    elif r < 0.8 and inner > step:
        amount, acls = (inner * Decimal(rng.randint(10, 99)) / 100).quantize(step), "inside-strictly-better"
    elif r < 0.9:
        amount, acls = inner + tie_sz + step, "beyond-tie-level"
    else:
        amount, acls = inner + tie_sz, "through-tie-level"
    if amount < step:
        amount = step
    op = {"type": side, "name": ins["name"], "amount": amount, "mult": tie_mult_arg(rng, m)}
    mtag = "market+cap-tie"
    if ins.get("rough"):
        mtag = "market~rough+cap-tie"
    if rng.random() < 0.2:
        op["priceTok"], mtag = tie_price, "limit-at-tie+cap-tie"
        op["amount"] = max(step, (tie_sz * Decimal(rng.randint(1, 100)) / 100).quantize(step))
    elif rng.random() < 0.1:
        op["mult"] = tie_mult_arg(rng, rng.choice(TIE_MULTS))      # some other multiple: no tie, or a tie with a different level
        mtag = "market+cap-other"
    return op, f"{mtag}:{acls}"


def book_of(rig: Rig, name):
    df = rig.market.market_status.data
    if name not in df.index:
        return None
    return df.loc[name]


# ------------------------------------------------------------------------------------------ bar loop (C16, C01)
class _NoBar:
    def __init__(self, *a, **k):
        pass

    def __enter__(self):
        return self

    def __exit__(self, *a):
        return False

    def update(self, *a, **k):
        pass

    def set_description(self, *a, **k):
        pass


_quiet = False


def quiet():
    """silence tqdm and logging of the real Actuator (UI only)"""
    global _quiet
    if _quiet:
        return
    import logging
    import demeter.core.actuator as act
    act.tqdm = _NoBar
    logging.disable(logging.CRITICAL)
    _quiet = True


def uni_market(n_minutes, start=0, tick=200000):
    """a real minutely UniLpMarket over synthetic, flat pool data (the co-market of C16/C01 runs)"""
    from demeter import MarketInfo, TokenInfo
    from demeter.uniswap import UniV3Pool, UniLpMarket
    from demeter.uniswap.helper import _add_statistic_column
    usdc, eth = TokenInfo("usdc", 6), TokenInfo("eth", 18)
    pool = UniV3Pool(token0=usdc, token1=eth, fee=0.05, quote_token=usdc)
    index = pd.date_range(ts_of(start), periods=n_minutes, freq="min")
    df = pd.DataFrame(index=index)
    df["netAmount0"] = [0] * n_minutes
    df["netAmount1"] = [0] * n_minutes
    t = pd.Series([tick] * n_minutes, index=index, dtype="int64")
    for c in ("closeTick", "openTick", "lowestTick", "highestTick"):
        df[c] = t
    for c in ("inAmount0", "inAmount1"):
        df[c] = pd.Series([Decimal(0)] * n_minutes, index=index, dtype=object)
    df["currentLiquidity"] = pd.Series([Decimal(10 ** 18)] * n_minutes, index=index, dtype=object)
    _add_statistic_column(df, pool)
    m = UniLpMarket(MarketInfo("uni"), pool)
    m.data = df
    return m, usdc, eth


def deribit_frame(hours):
    """hours: list of (minute offset, instrs) -> the (time, instrument_name)-indexed frame of load_deribit_option_data"""
    frames = []
    for m, instrs in hours:
        if not instrs:
            continue
        df = book_frame(instrs).reset_index()
        df["time"] = ts_of(m)
        frames.append(df)
    return pd.concat(frames).set_index(["time", "instrument_name"]).sort_index()
