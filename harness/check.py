#!/venv/bin/python
"""./check <property> [--tier quick|thorough] [--replay path]

1. regenerate the Lean constants from /repo's working tree          (tools/gen_consts.py)
2. lake build the property's proof modules and the model driver     (theorems re-checked against the code's constants)
3. audit: forbidden constructs, `#print axioms` of every property theorem; thorough: leanchecker
4. correspondence + oracle run of the property's harness module against the real code in /repo
5. verdict, evidence/<id>.json, replays/<id>-*.json
Exit 0 = held on everything explored; 1 = VIOLATION line printed; 2 = the check itself could not run.
"""
from __future__ import annotations

import argparse
import fcntl
import hashlib
import importlib
import json
import os
import re
import subprocess
import sys
import time
import traceback

HERE = os.path.dirname(os.path.abspath(__file__))
sys.path.insert(0, HERE)
import common  # noqa: E402
from common import VERIF, LEAN_DIR, REPO, Ctx, jsonable  # noqa: E402

sys.path.insert(0, REPO)

ALLOWED_AXIOMS = {"propext", "Classical.choice", "Quot.sound"}
FORBIDDEN = re.compile(r"\bsorry\b|\badmit\b|^\s*axiom\s|native_decide|bv_decide|implemented_by|\bunsafe\s|maxHeartbeats\s+0\b", re.M)
WORK = os.path.join(VERIF, ".work")


def sh(cmd, cwd=None, timeout=None, env=None):
    p = subprocess.run(cmd, cwd=cwd, stdout=subprocess.PIPE, stderr=subprocess.STDOUT, timeout=timeout, env=env)
    out = p.stdout.decode(errors="replace")
    out = "\n".join(l for l in out.split("\n") if "conda.cli.condarc" not in l)
    return p.returncode, out


def strip_comments(src: str) -> str:
    # remove /- ... -/ (nested) and -- line comments
    out = []
    i, depth, n = 0, 0, len(src)
    while i < n:
        if src.startswith("/-", i):
            depth += 1
            i += 2
        elif depth and src.startswith("-/", i):
            depth -= 1
            i += 2
        elif depth:
            i += 1
        elif src.startswith("--", i):
            while i < n and src[i] != "\n":
                i += 1
        else:
            out.append(src[i])
            i += 1
    return "".join(out)


def module_path(mod: str) -> str:
    return os.path.join(LEAN_DIR, *mod.split(".")) + ".lean"


def theorems_of(mod: str, prop: str, extra=()) -> list[str]:
    src = strip_comments(open(module_path(mod)).read())
    pref = "|".join([re.escape(prop + "_")] + [re.escape(e) for e in extra])
    return re.findall(r"^theorem\s+((?:" + pref + r")[A-Za-z0-9_']+)", src, re.M)


def grep_forbidden() -> list[str]:
    hits = []
    for root in ("Demeter", "Proofs"):
        for dp, _, fs in os.walk(os.path.join(LEAN_DIR, root)):
            for f in fs:
                if f.endswith(".lean"):
                    p = os.path.join(dp, f)
                    for m in FORBIDDEN.finditer(strip_comments(open(p).read())):
                        hits.append(f"{os.path.relpath(p, LEAN_DIR)}: {m.group(0).strip()}")
    p = os.path.join(LEAN_DIR, "Driver.lean")
    for m in FORBIDDEN.finditer(strip_comments(open(p).read())):
        hits.append(f"Driver.lean: {m.group(0).strip()}")
    return hits


class Lock:
    def __enter__(self):
        os.makedirs(WORK, exist_ok=True)
        self.f = open(os.path.join(WORK, "lake.lock"), "w")
        fcntl.flock(self.f, fcntl.LOCK_EX)
        return self

    def __exit__(self, *a):
        fcntl.flock(self.f, fcntl.LOCK_UN)
        self.f.close()


def build_and_audit(prop: str, mod, tier: str):
    """returns (broken: list[dict], info: dict, driver_ok: bool)"""
    broken = []
    info = {"obligations": 0, "discharged": 0, "theorems": [], "axioms": {}}
    rc, out = sh(["python3", os.path.join(VERIF, "tools", "gen_consts.py")])
    info["gen_consts"] = out.strip().split("\n")[-1] if out.strip() else ""
    if rc != 0:
        broken.append({"kind": "regeneration", "what": "tools/gen_consts.py crashed", "detail": out[-2000:]})
    elif not info["gen_consts"].startswith("gen_consts:"):
        # the generator ends with "gen_consts: rewrote …/unchanged" once every generated file has been written; anything else means it
        # stopped before the write loop (exit status 0 notwithstanding) and the constants on disk are not those of the current source
        broken.append({"kind": "regeneration", "what": "tools/gen_consts.py ended without writing the generated files", "detail": out[-2000:]})
    mods = list(mod.LEAN_MODULES)
    extra_pref = list(getattr(mod, "EXTRA_THEOREM_PREFIXES", ()))
    try:  # tie theorems (model = code translated by tools/py2lean.py) guarding this property: tools/tie_modules.json
        tie = [m for m in json.load(open(os.path.join(VERIF, "tools", "tie_modules.json"))).get(prop, []) if m not in mods]
    except (OSError, ValueError):
        tie = []
    if tie:
        mods += tie
        extra_pref.append("Tie_")
    info["tie_modules"] = tie
    if tier == "thorough":
        mods += list(getattr(mod, "LEAN_MODULES_THOROUGH", []))
    # generated files an extractor could not re-derive from the current source (filled from the recorded baseline): for the
    # properties that import them this is a weakened tie, answered by an enlarged correspondence run, not an alarm by itself
    try:
        st = json.load(open(os.path.join(WORK, "gen_status.json"))).get("stale", {})
    except Exception:  # noqa: BLE001
        st = {}
    deps = gen_deps(mods + [DRIVER_ROOTS.get(d, "") for d in getattr(mod, "DRIVERS", ["driver"])])
    info["stale_constants"] = {k: v for k, v in st.items() if "Demeter.Gen." + k[:-5] in deps}
    if info["stale_constants"]:
        STALE.update(info["stale_constants"])
        print("check: constants could not be re-extracted from the current source and are taken from the recorded baseline ("
              + "; ".join(f"{k}: {v[:90]}" for k, v in info["stale_constants"].items()) + "): enlarged search budget")
    with Lock():
        rc_d, out_d = sh(["lake", "build"] + list(getattr(mod, "DRIVERS", ["driver"])), cwd=LEAN_DIR, timeout=3000)
        driver_ok = rc_d == 0
        if not driver_ok:
            broken.append({"kind": "model-build", "what": "the Lean model/driver no longer builds", "detail": out_d[-3000:]})
        built = {}
        for m in mods:
            rc_m, out_m = sh(["lake", "build", m], cwd=LEAN_DIR, timeout=6000)
            built[m] = rc_m == 0
            if rc_m != 0:
                errs = [l for l in out_m.split("\n") if "error" in l][:12]
                broken.append({"kind": "proof", "module": m, "what": f"proof obligations in {m} no longer check", "detail": "\n".join(errs) or out_m[-2000:]})
    # obligations = every `theorem <prop>_*` of the property's modules
    thms = []
    for m in mods:
        for t in theorems_of(m, prop, extra_pref):
            thms.append((m, t))
    info["obligations"] = len(thms)
    info["theorems"] = [t for _, t in thms]
    pending = getattr(mod, "PENDING_OBLIGATIONS", [])
    if pending and tier != "thorough":
        info["pending_thorough_only"] = pending
    hits = grep_forbidden()
    if hits:
        broken.append({"kind": "audit", "what": "forbidden construct in Lean sources", "detail": "\n".join(hits[:20])})
    ok_mods = [m for m in mods if built.get(m)]
    if ok_mods:
        os.makedirs(WORK, exist_ok=True)
        audit = os.path.join(WORK, f"audit_{prop}_{os.getpid()}.lean")
        with open(audit, "w") as f:
            for m in ok_mods:
                f.write(f"import {m}\n")
            f.write("open Demeter\n")
            for m, t in thms:
                if m in ok_mods:
                    f.write(f"#print axioms {t}\n")
        rc_a, out_a = sh(["lake", "env", "lean", audit], cwd=LEAN_DIR, timeout=3000)
        os.remove(audit)
        seen = {}
        out_a = out_a.replace("Demeter.", "")
        for mm in re.finditer(r"'([^']+)' (depends on axioms: \[([^\]]*)\]|does not depend on any axioms)", out_a):
            axs = [a.strip() for a in (mm.group(3) or "").replace("\n", " ").split(",") if a.strip()]
            seen[mm.group(1)] = axs
        for m, t in thms:
            if m not in ok_mods:
                continue
            if t not in seen:
                broken.append({"kind": "audit", "what": f"#print axioms gave no answer for {t}", "detail": out_a[-1000:]})
            elif set(seen[t]) - ALLOWED_AXIOMS:
                broken.append({"kind": "audit", "what": f"{t} depends on non-standard axioms {sorted(set(seen[t]) - ALLOWED_AXIOMS)}", "detail": ""})
            else:
                info["discharged"] += 1
        info["axioms"] = {t: a for t, a in seen.items()}
        if tier == "thorough":
            # independent re-check of the compiled modules, one module per process and one at a time (a module name is
            # also a prefix for leanchecker: `Proofs.C06` replays all kernel-sweep shards, ~40 GB); a run that dies
            # of a resource limit is recorded as skipped, never as a rejection
            t0 = time.time()
            lc = {}
            with Lock():
                for m in ok_mods:
                    try:
                        rc_c, out_c = sh(["lake", "env", "leanchecker", m], cwd=LEAN_DIR, timeout=5400)
                    except subprocess.TimeoutExpired:
                        lc[m] = "skipped: timeout"
                        continue
                    if rc_c == 0:
                        lc[m] = "ok"
                    elif rc_c < 0 or rc_c in (137, 134, 139) or "out of memory" in out_c.lower():
                        lc[m] = f"skipped: resource limit (rc {rc_c})"
                    else:
                        lc[m] = f"rejected (rc {rc_c})"
                        broken.append({"kind": "audit", "what": f"leanchecker rejected {m}", "detail": out_c[-2000:]})
            info["leanchecker"] = {"wall_s": round(time.time() - t0, 1), "modules": lc}
    return broken, info, driver_ok


def load_known(prop):
    path = os.path.join(VERIF, "known_findings.jsonl")
    known = {}
    if os.path.exists(path):
        for line in open(path):
            line = line.strip()
            if not line or line.startswith("#"):
                continue
            if line.startswith("fixed:"):
                continue   # fixed entries suppress nothing
            e = json.loads(line)
            if e.get("kind") == "finding" and e.get("property") == prop:
                known[e["key"]] = e
    return known


def write_replay(prop, payload) -> str:
    os.makedirs(os.path.join(VERIF, "replays"), exist_ok=True)
    blob = json.dumps(jsonable(payload), sort_keys=True, indent=1)
    h = hashlib.sha1(blob.encode()).hexdigest()[:10]
    rel = os.path.join("replays", f"{prop}-{h}.json")
    with open(os.path.join(VERIF, rel), "w") as f:
        f.write(blob + "\n")
    return rel


DRIVER_ROOTS = {"driver": "Driver", "driver_aave": "DriverAave", "driver_deribit": "DriverDeribit", "driver_squeeth": "DriverSqueeth",
                "driver_gmx": "DriverGmx", "driver_core": "DriverCore", "driver_metrics": "DriverMetrics", "driver_aaverisk": "DriverAaverisk",
                "driver_tick": "DriverTick", "driver_broker": "DriverBroker"}
STALE = {}


def gen_deps(mods):
    """the Demeter.Gen.* modules that the given Lean modules import, transitively (within lean/)"""
    seen, todo, gen = set(), [m for m in mods if m], set()
    while todo:
        m = todo.pop()
        if m in seen:
            continue
        seen.add(m)
        if m.startswith("Demeter.Gen."):
            gen.add(m)
        p = module_path(m)
        if not os.path.exists(p):
            continue
        for imp in re.findall(r"^import\s+(\S+)", open(p).read(), re.M):
            if imp.split(".")[0] in ("Demeter", "Proofs") or imp in DRIVER_ROOTS.values():
                todo.append(imp)
    return gen


COMMON_SOURCES = ("demeter/_typing.py", "demeter/utils/", "demeter/broker/", "demeter/__init__.py")


def changed_sources(prop):
    """files anchoring this property (properties.jsonl) or shared by all markets whose AST differs from source_fingerprints.json"""
    try:
        sys.path.insert(0, os.path.join(VERIF, "tools"))
        import fingerprint
        ch = fingerprint.changed(REPO)
        anchors = []
        for l in open(os.path.join(VERIF, "properties.jsonl")):
            pr = json.loads(l)
            if pr["id"] == prop:
                anchors = pr["anchors"].get("files", [])
        return [f for f in ch if f in anchors or f.startswith(COMMON_SOURCES)]
    except Exception:  # noqa: BLE001
        return []


BOOST = []
LAST_CTX = []   # the context of the harness run in progress (what it had found is kept when the run stops half-way)


def run_harness(mod, prop, tier, seed, driver_ok, search):
    ctx = Ctx(prop, tier, seed, driver_ok, search, boost=bool(BOOST) or bool(STALE))
    LAST_CTX[:] = [ctx]
    mod.run(ctx)
    return ctx


def main():
    ap = argparse.ArgumentParser()
    ap.add_argument("prop")
    ap.add_argument("--tier", default=os.environ.get("VERIF_TIER") or "quick", choices=["quick", "thorough"])
    ap.add_argument("--replay")
    args = ap.parse_args()
    prop = args.prop.upper()
    seed = int(os.environ.get("VERIF_SEED") or 0)
    t0 = time.time()
    os.environ.setdefault("DEMETER_VERIF", "1")
    try:
        mod = importlib.import_module(prop.lower())
    except ModuleNotFoundError:
        print(f"check: no harness for {prop}")
        return 2

    if args.replay:
        case = json.load(open(args.replay))
        with Lock():
            sh(["python3", os.path.join(VERIF, "tools", "gen_consts.py")])
            rc_d, _ = sh(["lake", "build"] + list(getattr(mod, "DRIVERS", ["driver"])), cwd=LEAN_DIR, timeout=3000)
        ctx = Ctx(prop, args.tier, seed, rc_d == 0)
        if "no_failing_input_found" in case:
            print(f"replay {args.replay}: names broken obligations, no input to replay:")
            for b in case.get("broken", []):
                print("  -", b.get("what"))
            return 0
        verdict = mod.replay(ctx, case.get("replay", case))
        print(f"replay {args.replay}: property {'HOLDS' if verdict else 'FAILS'} on this case")
        return 0 if verdict else 1

    BOOST[:] = changed_sources(prop)
    if BOOST:
        print(f"check: {len(BOOST)} anchored source file(s) differ from the recorded fingerprint ({', '.join(BOOST[:4])}): enlarged search budget")
    try:
        broken, info, driver_ok = build_and_audit(prop, mod, args.tier)
    except subprocess.TimeoutExpired as e:
        print("check: build timed out:", e)
        return 2
    try:
        ctx = run_harness(mod, prop, args.tier, seed, driver_ok, search=False)
    except Exception as e:  # noqa: BLE001
        traceback.print_exc()
        if not (BOOST or STALE or broken):
            print("check: harness crashed")
            return 2
        # the harness stopped on code that differs from the recorded fingerprint (an unexpected value, type or attribute): the correspondence
        # with the changed source could not be established - that is a broken tie (answered by the search below), not a verdict of its own
        tb = traceback.extract_tb(e.__traceback__)[-1]
        broken.append({"kind": "correspondence", "what": f"the harness could not complete against the changed source: {type(e).__name__}: {str(e)[:200]} "
                                                         f"({os.path.basename(tb.filename)}:{tb.lineno})", "detail": traceback.format_exc()[-1500:]})
        ctx = LAST_CTX[0] if LAST_CTX else Ctx(prop, args.tier, seed, driver_ok, False, boost=True)
    for d in ctx.disagreements:
        broken.append({"kind": "correspondence", "what": d["what"], "detail": d["replay"]})
    searched = False
    if broken and not ctx.violations:
        # a proof obligation or the tie is broken and no falsifying observation is at hand: search for one
        searched = True
        try:
            ctx2 = run_harness(mod, prop, args.tier, seed + 7919, driver_ok, search=True)
            ctx.violations += ctx2.violations
            ctx.evaluations += ctx2.evaluations
            for k, v in ctx2.buckets.items():
                ctx.buckets[k] = ctx.buckets.get(k, 0) + v
        except Exception:
            traceback.print_exc()

    known = load_known(prop)
    rc = 0
    new_violations = 0
    printed_known = set()
    seen_keys = set()
    for v in ctx.violations:
        if v["key"] in known:
            if v["key"] not in printed_known:
                printed_known.add(v["key"])
                print(f"KNOWN-FINDING: property={prop} {known[v['key']].get('what', v['what'])}")
            continue
        if v["key"] in seen_keys:
            continue
        seen_keys.add(v["key"])
        new_violations += 1
        rel = write_replay(prop, {"property": prop, "seed": seed, "tier": args.tier, "key": v["key"], "what": v["what"],
                                  "replay": v["replay"], "how_to_replay": f"./check {prop} --replay <this file>"})
        print(f"VIOLATION property={prop} replay={rel}")
        print(f"  {v['key']}: {v['what']}")
        rc = 1
    if broken and rc == 0:
        rel = write_replay(prop, {"property": prop, "seed": seed, "tier": args.tier, "no_failing_input_found": True,
                                  "broken": broken, "searched": searched})
        for b in broken[:8]:
            print(f"  broken {b['kind']}: {b['what']}")
            if b["kind"] in ("proof", "model-build", "regeneration") and b.get("detail"):
                print("    " + str(b["detail"]).replace("\n", "\n    ")[:1500])
        print(f"VIOLATION property={prop} replay={rel} no-failing-input-found")
        rc = 1

    wall = time.time() - t0
    distinct = len(ctx.buckets)
    trusted = [
        "Lean 4.33 kernel; axioms of every property theorem ⊆ {propext, Classical.choice, Quot.sound} (checked by #print axioms on this run)",
        "tools/gen_consts.py (ast extraction of constants from /repo)",
        "hand-written Lean model tied to the code by this run's differential execution (harness generators bound what is seen)",
    ] + list(getattr(mod, "TRUSTED", []))
    cov = {
        "obligations": info["obligations"],
        "discharged": info["discharged"],
        "checker_cmd": "cd lean && lake build " + " ".join(mod.LEAN_MODULES) + " && lake env lean <#print axioms of each theorem>"
                       + (" && lake env leanchecker <modules>" if args.tier == "thorough" else ""),
        "trusted_base": trusted,
        "theorems": info["theorems"],
        "axioms_used": sorted({a for axs in info.get("axioms", {}).values() for a in axs}),
        "evaluations": ctx.evaluations,
        "distinct_nontrivial": distinct,
        "rule": getattr(mod, "RULE", "cases are bucketed by (operation, branch tag, outcome); one bucket = one distinct non-trivial case class"),
        "samples": jsonable(ctx.samples[:12]) or ["(no cases generated)"],
        "traces_validated_against_impl": ctx.impl_traces or ctx.evaluations,
        "buckets": dict(sorted(ctx.buckets.items())[:400]),
        "disagreements": len(ctx.disagreements),
        "broken": [{"kind": b["kind"], "what": b["what"]} for b in broken],
        "known_findings_hit": sorted(printed_known),
        "exact_vs_impl_max_rel_dev": common.fmt(ctx.max_dev) if ctx.max_dev else "0",
        "notes": jsonable(ctx.notes),
        "gen_consts": info.get("gen_consts"),
        "source_changed_since_fingerprint": list(BOOST),
        "stale_generated_constants": dict(STALE),
    }
    for k in ("pending_thorough_only", "leanchecker"):
        if k in info:
            cov[k] = info[k]
    ev = {
        "property_id": prop, "tier": args.tier, "seed": seed, "level": "proof", "coverage": cov,
        "assumptions": list(getattr(mod, "ASSUMPTIONS", [])), "wall_s": round(wall, 2), "violations": new_violations + (1 if (broken and new_violations == 0 and rc == 1) else 0),
    }
    os.makedirs(os.path.join(VERIF, "evidence"), exist_ok=True)
    with open(os.path.join(VERIF, "evidence", f"{prop}.json"), "w") as f:
        json.dump(ev, f, indent=1, sort_keys=True)
        f.write("\n")
    print(f"check {prop} tier={args.tier} seed={seed}: obligations {info['discharged']}/{info['obligations']}, "
          f"{ctx.evaluations} cases in {distinct} buckets, {len(ctx.disagreements)} disagreements, "
          f"{new_violations} new violations, {len(printed_known)} known findings, {wall:.1f}s -> exit {rc}")
    return rc


if __name__ == "__main__":
    try:
        sys.exit(main())
    except subprocess.TimeoutExpired as e:
        print("check: timeout", e)
        sys.exit(2)
