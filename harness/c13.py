"""C13 — every derived Aave view equals a from-scratch recomputation, after any interleaving of reads, writes,
rejected calls, liquidations and bar changes.

Oracle (implementation's own observations, independent of the Lean model): after every step every view is read
on a copy of the market *with the caches as the step left them* and on a copy *with all five caches reset*; the
two must coincide (outcome class and every number, exactly).  The same observations are compared with the
Lean `specView` (closed-form recomputation from raw `_supplies/_borrows`, indices, prices) evaluated by the driver.
Correspondence: every step (reads included, they fill caches) is replayed on the model from the
implementation's dumped state; outcome class, result, the five caches, positions, wallet, action records and
`has_update` must coincide exactly.
"""
from __future__ import annotations

import copy
from decimal import Decimal as D

import aave_lib as A
from common import Ctx, driver_json, fmt

PROPERTY = "C13"
LEAN_MODULES = ["Proofs.C13", "Proofs.C13.Update", "Proofs.C13.UpdateRound35"]
DRIVERS = ["driver_aave"]
RULE = ("random operation sequences (2-4 tokens, 27-digit indices, prices over 9 decades, risk tables with zero LTV / non-collateral / "
        "non-borrowable tokens) interleaving every public read with supply/withdraw/borrow/repay(cash|collateral)/change_collateral/"
        "update/new bar (quiet bars: parts of the row, or everything but one price, repeat the previous bar)/the same bar set again without a row "
        "(data=None, prices unchanged or a held token re-priced), the same token supplied and borrowed, collateral crashes that leave 0 < HF <= 1e-6, liquidations at exact collateral/debt ties (capped-or-not decided by the 35-digit rounding), plus a malformed stream (zero, negative, huge, unknown token, closed market) and price shocks that trigger "
        "liquidation; bucket = (operation or view, model outcome/rejection cause, argument class, number of filled supply-side and "
        "borrow-side caches before the call)")
TRUSTED = ["theorems are for every arithmetic context (cache coherence does not depend on rounding); the driver runs the model under "
           "CPython's Decimal semantics (round-half-even to 35 digits, libmpdec power) so every cached number is compared exactly",
           "`Decimal ** 31536000` in rate_to_apy is the `dpowNat` re-implementation of libmpdec's algorithm (validated bit-exactly by this run)"]
ASSUMPTIONS = ["theorems: the bar's data has an index/rate row, a price and a risk-table row for every token it lists (EnvOK), lists every "
               "token that is held (Covers) and has non-zero indices (EnvPos); bars whose price vector lacks a held token are exercised by "
               "the oracle only (every valuation must raise KeyError, on cold caches and after an interrupted fill alike — repaired by c25cbec)",
               "no raise is excluded: DemeterError('variable_delt < actual_debt_to_liquidate') in _do_liquidate used to sit after the collateral "
               "seizure and before the cache resets and was reachable at exact ties (repaired by d1c4970: checked before anything changes, and the "
               "repayment is min-ed down); it is now proved unreachable (C13_liquidate_never_raises_debt_exceeds: monotone idempotent rounding, no "
               "negative debt entry) and the hypothesis Aave.updWF is evaluated on every update() of this run, by the harness on the "
               "implementation's state and by the driver on the model's: a raise on a well-formed state is a VIOLATION; tie sequences exercise "
               "that path on every run",
               "broker.allow_negative_balance is False (the default)"]


def filled(st):
    """which sides have a filled cache before the call (a stale view needs a filled cache)"""
    s = any(not st[c]["empty"] for c in ("collC", "supAmtC", "supC"))
    b = any(not st[c]["empty"] for c in ("borAmtC", "borC"))
    return ("S" if s else "s") + ("B" if b else "b")


def observe_all(m, toks):
    """every view on a copy that keeps the caches (= what a caller would see now; reads never reset a cache, so reading
    the views one after the other on that copy cannot hide a stale one) and, for the from-scratch side, each view on
    its own copy with all five caches cold (so that a fill interrupted by one view cannot leak into the next)"""
    warm_m = A.clone_market(m, True)
    warm, cold = {}, {}
    for v in A.VIEWS0:
        warm[v] = A.observe_view(warm_m, v)
        cold[v] = A.observe_view(A.clone_market(m, False), v)
    for v in A.VIEWS1 + A.HELPERS1:
        warm[v] = {t: A.observe_view(warm_m, v, t) for t in toks}
        cold[v] = {t: A.observe_view(A.clone_market(m, False), v, t) for t in toks}
    return warm, cold


def liq_script(rng, env):
    """a scripted history that ends in a passive liquidation inside a bar whose caches are warm: supply collateral(s), borrow close to
    the limit (twice the same token: the second borrow meets filled borrow caches), a bar in which the collateral price falls,
    optional reads, `update()`, reads of the listing views"""
    toks = env["tokens"]
    colls = [t for t in toks if env["risk"][t]["canColl"] and env["risk"][t]["lt"] > 0 and env["risk"][t]["ltv"] > 0]
    debts = [t for t in toks if env["risk"][t]["canBorrow"]]
    if not colls or not debts:
        return None, None
    cs = rng.sample(colls, min(len(colls), rng.choice([1, 1, 2])))
    script = []
    limit = D(0)
    for c in cs:
        usd = A.log_uniform(rng, 2, 6)
        amt = (usd / env["price"][c]).quantize(D(10) ** -18)
        if amt <= 0:
            return None, None
        script.append(({"kind": "supply", "tok": c, "amount": fmt(amt), "coll": True}, None))
        limit += usd * env["risk"][c]["ltv"]
    ds = rng.sample(debts, min(len(debts), rng.choice([1, 1, 2])))
    if rng.random() < 0.3 and any(c in debts for c in cs):
        ds[0] = rng.choice([c for c in cs if c in debts])      # the collateral token is also borrowed
        ds = list(dict.fromkeys(ds))
    share = A.dec_digits(rng, 0.80, 0.985, 4) / len(ds)
    for d in ds:
        a = (limit * share / env["price"][d])
        k = rng.choice([1, 2, 3])
        for _ in range(k):      # the same debt token k times within one bar
            script.append(({"kind": "borrow", "tok": d, "amount": fmt((a / k).normalize())}, None))
            if rng.random() < 0.5:
                script.append(({"kind": "read", "view": rng.choice(["borrows", "healthFactor", "totalBorrowsValue", "marketBalance"])}, None))
    shock = {c: A.dec_digits(rng, 0.3, 0.85, 4) for c in cs if c not in ds or len(cs) > 1}
    if rng.random() < 0.15:
        # the collateral all but vanishes: 0 < HF <= 1e-6 at the end of the bar (liquidated like any HF below 1)
        shock = {c: D(rng.choice([1, 3, 9])) / D(10) ** rng.choice([7, 8, 10, 13]) for c in cs if c not in ds}
    script.append(({"kind": "newBar"}, shock))
    for _ in range(rng.choice([0, 1, 2])):
        script.append(({"kind": "read", "view": rng.choice(A.VIEWS0)}, None))
    if rng.random() < 0.3:
        # a write, then the bar is set again (same timestamp, no row, a held token re-priced) before update(): what the Actuator does
        script.append(({"kind": "read", "view": rng.choice(["healthFactor", "marketBalance", "supplies", "borrows"])}, None))
        script.append(({"kind": "newBar"}, "refresh"))
    script.append(({"kind": "update"}, None))
    script.append(({"kind": "read", "view": rng.choice(["supplies", "borrows", "marketBalance", "healthFactor"])}, None))
    if rng.random() < 0.5:
        script.append(({"kind": "update"}, None))
    return script, [[t, fmt(A.log_uniform(rng, 6, 8) / env["price"][t])] for t in toks]


def run_sequence(ctx: Ctx, rng, nsteps, reqs, meta, exact_env=False, pandas_status=False, tie=False, liq=False):
    script = None
    shocks = {}
    if liq:
        env = A.gen_env(rng, exact=exact_env)
        env["pandas_status"] = pandas_status
        sc, wallet = liq_script(rng, env)
        if sc is None:
            return
        script = [op for op, _ in sc]
        shocks = {i: sh for i, (_, sh) in enumerate(sc) if sh is not None}      # a price shock per token, or "refresh"
        nsteps = len(script)
        m, b, actions = A.new_market(env, wallet)
    elif tie:
        # liquidation at an exact collateral/debt tie (capped-or-not decided by the 35-digit rounding), caches warm or cold
        env, m, b, actions, _ = A.tie_market(rng)
        script = ([{"kind": "read", "view": rng.choice(A.VIEWS0)}] if rng.random() < 0.7 else []) + [{"kind": "update"}, {"kind": "read", "view": "healthFactor"}]
        nsteps = len(script)
    else:
        env = A.gen_env(rng, exact=exact_env)
        env["pandas_status"] = pandas_status
        m, b, actions = A.new_market(env, A.initial_wallet(rng, env))
    last_kind = None
    was_stale = False
    pending = []            # (op, env_next) drawn but not yet executed: cache-warming reads queued in front of a write

    def draw():
        """the next random operation on the current state (and the next bar's data when it is a bar change)"""
        r = rng.random()
        if r < 0.07 or (last_kind == "newBar" and r < 0.5):
            return {"kind": "update"}, None
        if 0.16 <= r < 0.21:
            # the same bar set again without a row (data=None: the market reloads it from its frame), prices unchanged or re-priced:
            # every view must follow the price Series that is installed now
            held = [k.name for k in list(m._supplies) + list(m._borrows)]
            return {"kind": "newBar"}, A.refresh_env(rng, env, held)
        if r < 0.16:
            shock = None
            if m._supplies and rng.random() < 0.6:
                shock = {t.name: A.dec_digits(rng, 0.3, 0.95, 4) for t in m._supplies if rng.random() < 0.8}
            nxt = A.next_env(rng, env, shock)
            if rng.random() < 0.06:
                nxt["isOpen"] = False
            if rng.random() < 0.12 and (m._supplies or m._borrows):
                # malformed bar: the price vector lacks a token that is held — every valuation must raise KeyError,
                # on a cold cache and on whatever an interrupted fill left behind alike
                held = [k.name for k in list(m._supplies) + list(m._borrows)]
                later = [k.name for k in list(m._supplies)[1:] + list(m._borrows)[1:]]   # not the first key: a fill gets interrupted midway
                drop = rng.choice(later if later and rng.random() < 0.7 else held)
                nxt["price"] = {t: p for t, p in nxt["price"].items() if t != drop}
            return {"kind": "newBar"}, nxt
        if r < 0.45:
            return read_op(), None
        return A.gen_op(rng, m, b, env), None

    def read_op():
        if rng.random() < 0.15:
            # a read-only helper outside the model's vocabulary (implementation + oracle only)
            return {"kind": "helper", "view": rng.choice(A.HELPERS1), "tok": rng.choice(env["tokens"] + [A.UNKNOWN])}
        v = rng.choice(A.VIEWS0 + A.VIEWS0 + A.VIEWS1)
        op = {"kind": "read", "view": v}
        if v in A.VIEWS1:
            op["tok"] = rng.choice(env["tokens"] + [A.UNKNOWN])
        return op

    for i in range(nsteps):
        env_next = None
        if script is not None:
            op = script[i]
            if op["kind"] == "newBar":
                if shocks.get(i) == "refresh":
                    env_next = A.refresh_env(rng, env, [k.name for k in list(m._supplies) + list(m._borrows)], "held")
                else:
                    env_next = A.next_env(rng, env, shocks.get(i))
        else:
            if not pending:
                op, nxt = draw()
                pending.append((op, nxt))
                if op["kind"] not in ("read", "helper", "newBar") and rng.random() < 0.5:
                    # a strategy looking at a random subset of its figures right before it acts: the write (and, for update(),
                    # the liquidation) meets whatever mixture of warm and cold caches these reads leave behind
                    pending[:0] = [(read_op(), None) for _ in range(rng.choice([1, 1, 2, 3]))]
            op, env_next = pending.pop(0)
        s0 = A.dump_state(m, b, actions, len(actions))
        n0 = len(actions)
        env_used = env_next if op["kind"] == "newBar" else env
        outcome, result = A.apply_op(m, op, env_next)
        if env_next is not None:
            env = env_next
        s1 = A.dump_state(m, b, actions, n0)
        case = {"env": A.env_json(env_used), "state": s0, "op": op}
        for ft in A.features(m, env):
            ctx.count("feature:" + ft)
        wf = None
        if op["kind"] == "update":
            # the hypothesis of `C13_liquidate_never_raises_debt_exceeds_wf` / `C04_aave_update_completes`, evaluated on this very state:
            # on a well-formed bar and state an open market's update() must not raise at all
            wf = A.upd_wf(env_used, s0)
            ctx.count("update_on_well_formed_state" if wf else "update_on_malformed_state")
            hf0 = next((a["hfBefore"] for a in s1["actions"] if a["kind"] == "liquidation"), None)
            if hf0 not in (None, "inf") and 0 < A.Fraction(hf0) <= A.Fraction(1, 10 ** 6):
                ctx.count("feature:update-with-hf-in-(0,1e-6]")
            if wf and env_used.get("isOpen", True) and outcome != "ok":
                ctx.violate(f"update.raises-on-well-formed-state:{outcome}",
                            f"update() raised {outcome} on an open market although the bar and the positions are well formed "
                            f"(positive indices and prices, no negative balance, collateral with LT > 0)", case)
        if op["kind"] == "helper":
            ctx.case(f"helper:{op['view']}:{outcome}:{filled(s0)}", {"op": op, "outcome": outcome})
            core = lambda st: {k: st[k] for k in ("supplies", "borrows", "wallet", "hasUpdate")}    # noqa: E731
            if core(s0) != core(s1) or s1["actions"]:
                ctx.violate(f"helper-writes:{op['view']}", f"the read-only helper {op} changed positions / wallet / log / has_update", case)
        else:
            reqs.append(A.step_request(env_used, s0, op))
            meta.append(("step", case, outcome, result, s1, filled(s0), wf))
        # ---- oracle: cached views == cold-cache views == Lean spec on the raw state
        toks = list(env["tokens"])
        warm, cold = observe_all(m, toks)
        what = None
        for v in A.VIEWS0:
            if not A.same(warm[v], cold[v]):
                what = (v, warm[v], cold[v])
                break
        if what is None:
            for v in A.VIEWS1 + A.HELPERS1:
                for t in toks:
                    if not A.same(warm[v][t], cold[v][t]):
                        what = (f"{v}({t})", warm[v][t], cold[v][t])
                        break
                if what:
                    break
        if what is not None and was_stale:
            ctx.count("steps_in_an_already_stale_state")
        was_stale_now = what is not None
        if what is not None and not was_stale:
            v, w, c = what
            d = A.diff(w, c) or ""
            ctx.violate(f"stale:{v.split('(')[0]}:after:{op['kind']}:{outcome}",
                        f"after {op} ({outcome}) the view {v} differs from its from-scratch recomputation: {d[:300]}", case)
        held = [k for k, _ in s1["supplies"]] + [k for k, _ in s1["borrows"]]
        if all(k in env["price"] for k in held):
            # the closed-form spec is stated for bars whose data covers the tokens held (EnvOK / Covers)
            reqs.append({"fn": "aave_specall", "ctx": "py", "env": A.env_json(env), "supplies": s1["supplies"], "borrows": s1["borrows"], "toks": toks})
            meta.append(("spec", case, cold, toks, op, outcome))
        else:
            ctx.count("steps_in_a_bar_without_a_price_for_a_held_token")
        was_stale = was_stale_now
        last_kind = op["kind"]
        ctx.impl_traces += 1


def compare(ctx: Ctx, reqs, meta, outs):
    for rq, mt, o in zip(reqs, meta, outs):
        if "error" in o:
            ctx.disagree(f"driver error {o['error']}", mt[1])
            continue
        if mt[0] == "step":
            _, case, outcome, result, s1, fl, wf = mt
            op = case["op"]
            if wf is not None and o.get("wf") != wf:
                ctx.disagree(f"{op}: well-formedness (Aave.updWF) impl-side {wf} model {o.get('wf')}", case)
            name = op.get("view", op["kind"])
            if name == "update":
                name += f":liq{sum(1 for a in s1['actions'] if a['kind'] == 'liquidation')}"
            ctx.case(f"{name}:{o['tag']}:{A.arg_class(op)}:{fl}", {"op": op, "outcome": outcome})
            if o["outcome"] != outcome:
                ctx.disagree(f"{op}: impl {outcome} model {o['outcome']}/{o['tag']}", case)
                continue
            if outcome == "ok" and op["kind"] == "read" and not A.same(o["result"], result):
                ctx.disagree(f"{op}: result differs {A.diff(result, o['result'])}", case)
                continue
            d = A.diff(s1, o["state"])
            if d:
                ctx.disagree(f"{op} ({outcome}/{o['tag']}): state after differs at {d[:300]}", case)
        else:
            _, case, cold, toks, op, outcome = mt
            for v in A.VIEWS0:
                mine = [o[v]["outcome"], o[v]["result"]]
                if not A.same(cold[v], mine):
                    ctx.disagree(f"specView {v} differs from the implementation's cold-cache value after {op}: {A.diff(cold[v], mine)}", case)
                    break
            else:
                for v in A.VIEWS1:
                    for t in toks:
                        mine = [o[v][t]["outcome"], o[v][t]["result"]]
                        if not A.same(cold[v][t], mine):
                            ctx.disagree(f"specView {v}({t}) differs from the implementation after {op}: {A.diff(cold[v][t], mine)}", case)
                            break


def run(ctx: Ctx):
    rng = ctx.rng
    nseq = ctx.scale(150, 1500)
    reqs, meta = [], []
    for i in range(nseq):
        run_sequence(ctx, rng, rng.randint(12, 34 if not ctx.thorough else 70), reqs, meta, exact_env=(i % 4 == 3), pandas_status=(i % 4 == 1))
    for i in range(ctx.scale(12, 120)):
        run_sequence(ctx, rng, 0, reqs, meta, tie=True)
    for i in range(ctx.scale(40, 400)):
        run_sequence(ctx, rng, 0, reqs, meta, liq=True, exact_env=(i % 4 == 3), pandas_status=(i % 4 == 1))
    if ctx.driver_ok:
        outs = driver_json(reqs, exe=A.EXE)
        compare(ctx, reqs, meta, outs)
    else:
        for mt in meta:
            if mt[0] == "step":
                ctx.case(f"{mt[1]['op'].get('view', mt[1]['op']['kind'])}:{mt[2]}")


def replay(ctx: Ctx, case) -> bool:
    env = A.env_from_json(case["env"])
    m, b, actions = A.new_market(env)
    A.load_state(m, b, case["state"])
    m.is_open = env.get("isOpen", True)
    outcome, _ = A.apply_op(m, case["op"], env)
    warm, cold = observe_all(m, env["tokens"])
    ok = True
    if case["op"]["kind"] == "update" and env.get("isOpen", True) and outcome != "ok" and A.upd_wf(env, case["state"]):
        print(f"   update() raised {outcome} on a well-formed bar and state")
        ok = False
    for v in A.VIEWS0:
        if not A.same(warm[v], cold[v]):
            print(f"   view {v}: cached {warm[v]} vs from scratch {cold[v]}")
            ok = False
    for v in A.VIEWS1 + A.HELPERS1:
        for t in env["tokens"]:
            if not A.same(warm[v][t], cold[v][t]):
                print(f"   view {v}({t}): cached {warm[v][t]} vs from scratch {cold[v][t]}")
                ok = False
    return ok
