"""C03, Squeeth part — with market data and prices frozen, vault operations (accepted or rejected, alone or in a
sequence) create no value beyond wallet dust, no vault amount / wallet balance goes negative, and nothing is
redeemed beyond what is held (demeter/squeeth/market.py)."""
from __future__ import annotations

from decimal import Decimal as D
from fractions import Fraction as F

from common import Ctx
import squeeth_lib as L
import squeeth_gen as G

PROPERTY = "C03"
LEAN_MODULES = ["Proofs.C03.Squeeth"]
DRIVERS = ["driver_squeeth"]
RULE = ("operation sequences of 3-16 steps (vault operations and buy_squeeth / sell_squeeth in both parameter forms) at one frozen environment (spot mode, or a constant 7-point window so that TWAP = spot; pool price = "
        "the squeeth row's oSQTH price), amounts from the C14 generator (zero, negative, exact balance, balance*(1+1e-6), oversized, unknown keys); "
        "after every call Broker.get_account_status(prices).net_value and every raw holding; bucket = (operation, outcome, argument class, "
        "value effect class)")
TRUSTED = ["the TWAP geometric mean is an oracle value captured from the real calc_twap_price (constant windows: mean = the constant up to float error, "
           "absorbed by a 1e-12 relative allowance)"]
ASSUMPTIONS = ["frozen market: every row of the TWAP window equals the current row, the oSQTH/WETH pool's price equals the squeeth row's OSQTH price, "
               "account prices are the ones derived from the same row (WETH, OSQTH*WETH)",
               "the model knows the pool orientation token0 = WETH = quote (pools with token0 = oSQTH, 1 world in 6, are oracle-only); Broker.allow_negative_balance = False; account quote token USD"]

DUST = F(1, 10 ** 5)


def frozen_env(rng):
    rows = G.gen_rows(rng, 1)
    nf, w, o = rows[0][1:]
    if rng.random() < 0.5:
        env = {"rows": rows, "now": None, "cur": [nf, w, o]}
    else:
        n = rng.randint(1, 9)
        rows = [[i, nf, w, o] for i in range(n)]
        env = {"rows": rows, "now": rows[-1][0], "cur": [nf, w, o]}
    env.update({"uniPrice": o, "uniOpen": True, "kind": "frozen-" + ("spot" if env["now"] is None else "const-window")})
    return env


def net_value(world):
    from demeter._typing import USD
    world.broker.quote_token = USD
    nf, w, o = world.cur()
    prices = {"WETH": w, "OSQTH": o * w}
    st = world.broker.get_account_status(prices)
    return F(st.net_value), prices


def touched_dust(o, prices):
    """1e-5 of every wallet balance the call may touch, in account currency"""
    tot = F(0)
    for st in (o.before, o.after):
        for n, b in st["wallet"]:
            tot += abs(L.fr(b)) * F(prices[n])
    return tot * DUST


def oracle(ctx, o, nv0, nv1, prices):
    k = o.op["k"]
    acc = "ok" if o.err is None else "rejected"
    # --- no negative holdings
    for vid, v in o.after["vaults"]:
        if L.fr(v["coll"]) < 0 or L.fr(v["short"]) < 0:
            ctx.violate(f"squeeth.negative.vault:{k}", f"{k} {o.op} leaves vault {vid} with coll {v['coll']}, short {v['short']}", o.replay())
    for n, b in o.after["wallet"]:
        if L.fr(b) < 0:
            ctx.violate(f"squeeth.negative.wallet:{k}", f"{k} leaves wallet {n} = {b}", o.replay())
    for key, p in o.after["positions"]:
        if int(p["liquidity"]) < 0 or L.fr(p["p0"]) < 0 or L.fr(p["p1"]) < 0:
            ctx.violate(f"squeeth.negative.position:{k}", f"{k} leaves position {key} = {p}", o.replay())
    # --- no over-redemption
    if o.err is None and k == "burnWithdraw":
        v0 = next(v for i, v in o.before["vaults"] if int(i) == o.op["vk"])
        v1 = next(v for i, v in o.after["vaults"] if int(i) == o.op["vk"])
        paid_eth = L.fr(v0["coll"]) - L.fr(v1["coll"])
        burned = L.fr(v0["short"]) - L.fr(v1["short"])
        if paid_eth > L.fr(v0["coll"]) or burned > L.fr(v0["short"]) or paid_eth < 0 or burned < 0:
            ctx.violate("squeeth.over-redemption:burnWithdraw", f"burn_and_withdraw took {paid_eth} ETH / {burned} oSQTH from vault {v0}", o.replay())
    # --- no value created
    if nv0 is None or nv1 is None:
        return "nv-unavailable"
    allowance = touched_dust(o, prices) + abs(nv0) * F(1, 10 ** 12)
    gain = nv1 - nv0
    # --- a trade of the long side loses exactly the fee it reports (C03_squeeth_buy/sell_loses_fee_within_dust): fee in WETH for a buy, in oSQTH
    #     for a sell, valued at the bar's prices; a rejected trade or a trade of 0 loses nothing; vaults / positions are never touched
    if k in ("buy", "sell"):
        fee_value = F(0)
        if o.err is None:
            fee_value = L.fr(o.out[0]) * F(prices["WETH" if k == "buy" else "OSQTH"])
            if fee_value < 0:
                ctx.violate(f"squeeth.trade.negative-fee:{k}", f"{k}_squeeth {o.op} reports fee {o.out[0]}", o.replay())
        if abs(gain + fee_value) > allowance:
            ctx.violate(f"squeeth.trade.fee-not-the-loss:{k}:{acc}", f"{k}_squeeth {o.op} ({acc}) moved the net value from {float(nv0):.12g} to {float(nv1):.12g} "
                        f"({float(gain):.6g}); the reported fee is worth {float(fee_value):.6g} (allowed dust {float(allowance):.3g})", o.replay())
        ctx.count("trades_fee_checked")
        if L.state_diff(dict(o.before, wallet=[]), dict(o.after, wallet=[])):
            ctx.violate(f"squeeth.trade.touches-vaults:{k}", f"{k}_squeeth {o.op} changed vaults / positions", o.replay())
    if gain > allowance:
        causes, explained = explain(o, prices)
        if causes and gain <= allowance + explained * (1 + F(1, 10 ** 9)):
            for c in causes:
                ctx.violate(f"squeeth.value-created:{c}",
                            f"{k} {o.op} ({acc}) raised the net value from {float(nv0):.10g} to {float(nv1):.10g} (+{float(gain):.6g}); "
                            f"explained by {causes} (+{float(explained):.6g})", o.replay())
        else:
            ctx.violate(f"squeeth.value-created:{k}:{acc}",
                        f"{k} {o.op} ({acc}) raised the net value from {float(nv0):.10g} to {float(nv1):.10g} (+{float(gain):.6g}, allowed dust "
                        f"{float(allowance):.3g}, explained {float(explained):.6g} by {causes})", o.replay())
        return "gain"
    if abs(gain) <= allowance:
        return "conserved"
    return "loss"


def explain(o, prices):
    """value effects that follow from the valuation conventions the properties themselves fix (C01: LP collateral at the *index* price,
    short at mark; C14: liquidation payment capped at the vault's collateral) — returned as (known-finding causes, gain they account for)"""
    import c14
    sp = L.Spec(o.before, o.env, o.tw, o.to, o.nf)
    weth, mark, uni = F(prices["WETH"]), L.fr(o.osqth), L.fr(o.env["uniPrice"])
    idx = sp.nf * sp.tw / 10000
    k = o.op["k"]
    causes, total = [], F(0)
    if o.err is not None:
        return causes, total
    if k in ("depositUni", "openMint") and o.op.get("pos") is not None and tuple(o.op["pos"]) in sp.pos:
        _, q = sp.lp_tokens(o.op["pos"])
        g = q * (idx - uni) * weth
        if g > 0:
            causes.append("lp-deposit-index-above-mark"); total += g
    if k == "withdrawUni" and tuple(o.op["pos"]) in sp.pos:
        _, q = sp.lp_tokens(o.op["pos"])
        g = q * (uni - idx) * weth
        if g > 0:
            causes.append("lp-withdraw-mark-above-index"); total += g
    if k in ("update", "liquidate", "reduceDebt"):
        for vid, v in o.before["vaults"]:
            av = next((x for i, x in o.after["vaults"] if int(i) == int(vid)), None)
            if av is None or (L.fr(av["coll"]) == L.fr(v["coll"]) and L.fr(av["short"]) == L.fr(v["short"]) and av["nft"] == v["nft"]):
                continue
            c0 = sp.eff_coll(v)
            if c0 is None:
                continue
            before = (c0 - L.fr(v["short"]) * mark) * weth
            if k == "reduceDebt":
                w, q = sp.lp_tokens(v["nft"]) if v["nft"] else (F(0), F(0))
                g = q * (mark - idx) * weth
                if g > 0:
                    causes.append("lp-redeemed-mark-above-index"); total += g
                continue
            s1, c1, excess, stage = c14.spec_liquidate(sp, v)
            after = (c1 - s1 * mark + excess * mark) * weth
            g = after - before
            if g > 0:
                total += g
                if "capped" in stage:
                    causes.append("liquidation-of-underwater-vault")
                if v["nft"]:
                    causes.append("lp-redeemed-mark-above-index")
    return sorted(set(causes)), total


def sequence(ctx, runner):
    rng = ctx.rng
    env = frozen_env(rng)
    world = L.World(G.empty_state(rng, with_osqth=True), env)
    for _ in range(rng.choice([0, 1, 1, 2])):
        G.add_position(rng, world, fees=rng.random() < 0.4)
    # a few vaults, some made unsafe directly (a frozen market cannot make them unsafe by itself)
    for _ in range(rng.randint(3, 16)):
        st = world.dump_state()
        if rng.random() < 0.08 and st["vaults"]:
            vid, v = rng.choice(st["vaults"])
            idx = G.index_price(world)
            if idx > 0:
                v = dict(v, short=G.q(v["coll"] / idx * D(str(rng.uniform(0.7, 3))) + 1, 8))
                st["vaults"] = [[i, (v if int(i) == int(vid) else x)] for i, x in st["vaults"]]
                world.load_state(st)
        op, argc = G.gen_op(rng, world, st)
        try:
            nv0, prices = net_value(world)
        except Exception as ex:  # noqa: BLE001 — e.g. wallet without oSQTH: get_market_balance raises
            nv0, prices = None, None
            ctx.count("net_value_raised:" + type(ex).__name__)
        o = L.observe(world, op, argc)
        try:
            nv1, prices = net_value(world)
        except Exception:  # noqa: BLE001
            nv1 = None
        eff = oracle(ctx, o, nv0, nv1, prices)
        runner.add(o, f"{eff}:")


def run(ctx: Ctx):
    runner = L.Runner(ctx)
    for _ in range(ctx.scale(120, 4000)):
        sequence(ctx, runner)
    runner.finish()
    L.special_stream(ctx, ctx.scale(120, 2500), "squeeth.", reject_intact=False)


def replay(ctx: Ctx, case) -> bool:
    if case.get("special"):
        return L.special_replay(case, "squeeth.", reject_intact=False)
    world = L.World(G.parse_spec(case["spec"]), G.parse_env(case["env"]))
    nv0, prices = net_value(world)
    o = L.observe(world, G.parse_op(case["op"]), "replay")
    nv1, prices = net_value(world)
    sub = Ctx(ctx.prop, ctx.tier, ctx.seed, False)
    oracle(sub, o, nv0, nv1, prices)
    for v in sub.violations:
        print("  ", v["key"], "—", v["what"][:300])
    return not sub.violations
