"""C03, Deribit part — at a frozen market state with bids <= mark <= asks no sequence of buy / sell / deposit / withdraw
(accepted or rejected, sane or oversized or negative amounts) raises the account's net value beyond wallet dust;
cash, wallet, option amounts and visible sizes never go negative; a sell never pays for more than is held.

Oracle: `Broker.get_account_status(prices).net_value` before/after every call (the implementation's own valuation),
plus raw holdings.  Correspondence: every call replayed on driver_deribit."""
from __future__ import annotations

import copy
from decimal import Decimal
from fractions import Fraction

import pandas as pd

import deribit_lib as L
from common import Ctx

PROPERTY = "C03"
LEAN_MODULES = ["Proofs.C03.Deribit"]
DRIVERS = ["driver_deribit"]
RULE = ("[deribit] sequences of 1-10 operations on one frozen book with bids <= mark <= asks (25 % of the sides as unsorted rows with repeated "
        "prices; 35 % of the books with an ask exactly on multiple x mark and a bid exactly on mark / multiple, bought / sold with that multiple "
        "and amounts reaching into the tie level; 15 % of the books with a deep instrument whose mark is a few fee steps small and mostly OFF "
        "the fee grid (0.0000016, 0.0000235 ...), best ask / best bid on or next to the raw mark (30 % of them with every price on the fee grid), plus two directed sequences with mark = ask = "
        "0.0000016 / mark = bid = 0.0000014); buckets = (operation, amount class incl. zero / negative / "
        "exact holding / holding+1 / x10 / whole wallet / whole cash, pricing mode, outcome, open or closed bar)")
TRUSTED = ["float arithmetic of order-book sizes reproduced with Lean Float in the driver; value theorems are stated for exact arithmetic (DCtx.exact)"]
ASSUMPTIONS = ["order-book data constrained so bids <= mark <= asks on the RAW mark (property text); the value theorems need in addition that the mark "
               "is a multiple of the fee step (MarkOnGrid: the valuation rounds the mark to 1e-6 ETH / 1e-8 BTC) or that every book price is one "
               "(PricesOnGrid, what the exchange's tick size gives) - with mark and a price off the grid the code gains up to "
               "half a fee step per contract (known finding deribit.buy/sell.value-created.offgrid-mark-*, visible for marks below about 4e-6 "
               "where the rounding beats the 12.5 % fee cap)", "instrument names unique, sizes non-negative"]

DUST = Fraction(1, 100000)
TOL = Fraction(1, 10 ** 25)


def account_value(rig: L.Rig, price: Decimal):
    prices = pd.Series({rig.tok.name: price, "USD": Decimal(1)})
    st = rig.broker.get_account_status(prices)
    return Fraction(st.net_value) / Fraction(price)     # in units of the option market's token


def round_half_up(x: Fraction, exp: int) -> Fraction:
    """x rounded half-up (away from zero on a tie) to a multiple of 10**exp - what round_decimal(x, exp) is, in exact arithmetic"""
    step = Fraction(10) ** exp
    q = abs(x) / step
    n = q.numerator // q.denominator
    if 2 * (q - n) >= 1:
        n += 1
    return (n if x >= 0 else -n) * step


def offgrid_gain(t, op, res, book, token, gain, tol):
    """Is the rise of the account value `gain` of an accepted buy / sell fully explained by the valuation rounding an off-grid mark?
    Yes only if (a) the instrument's raw mark is not a multiple of the fee step, (b) every fill respects the frozen constraint against the RAW mark
    (buy price >= mark, sell price <= mark), (c) the rise is exactly what the trade's own numbers give with the position booked at round(mark):
    sum amount x (round(mark) - price) - fee for a buy (mirrored for a sell) - nothing else contributes - and (d) with the position booked at the raw
    mark instead nothing would be gained: gain <= sum amount x |round(mark) - mark|.  Returns the explanation or None."""
    if t not in ("buy", "sell") or not isinstance(res, dict):
        return None
    row = next((i for i in book if i["name"] == op["name"]), None)
    if row is None or row["mark"] == "nan":
        return None
    mark = row["mark"]                                    # exact value of the float in the frame
    rm = round_half_up(mark, L.TOKEN_STEP[token][1])
    if rm == mark:
        return None
    sign = 1 if t == "buy" else -1
    fills = res["fills"]
    if not all(sign * (float(p) - float(mark)) >= 0 for p, _ in fills):
        return None
    amount = sum((a for _, a in fills), Fraction(0))
    expected = sum((a * sign * (rm - p) for p, a in fills), Fraction(0)) - res["fee"]
    # the valuation reads the float's exact binary value, order prices are read through str(float): a level ON the mark is the same float, so the
    # mark the fills are measured against is the one of the two readings that is nearer to the level
    mark_s = Fraction(Decimal(repr(float(mark))))
    rounding = amount * max(sign * (rm - mark), sign * (rm - mark_s))
    if abs(gain - expected) > tol or rounding <= 0 or gain > rounding + tol:
        return None
    return (f"mark {float(mark)!r} is valued at round(mark) = {Decimal(rm.numerator) / Decimal(rm.denominator)}: "
            f"{L.fmt(amount)} contracts x |round(mark) - mark| = {float(rounding):.10g} of rounding, fee {float(res['fee']):.10g}")


def gen_tiny_instr(rng, idx, token, now):
    """a deep instrument worth a few fee steps whose mark is (mostly) NOT a multiple of the fee step: k tenths of a step.  Best ask / best bid sit on
    the raw mark or a few tenths of a step away; bids <= mark <= asks holds on the raw numbers."""
    e = L.TOKEN_STEP[token][1] - 1                        # a tenth of the fee step
    px = lambda k: float(f"{k}e{e}")                      # noqa: E731 - the float that prints as that decimal
    k = rng.choice((14, 15, 16, 24, 25, 26, 34, 35, 36, 44, 45, 46, rng.randint(1, 99), rng.randint(1, 99), rng.randint(100, 4999), 20, 30))
    size = lambda: rng.choice((1000, 5000, 20000, float(rng.randint(100, 100000)), rng.randint(100, 100000)))  # noqa: E731
    asks, bids = [], []
    ticks = rng.random() < 0.3                            # every PRICE on the fee grid, the mark anywhere between them (PricesOnGrid): no gain possible
    ka = k + rng.choice((0, 0, 0, 1, 2, 5))
    kb = k - rng.choice((0, 0, 0, 1, 2, 5))
    if ticks:
        ka, kb = -(-ka // 10) * 10, kb // 10 * 10
    for _ in range(rng.choice((1, 1, 2, 3))):
        asks.append([px(ka), size()])
        ka += rng.choice((10, 20, 50)) if ticks else rng.choice((1, 3, 10, 25))
    for _ in range(rng.choice((1, 1, 2, 3))):
        if kb <= 0:
            break
        bids.append([px(kb), size()])
        kb -= rng.choice((10, 20, 50)) if ticks else rng.choice((1, 3, 10, 25))
    kind = rng.choice(("CALL", "PUT"))
    strike = rng.choice(range(1000, 3001, 50))
    return {"name": f"{token}-D{idx}-{strike}-{'C' if kind == 'CALL' else 'P'}", "state": "open", "kind": kind, "strike": strike,
            "expiry": now + rng.choice((60, 600, 30000)), "mark": px(k), "underlying": round(rng.uniform(1200, 2600), 2),
            "delta": round(rng.uniform(-1, 1), 5), "gamma": round(rng.uniform(0, 0.01), 5), "asks": asks, "bids": bids, "tiny": "ticks" if ticks else "free"}


def gen_op(rng, spec, held, wallet, cash):
    r = rng.random()
    token = spec["token"]
    if r < 0.62 and spec["open"]:
        tiny = [i for i in spec["instrs"] if i.get("tiny")]
        if tiny and rng.random() < 0.6:
            # market orders into the deep instrument: sizes of the book, the holding, round lots
            ins = rng.choice(tiny)
            side = rng.choice(("buy", "sell"))
            levels = L.norm_levels(ins["asks"] if side == "buy" else ins["bids"], side)
            q = rng.random()
            if side == "sell" and ins["name"] in held and q < 0.5:
                amount, acls = rng.choice(((held[ins["name"]], "held-exact"), (held[ins["name"]] + 1, "held+1"))) if q < 0.3 else \
                    (max(Decimal(1), (held[ins["name"]] * Decimal(rng.randint(1, 99)) / 100).quantize(Decimal(1))), "held-part")
            elif q < 0.8:
                amount, acls = rng.choice((Decimal(1000), Decimal(100), 1, 20, Decimal(rng.randint(1, 5000)))), "lot"
            else:
                amount, acls = L.gen_amount(rng, levels, token)
            return {"type": side, "name": ins["name"], "amount": amount}, f"market~tiny-{ins['tiny']}:{acls}"
        op, tag = L.gen_trade(rng, spec["instrs"], token, positions=held)
        if any(i.get("tiny") and i["name"] == op.get("name") for i in spec["instrs"]):
            tag = tag.replace(":", "~tiny:", 1)
        return op, tag
    kind = "deposit" if rng.random() < 0.5 else "withdraw"
    base = wallet if kind == "deposit" else cash
    q = rng.random()
    if q < 0.2:
        a, cls = base, "all"
    elif q < 0.3:
        a, cls = base * Decimal(rng.choice(("1.000001", "0.999999", "1.00001", "0.99999"))), "all+-dust"
    elif q < 0.4:
        a, cls = base * 10 + 1, "oversized"
    elif q < 0.5:
        a, cls = Decimal(0), "zero"
    elif q < 0.62:
        a, cls = -Decimal(rng.randint(1, 5000)) / 1000, "negative"
    elif q < 0.7:
        a, cls = rng.uniform(0.001, 3.0), "float"
    else:
        a, cls = (base * Decimal(rng.randint(1, 99)) / 100), "part"
    return {"type": kind, "amount": a}, cls


def gen_spec(rng):
    token = "ETH" if rng.random() < 0.8 else "BTC"
    is_open = rng.random() < 0.8
    now = 60 * rng.randint(1, 200) + (0 if is_open else rng.randint(1, 59))
    instrs = L.gen_book(rng, token, now, crossed=False, rough=0.25, tie=0.35)
    if rng.random() < 0.15:
        instrs.append(gen_tiny_instr(rng, len(instrs) + 1, token, now))
    cash = Decimal(rng.choice(("1000", "1000", "50", "1", "0.01", "0")))
    wallet = Decimal(rng.choice(("5", "0.75", "120", "0")))
    positions, held = [], {}
    for i in instrs:
        if rng.random() < (0.85 if ("tie" in i or "tiny" in i) else 0.6):
            a = Decimal(rng.randint(1, 300)) if token == "ETH" else Decimal(rng.randint(1, 3000)) / 10
            if "tiny" in i:
                a = Decimal(rng.choice((1000, 5000, rng.randint(100, 20000))))
            positions.append({"name": i["name"], "expiry": i["expiry"], "strike": i["strike"], "kind": i["kind"], "amount": str(a),
                              "avgBuy": "0.03", "buyAmt": str(a), "avgSell": "0", "sellAmt": "0"})
            held[i["name"]] = a
    spec = {"instrs": instrs, "now": now, "token": token, "wallet": str(wallet), "cash": str(cash), "positions": positions, "open": is_open, "ops": []}
    for _ in range(rng.randint(1, 10)):
        op, tag = gen_op(rng, spec, held, wallet, cash)
        spec["ops"].append((op, tag))
    return spec


def run_sequence(ctx: Ctx, spec, reqs):
    rig = L.Rig(spec["instrs"], now=spec["now"] - spec["now"] % 60, token=spec["token"], wallet=Decimal(spec["wallet"]), cash=Decimal(spec["cash"]),
                positions=spec["positions"])
    price = Decimal(str(spec["instrs"][0]["underlying"])) if spec["instrs"] else Decimal(1600)
    rig.market.get_market_balance()          # the hour's valuation is cached, as the bar loop does at the end of every bar
    if not spec["open"]:
        # a later minute of the same hour: same book, market closed for trading
        from demeter.deribit import DeribitMarketStatus
        data = rig.market.market_status.data
        rig.market.set_market_status(DeribitMarketStatus(timestamp=L.ts_of(spec["now"]), data=data), price=L.market_prices(rig.market))
        rig.market.is_open = False
    rep = {"spec": spec}
    bar = "open" if spec["open"] else "closed"
    for idx, (op, tag) in enumerate(spec["ops"]):
        S = L.dump_state(rig)
        nv0 = account_value(rig, price)
        S = L.dump_state(rig)                 # get_account_status refreshed the cache
        wallet0 = sum((w[1] for w in S["wallet"]), Fraction(0))
        n0 = len(rig.actions)
        out, res = L.apply_op(rig, op)
        S2 = L.dump_state(rig)
        acts = [L.dump_action(a) for a in rig.actions[n0:]]
        nv1 = account_value(rig, price)
        srep = dict(rep, step=idx)
        t = op["type"]
        ctx.case(f"deribit:{t}:{tag}:{out}:{bar}", {"op": L.canon(L.op_json(op)), "outcome": out, "bar": bar} if t in ("deposit", "withdraw") else None)
        dust = DUST * abs(wallet0) if t == "deposit" else Fraction(0)
        if nv1 > nv0 + dust + TOL * max(abs(nv0), 1):
            cause = "closed-bar-stale-cache" if (bar == "closed" and t in ("deposit", "withdraw")) else out
            why = ""
            # D-8: the one explained cause - the valuation rounds an off-grid mark past the price of the trade.  Anything else keeps the generic key.
            expl = offgrid_gain(t, op, res, S["book"], spec["token"], nv1 - nv0, 4 * TOL * max(abs(nv0), abs(nv1), 1)) if out == "ok" else None
            if expl:
                cause, why = ("offgrid-mark-rounded-up" if t == "buy" else "offgrid-mark-rounded-down"), f" ({expl})"
            ctx.violate(f"deribit.{t}.value-created.{cause}",
                        f"{t}({L.canon(L.op_json(op))}) [{out}] on a {bar} bar raised the account value {L.fmt(nv0)} -> {L.fmt(nv1)} {spec['token']}{why}",
                        srep)
        # nothing becomes negative (a state that already was negative is reported where it arose)
        if S2["cash"] < 0 <= S["cash"]:
            ctx.violate(f"deribit.{t}.cash-negative", f"{t}({L.canon(L.op_json(op))}) [{out}] left market cash {L.fmt(S2['cash'])}", srep)
        w0 = dict((w[0], w[1]) for w in S["wallet"])
        for w in S2["wallet"]:
            if w[1] < 0 <= w0.get(w[0], 0) and not S2["allowNeg"]:
                ctx.violate(f"deribit.{t}.wallet-negative", f"{t}({L.canon(L.op_json(op))}) [{out}] left wallet {w[0]} = {L.fmt(w[1])}", srep)
        p0 = {p["key"]: p["amount"] for p in S["positions"]}
        for p in S2["positions"]:
            if p["amount"] <= 0 < p0.get(p["key"], 1):
                ctx.violate(f"deribit.{t}.position-nonpositive", f"{p['key']} amount {L.fmt(p['amount'])}", srep)
        if S2["book"] != S["book"]:
            for i in S2["book"]:
                for l in i["asks"] + i["bids"]:
                    if l[1] < 0:
                        ctx.violate(f"deribit.{t}.book-size-negative", f"{i['name']} level {L.fmt(l[0])} size {L.fmt(l[1])}", srep)
        # no over-redemption
        if t == "sell" and out == "ok":
            sold = sum((f[1] for f in res["fills"]), Fraction(0))
            heldb = {p["key"]: p["amount"] for p in S["positions"]}.get(op["name"], Fraction(0))
            if sold > heldb:
                ctx.violate("deribit.sell.over-redemption", f"sold {L.fmt(sold)} of {op['name']} while holding {L.fmt(heldb)}", srep)
        if t == "withdraw" and out == "ok" and L.F(L.param_decimal(op["amount"])) > S["cash"]:
            ctx.violate("deribit.withdraw.over-redemption", f"withdrew {op['amount']} from cash {L.fmt(S['cash'])}", srep)
        reqs.append((f"deribit:{t}:{tag}", L.step_request(S, op, spec["token"]), out, res, S2, acts, srep))


def directed():
    ins = [{"name": "ETH-22SEP23-1650-C", "state": "open", "kind": "CALL", "strike": 1650, "expiry": 30000, "mark": 0.0287, "underlying": 1651.94,
            "delta": 0.52071, "gamma": 0.00342, "asks": [[0.029, 605], [0.0295, 197]], "bids": [[0.028, 51], [0.0275, 585]]}]
    mk = lambda now, open_, ops: {"instrs": ins, "now": now, "token": "ETH", "wallet": "1", "cash": "1", "positions": [], "open": open_,  # noqa: E731
                                   "ops": [(o, "directed") for o in ops]}
    tie = [dict(ins[0], mark=0.03125, asks=[[0.05, 3], [0.0625, 5], [0.07, 9]], bids=[[0.03, 3], [0.015625, 5], [0.01, 2]])]
    pos = [{"name": ins[0]["name"], "expiry": 30000, "strike": 1650, "kind": "CALL", "amount": "10", "avgBuy": "0.03", "buyAmt": "10", "avgSell": "0",
            "sellAmt": "0"}]
    n = ins[0]["name"]
    mkt = lambda ops: {"instrs": tie, "now": 360, "token": "ETH", "wallet": "1", "cash": "5", "positions": pos, "open": True,  # noqa: E731
                       "ops": [(o, "directed-cap-tie") for o in ops]}
    return [
        # 2 x 0.03125 = 0.0625 and 0.03125 / 2 = 0.015625 exactly: one level of each side sits on the cap
        mkt([{"type": "buy", "name": n, "amount": 6, "mult": 2}, {"type": "sell", "name": n, "amount": 6, "mult": 2}]),
        mkt([{"type": "sell", "name": n, "amount": 7, "mult": Decimal("2")}, {"type": "buy", "name": n, "amount": 4, "mult": 2.0}]),
        mk(360, True, [{"type": "deposit", "amount": -5}]),
        mk(360, True, [{"type": "withdraw", "amount": -5}]),
        mk(395, False, [{"type": "withdraw", "amount": Decimal("0.5")}]),
        mk(395, False, [{"type": "deposit", "amount": Decimal("0.5")}, {"type": "withdraw", "amount": Decimal("0.5")}]),
        # D-8 (Lean: C03_deribit_offgrid_mark_buy_raises_value / _sell_raises_value): raw book bid <= mark <= ask with the mark off the 1e-6 grid
        dict(mk(360, True, [{"type": "buy", "name": n, "amount": 1000}, {"type": "sell", "name": n, "amount": 1000}]), wallet="0", cash="105",
             instrs=[dict(ins[0], mark=0.0000016, asks=[[0.0000016, 5000]], bids=[[0.000001, 50]])]),
        dict(mk(360, True, [{"type": "sell", "name": n, "amount": 1000}, {"type": "buy", "name": n, "amount": 10}]), wallet="0", cash="105",
             instrs=[dict(ins[0], mark=0.0000014, asks=[[0.000002, 50]], bids=[[0.0000014, 5000]])], positions=[dict(pos[0], amount="1000", buyAmt="1000")]),
        # the same books with the mark ON the grid (0.000002 / 0.000001): nothing may be gained
        dict(mk(360, True, [{"type": "buy", "name": n, "amount": 1000}, {"type": "sell", "name": n, "amount": 1000}]), wallet="0", cash="105",
             instrs=[dict(ins[0], mark=0.000002, asks=[[0.000002, 5000]], bids=[[0.000002, 5000]])]),
    ]


def run(ctx: Ctx):
    reqs = []
    for spec in directed():
        run_sequence(ctx, spec, reqs)
    n = ctx.scale(250, 8000)
    for _ in range(n):
        run_sequence(ctx, gen_spec(ctx.rng), reqs)
    if ctx.driver_ok and reqs:
        answers = L.model_answers([r[1] for r in reqs])
        for (tag, req, out, res, S2, acts, rep), ans in zip(reqs, answers):
            L.compare_step(ctx, tag, None, None, out, res, S2, acts, ans, rep)


def restore(spec):
    spec = copy.deepcopy(spec)
    for i in spec["instrs"]:
        for k in ("asks", "bids"):
            i[k] = [[float(p), float(s) if isinstance(s, str) else s] for p, s in i[k]]
    ops = []
    for o, t in spec["ops"]:
        o = dict(o)
        for k in ("amount", "priceTok", "priceUsd", "mult"):
            if isinstance(o.get(k), str):
                o[k] = Decimal(o[k])
        ops.append((o, t))
    spec["ops"] = ops
    return spec


def replay(ctx: Ctx, case) -> bool:
    sub = Ctx(ctx.prop, ctx.tier, ctx.seed, False)
    run_sequence(sub, restore(case["spec"]), [])
    for v in sub.violations:
        print("  ", v["key"], v["what"])
    return not sub.violations
