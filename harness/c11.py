"""C11 — Aave borrow / withdraw / change_collateral limits, risk figures and the max helpers, on in-memory AaveV3Markets.

Oracle: exact-Fraction Aave v3 definitions evaluated on the implementation's observed raw state before/after one call
(accept/reject frontier with margin, HF >= 1 afterwards, helper amounts accepted / bounded / beyond-limit rejected, figures).
Correspondence: the same call on the dumped state through the Lean model (driver_aaverisk, NumCtx.py): outcome class and
cause, post-state and amounts bit-exact."""
from __future__ import annotations

from decimal import Decimal as D
from fractions import Fraction as F

from common import Ctx, driver_json
import aaverisk_lib as L
from aaverisk_lib import Case, Exact, close, TOL

PROPERTY = "C11"
LEAN_MODULES = ["Proofs.C11", "Proofs.C11.Max", "Proofs.C11.Invariant", "Proofs.C11.Refine", "Proofs.C11.RefineWithdraw", "Proofs.C11.RefineInvariant", "Proofs.C12.Admitted", "Proofs.C11.AllOps", "Proofs.C11.RefineAllOps"]
DRIVERS = ["driver_aaverisk"]
RULE = ("portfolios over the uppercase symbols of the four risk-parameter CSVs (1-3 collateral supplies, 0-2 non-collateral supplies, 0-3 debts, "
        "indices 1..3, prices log-uniform over 11 decades (1e-6 .. 1e5)) in health classes no-debt / healthy / HF = 1 / HF < 1; one call per case: borrow, withdraw, "
        "change_collateral, get_max_borrow_amount (+ borrow of it, borrow(None), borrow beyond the limit), get_max_withdraw_amount (+ withdraw of it, "
        "beyond it); plus SEQUENCES of 4-9 calls on one market inside one bar (borrow - mostly the same token again and again -, withdraw, change_collateral, "
        "supply, repay with cash / collateral, figures read in between so that the next call meets warm caches), every amount aimed at the frontier of the "
        "CURRENT state x {0.3 .. 1-2e-9, 1+2e-9 .. 1.5}; amounts at the accept/reject frontier x {1-1e-3, 1-1e-9, 1, 1+1e-9, 1+1e-3}, whole balance, zero, negative, oversized; boundary "
        "stream with exactly representable ties; bucket = (op, token role, health class, amount class, outcome/cause)")
TRUSTED = ["theorems are for the exact rational semantics; the 35-digit Decimal rounding is reproduced bit-exactly by the driver; where rounding decides "
           "an outcome at the exact frontier (max-withdraw) it is a recorded finding, not hidden",
           "cache coherence of the market's DictCaches is C13's subject; single-call cases start from freshly reset caches, sequence cases carry the caches over",
           "the state a REJECTED call leaves behind is C04's subject (only outcome and cause are compared here)",
           "the model's domain: every token of the portfolio / request has a row in the bar's market status, price series and risk table"]
ASSUMPTIONS = ["RiskParamsSane: LTV <= LT for every token, collateral-enabled => LT > 0 (checked on the four CSVs on every run)",
               "prices, indices > 0, scaled balances >= 0, unique keys (WF)"]

MARGIN = F(1, 10 ** 9)
MINTV = F(1e-18 - 1e-27)
MSG = [("invalid amount", "invalidAmount"), ("borrow is not enabled", "borrowDisabled"), ("collateral balance is zero", "noCollateral"),
       ("ltv validation failed", "ltvZero"), ("collateral cannot cover new borrow", "notCovered"),
       ("not enough available user balance", "overBalance"), ("Can not supplied as collateral", "cannotCollateral")]


# ------------------------------------------------------------------------------------------------------------ generator
def dec(fr: F, digits=30) -> D:
    d = D(fr.numerator) / D(fr.denominator)
    return D(format(d, f".{digits}e")).normalize() if d != 0 else D(0)


def gen_portfolio(rng, exact, special=False):
    path = rng.choice(L.rp_files())
    rp = L.load_rp(path)
    names = L.usable_tokens(path)
    collable = [n for n in names if rp.loc[n].usageAsCollateralEnabled]
    colls = rng.sample(collable, min(rng.choice([1, 1, 2, 3]), len(collable)))
    rp_over = {}
    mix = rng.random()
    if not special and mix < 0.22:
        # a collateral that adds NO borrowing power next to normal ones: LTV 0 with a non-zero liquidation threshold (frozen / isolated
        # reserves), or the collateral flag on a token the table does not enable (supply(collateral=False) + change_collateral(True)
        # gets there: only supply() looks at usageAsCollateralEnabled). It counts in the denominator of the weighted max-LTV.
        if mix < 0.13 and len(colls) >= 1:
            z = rng.choice(colls) if len(colls) >= 2 else None
            if z is None:
                extra_c = [n for n in collable if n not in colls]
                if extra_c:
                    z = rng.choice(extra_c)
                    colls.insert(rng.randint(0, len(colls)), z)
            if z is not None:
                rp_over[z] = {"baseLTVasCollateral": "0"}
        else:
            off = [n for n in names if not rp.loc[n].usageAsCollateralEnabled and n not in colls]
            if off:
                colls.insert(rng.randint(0, len(colls)), rng.choice(off))
    noncoll = [n for n in rng.sample(names, rng.choice([0, 0, 1, 2])) if n not in colls]
    debts = rng.sample(names, rng.choice([0, 1, 1, 2, 3]))
    other = rng.sample(names, 1)           # a token for borrow / unknown-key requests
    toks = {}
    for n in dict.fromkeys(colls + noncoll + debts + other):
        if exact:
            toks[n] = {"li": rng.choice(["1", "1.5", "2", "1.25"]), "bi": rng.choice(["1", "2", "2.5"]), "p": rng.choice(["1", "0.5", "2", "1000", "1600", "0.25"])}
        else:
            toks[n] = {"li": str(D(1) + D(rng.randint(0, 2 * 10 ** 9)) / D(10 ** 9)), "bi": str(D(1) + D(rng.randint(0, 2 * 10 ** 27)) / D(10 ** 27)),
                       "p": str(L.rnd_dec(rng, -6, 5, rng.choice([1, 3, 8])))}
    supplies = []
    for n in colls:
        val = D(rng.choice([1000, 2000, 33000, 5])) * D(10000) if exact else L.rnd_dec(rng, 0, 7, 6)
        base = val / D(toks[n]["p"]) / D(toks[n]["li"])
        supplies.append([n, str(base if exact else D(format(base, ".25e"))), True])
    for n in noncoll:
        supplies.insert(rng.randint(0, len(supplies)), [n, str(L.rnd_dec(rng, -2, 6, 5)), False])
    wlt = sum((F(D(b)) * F(D(toks[n]["li"])) * F(D(toks[n]["p"])) * F(rp.loc[n].reserveLiquidationThreshold) for n, b, c in supplies if c), F(0))
    wltv = sum((F(D(b)) * F(D(toks[n]["li"])) * F(D(toks[n]["p"])) * F(D(rp_over[n]["baseLTVasCollateral"]) if n in rp_over else rp.loc[n].baseLTVasCollateral)
                for n, b, c in supplies if c), F(0))
    health = rng.choice(["healthy", "healthy", "healthy", "ltv-edge", "at1", "below"]) if debts else "nodebt"
    dl = []
    if debts:
        if health == "healthy":
            total = wlt / F(rng.randint(105, 400), 100)
        elif health == "ltv-edge":      # debts between LTV limit and liquidation threshold
            total = wltv + (wlt - wltv) * F(rng.randint(0, 100), 100)
        elif health == "at1":
            total = wlt
        else:
            total = wlt / F(rng.randint(70, 99), 100)
        ws = [rng.randint(1, 9) for _ in debts]
        for n, w in zip(debts, ws):
            base = total * w / sum(ws) / F(D(toks[n]["p"])) / F(D(toks[n]["bi"]))
            bd = D(base.numerator) / D(base.denominator)
            dl.append([n, str(bd if exact else D(format(bd, ".28e")))])
    case = Case(path, toks, supplies, dl, {n: "3" for n in list(toks)[:2]}, rp_over)
    if rp_over and health != "nodebt":
        health += "+ltv0"
    if special:
        k = rng.choice(["nocoll", "nosupply", "ltv0", "lt0", "price0", "price0-debt"])
        health = k
        if k == "nocoll":
            case.supplies = [[n, b, False] for n, b, c in supplies]
        elif k == "nosupply":
            case.supplies = []
        elif k == "ltv0":
            for n in colls:
                case.rp_over[n] = {"baseLTVasCollateral": "0"}
        elif k == "lt0":
            case.rp_over[colls[0]] = {"reserveLiquidationThreshold": "0", "baseLTVasCollateral": "0"}
        elif k == "price0":
            toks[rng.choice(colls)]["p"] = "0"
        elif k == "price0-debt":
            toks[rng.choice(list(toks))]["p"] = "0"
    return case, health, other[0]


def frontier_amounts(rng, front: F, whole: F | None):
    """(class, amount) around a frontier value"""
    k = rng.random()
    if k < 0.08:
        return "zero", D(0)
    if k < 0.14:
        return "negative", -dec(abs(front) + 1, 12)
    if k < 0.2:
        return "oversized", dec(abs(front) * 1000 + 10 ** 6, 12)
    if k < 0.28 and whole is not None:
        return "whole", dec(whole, 35)
    if k < 0.34:
        return "tiny", dec(abs(front) / 10 ** 12 + F(1, 10 ** 15), 6)
    f, name = rng.choice([(1 - F(1, 1000), "f-1e-3"), (1 - MARGIN * 2, "f-2e-9"), (F(1), "f"), (1 + MARGIN * 2, "f+2e-9"), (1 + F(1, 1000), "f+1e-3"),
                          (F(1, 2), "f/2"), (F(2), "2f")])
    return name, dec(front * f, 33)


# --------------------------------------------------------------------------------------------------------------- oracle
def exc_info(e):
    if isinstance(e, ArithmeticError):
        return "ArithmeticError", "arith"
    if isinstance(e, KeyError):
        return "KeyError", "notSupplied"
    if isinstance(e, AssertionError):
        m = str(e)
        for frag, c in MSG:
            if frag in m:
                return "AssertionError", c
        if "health factor lower" in m:
            return "AssertionError", "hf"
        return "AssertionError", "?" + m[:40]
    return type(e).__name__, "?"


def call(case: Case, fn):
    """fresh market; returns observation of one call"""
    m, b, toks, acts = L.build(case)
    rows = {n: L.row_of(m, n) for n in case.toks}
    obs = {"S0": L.raw(m), "W0": L.wallet_of(b), "rows": rows, "state": L.dump(m), "exc": None, "cause": None, "ret": None,
           "fig0": (L.xfrac(m.health_factor), L.xfrac(m.max_ltv), L.xfrac(m.liquidation_threshold), L.xfrac(m.ltv))}
    try:
        obs["ret"] = fn(m, toks)
    except Exception as e:          # noqa: BLE001
        obs["exc"], obs["cause"] = exc_info(e)
    obs["acts"] = acts
    obs["S1"] = L.raw(m)
    obs["W1"] = L.wallet_of(b)
    try:
        obs["hf1"] = L.xfrac(m.health_factor)
    except Exception:               # noqa: BLE001
        obs["hf1"] = "?"
    return obs


def hf_ok(hf, slack=F(0)):
    return hf is None or hf >= 1 - TOL - slack


def o_figures(out, obs):
    E = Exact(obs["S0"], obs["rows"])
    hf, ml, lt, ltv = obs["fig0"]
    ex_ltv = None if E.total_supply == 0 else E.total_debt / E.total_supply
    for name, got, want in (("health_factor", hf, E.hf), ("max_ltv", ml, E.max_ltv), ("liquidation_threshold", lt, E.liq_threshold), ("ltv", ltv, ex_ltv)):
        if not close(got, want):
            out.append((f"figure.{name}", f"{name} = {got} but the Aave v3 definition gives {want}"))


def o_borrow(out, obs, tok, amount):
    rows = obs["rows"]
    E0, E1 = Exact(obs["S0"], rows), Exact(obs["S1"], rows)
    accepted = obs["exc"] is None
    if amount is None:
        return
    a = F(amount)
    v = a * F(rows[tok]["p"])
    B, Wltv, C = E0.total_debt, E0.weighted_ltv, E0.total_collateral
    if accepted:
        if not (B + v <= Wltv * (1 + TOL)):
            out.append(("borrow.accepted-uncovered", f"borrow of {amount} {tok} accepted: debt {float(B + v)} > collateral x maxLTV {float(Wltv)}"))
        if not rows[tok]["cb"]:
            out.append(("borrow.accepted-disabled", f"borrow of {tok} accepted although borrowing is disabled"))
        if not a > 0:
            out.append(("borrow.accepted-nonpositive", f"borrow of {amount} accepted"))
        if E1.total_debt > 0 and not hf_ok(E1.hf):
            out.append(("borrow.hf-after", f"health factor {float(E1.hf)} < 1 after an accepted borrow"))
        if not close(E1.deb_amount(tok) - E0.deb_amount(tok), a, abs_tol=TOL * E1.deb_amount(tok)):
            out.append(("borrow.debt-change", f"debt of {tok} changed by {float(E1.deb_amount(tok) - E0.deb_amount(tok))} for a borrow of {amount}"))
        if len(obs["acts"]) != 1 or D(obs["acts"][0].amount) != amount or obs["W1"].get(tok) != D(obs["W0"].get(tok, 0)) + amount:
            out.append(("borrow.wallet", "wallet not credited with the borrowed amount / no matching BorrowAction"))
    else:
        if obs["S0"] != obs["S1"] or obs["W0"] != obs["W1"]:
            pass    # C04's subject
        with_margin = (a > 0 and rows[tok]["cb"] and C > 0 and Wltv > 0 and (B + v) * (1 + MARGIN) <= Wltv
                       and (E0.hf is None or E0.hf >= 1 + MARGIN) and obs["exc"] == "AssertionError")
        if with_margin:
            out.append(("borrow.rejected-with-margin", f"borrow of {amount} {tok} rejected ({obs['cause']}) although debt {float(B + v)} x (1+1e-9) <= {float(Wltv)} "
                        f"and HF {E0.hf and float(E0.hf)}"))
    if (B + v) > Wltv * (1 + MARGIN) and accepted:
        out.append(("borrow.beyond-accepted", f"borrow beyond the limit accepted: {float(B + v)} > {float(Wltv)}"))


def after_withdraw(E0: Exact, rows, tok, a: F):
    """exact figures if `a` of tok left the supply"""
    S = {"supplies": [[n, (b - a / F(rows[n]["li"])) if n == tok else b, c] for n, b, c in E0.sup], "debts": list(E0.deb)}
    return Exact(S, rows)


def o_withdraw(out, obs, tok, amount):
    rows = obs["rows"]
    E0, E1 = Exact(obs["S0"], rows), Exact(obs["S1"], rows)
    accepted = obs["exc"] is None
    sup = [s for s in E0.sup if s[0] == tok]
    if not sup:
        if accepted:
            out.append(("withdraw.accepted-unsupplied", f"withdraw of {tok} accepted although nothing is supplied"))
        return
    coll = sup[0][2]
    bal = E0.sup_amount(tok)
    a = bal if amount is None else F(amount)
    EA = after_withdraw(E0, rows, tok, a)
    dust = MINTV * F(rows[tok]["li"]) * F(rows[tok]["p"]) * F(rows[tok]["lt"])
    if accepted:
        if coll and E1.total_debt > 0 and not hf_ok(E1.hf, dust / E1.total_debt):
            out.append(("withdraw.hf-after", f"health factor {float(E1.hf)} < 1 after an accepted collateral withdrawal of {amount} {tok}"))
        if not (0 < a <= bal * (1 + TOL)):
            out.append(("withdraw.accepted-bad-amount", f"withdraw of {amount} accepted with a balance of {float(bal)}"))
        if not close(bal - E1.sup_amount(tok), a, abs_tol=TOL * bal + MINTV * F(rows[tok]["li"])):
            out.append(("withdraw.supply-change", f"supply of {tok} changed by {float(bal - E1.sup_amount(tok))} for a withdrawal of {float(a)}"))
        if len(obs["acts"]) != 1 or not close(F(D(obs["acts"][0].amount)), a) or obs["W1"].get(tok) != D(obs["W0"].get(tok, 0)) + D(obs["acts"][0].amount):
            out.append(("withdraw.wallet", "wallet not credited with the withdrawn amount / no matching WithdrawAction"))
    else:
        with_margin = (0 < a <= bal * (1 - MARGIN) and (not coll or EA.total_debt == 0 or EA.hf >= 1 + MARGIN) and obs["exc"] == "AssertionError")
        if with_margin:
            out.append(("withdraw.rejected-with-margin", f"withdraw of {float(a)} {tok} rejected ({obs['cause']}) although HF afterwards would be "
                        f"{EA.hf and float(EA.hf)} and the balance is {float(bal)}"))
    if accepted and (a > bal * (1 + MARGIN) or (coll and EA.total_debt > 0 and EA.hf < 1 - MARGIN)):
        out.append(("withdraw.beyond-accepted", f"withdraw beyond the limit accepted: {float(a)} of {float(bal)} {tok}, HF afterwards {EA.hf and float(EA.hf)}"))


def o_change(out, obs, tok, flag):
    rows = obs["rows"]
    E0, E1 = Exact(obs["S0"], rows), Exact(obs["S1"], rows)
    accepted = obs["exc"] is None
    sup = [s for s in E0.sup if s[0] == tok]
    if not sup:
        if accepted:
            out.append(("change_collateral.accepted-unsupplied", f"change_collateral of {tok} accepted although nothing is supplied"))
        return
    EA = Exact({"supplies": [[n, b, flag if n == tok else c] for n, b, c in E0.sup], "debts": list(E0.deb)}, rows)
    if accepted:
        want = [[n, b, flag if n == tok else c] for n, b, c in obs["S0"]["supplies"]]
        if obs["S1"]["supplies"] != want or obs["S1"]["debts"] != obs["S0"]["debts"]:
            out.append(("change_collateral.state", "state after change_collateral is not 'only the flag changed'"))
        if (not flag) and sup[0][2] and E1.total_debt > 0 and not hf_ok(E1.hf):
            out.append(("change_collateral.hf-after", f"health factor {float(E1.hf)} < 1 after disabling {tok} as collateral"))
        if flag and (not sup[0][2]) and not rows[tok]["cc"]:
            out.append(("change_collateral.accepted-not-collateralisable",
                        f"change_collateral({tok}, True) accepted although usageAsCollateralEnabled is False (supply(..., collateral=True) refuses it)"))
    else:
        admitted_on = flag and (not sup[0][2]) and not rows[tok]["cc"]       # switching on a token the risk table does not admit: refused, as in supply()
        if admitted_on:
            if obs["exc"] != "AssertionError":
                out.append(("change_collateral.not-collateralisable-wrong-exception", f"change_collateral({tok}, True) raised {obs['exc']}"))
        elif flag or not sup[0][2] or EA.total_debt == 0 or EA.hf >= 1 + MARGIN:
            out.append(("change_collateral.rejected-with-margin", f"change_collateral({tok}, {flag}) rejected ({obs['cause']}), HF afterwards would be {EA.hf and float(EA.hf)}"))
    if accepted and (not flag) and sup[0][2] and EA.total_debt > 0 and EA.hf < 1 - MARGIN:
        out.append(("change_collateral.beyond-accepted", f"disabling {tok} accepted although HF afterwards is {float(EA.hf)}"))


# -------------------------------------------------------------------------------------------------------------- one case
def dust_case(rng):
    """a collateral withdrawal whose remainder is below MIN_TOKEN_VALUE and gets snapped to 0 after the health-factor check"""
    import os
    eps = D(rng.choice(["5E-19", "1E-19", "9.99999998E-19", "9.99999999E-19", "1E-18", "2E-18"]))
    A = D(rng.randint(1, 50))
    debt = eps * 1000 * D("0.825") * D(rng.choice(["1", "0.5", "1.0000001"]))
    case = Case(os.path.join(L.RP_DIR, "demo.csv"), {"WETH": {"li": "1", "bi": "1", "p": "1000"}, "USDC": {"li": "1", "bi": "1", "p": "1"}},
                [["WETH", str(A + eps), True]], [["USDC", str(debt)]], {"WETH": "3"}, {})
    return case, {"op": "withdraw", "tok": "WETH", "amount": str(A)}, "dust", "coll", "dust:" + str(eps)


def run_case(ctx: Ctx, rng, stream, reqs, forced=None):
    if forced is None and stream == "special" and rng.random() < 0.25:
        forced = dust_case(rng)
    if forced is None:
        case, health, other = gen_portfolio(rng, stream == "boundary", stream == "special")
        rp = L.load_rp(case.rp_path)
        E = Exact({"supplies": [[n, D(b), c] for n, b, c in case.supplies], "debts": [[n, D(b)] for n, b in case.debts]},
                  {n: {"li": D(t["li"]), "bi": D(t["bi"]), "p": D(t["p"]),
                       "lt": D(case.rp_over.get(n, {}).get("reserveLiquidationThreshold", rp.loc[n].reserveLiquidationThreshold)),
                       "ltv": D(case.rp_over.get(n, {}).get("baseLTVasCollateral", rp.loc[n].baseLTVasCollateral))} for n, t in case.toks.items()})
        op = rng.choice(["borrow", "borrow", "withdraw", "withdraw", "change", "max_borrow", "max_withdraw", "max_withdraw"])
        sup_names = [s[0] for s in case.supplies]
        if op in ("borrow", "max_borrow"):
            tok = rng.choice(list(case.toks))
            role = "debt" if tok in [d[0] for d in case.debts] else "new"
            front = (E.weighted_ltv - E.total_debt) / F(D(case.toks[tok]["p"])) if D(case.toks[tok]["p"]) != 0 else F(1)
            cls, amount = frontier_amounts(rng, front if front > 0 else F(1), None)
            if op == "borrow" and rng.random() < 0.08:
                cls, amount = "none", None
            spec = {"op": op, "tok": tok, "amount": None if amount is None else str(amount)}
        elif op in ("withdraw", "max_withdraw"):
            tok = rng.choice(sup_names + ([other] if rng.random() < 0.1 or not sup_names else []))
            s = [x for x in case.supplies if x[0] == tok]
            role = "unsupplied" if not s else ("coll" if s[0][2] else "noncoll")
            bal = E.sup_amount(tok) if s else F(1)
            front = bal
            if s and s[0][2] and E.total_debt > 0 and D(case.toks[tok]["p"]) != 0 and rp.loc[tok].reserveLiquidationThreshold != 0:
                others = E.weighted_lt - bal * F(D(case.toks[tok]["p"])) * F(rp.loc[tok].reserveLiquidationThreshold)
                kept = (E.total_debt - others) / F(rp.loc[tok].reserveLiquidationThreshold) / F(D(case.toks[tok]["p"]))
                front = bal - max(kept, F(0))
            cls, amount = frontier_amounts(rng, front if front > 0 else bal, bal)
            if op == "withdraw" and rng.random() < 0.08:
                cls, amount = "none", None
            spec = {"op": op, "tok": tok, "amount": None if amount is None else str(amount)}
        else:
            tok = rng.choice(sup_names + ([other] if rng.random() < 0.1 or not sup_names else []))
            s = [x for x in case.supplies if x[0] == tok]
            role = "unsupplied" if not s else ("coll" if s[0][2] else "noncoll")
            flag = rng.random() < 0.35
            cls = "on" if flag else "off"
            names_all = L.usable_tokens(case.rp_path)
            off_toks = [n for n in names_all if not rp.loc[n].usageAsCollateralEnabled and n not in sup_names]
            if off_toks and rng.random() < 0.3:
                # a supply of a token the risk table does not admit as collateral (made with collateral=False), which the user tries to switch ON
                z = rng.choice(off_toks)
                if z not in case.toks:
                    case.toks[z] = {"li": "1.25", "bi": "1.5", "p": str(L.rnd_dec(rng, -2, 3, 3))}
                case.supplies.insert(rng.randint(0, len(case.supplies)), [z, str(L.rnd_dec(rng, -2, 6, 5)), False])
                tok, flag, role, cls = z, True, "noncoll-not-admitted", "on"
            spec = {"op": "change", "tok": tok, "flag": flag}
    else:
        case, spec, health, role, cls = forced
        op, tok = spec["op"], spec["tok"]
    rep = {"case": case.to_json(), "spec": spec, "health": health, "role": role, "cls": cls, "stream": stream}
    count_features(ctx, case)
    out = []
    amount = None if spec.get("amount") is None else D(spec["amount"])
    if op == "borrow":
        obs = call(case, lambda m, t: m.borrow(t[tok], amount))
        o_figures(out, obs)
        o_borrow(out, obs, tok, amount)
        reqs.append((rep, obs, {"fn": "borrow", "tok": tok, "row": obs["rows"][tok], "amount": amount}))
        outcome = obs["cause"] or "ok"
    elif op == "withdraw":
        obs = call(case, lambda m, t: _withdraw(m, t[tok], amount))
        o_withdraw(out, obs, tok, amount)
        reqs.append((rep, obs, {"fn": "withdraw", "tok": tok, "amount": amount}))
        outcome = obs["cause"] or "ok"
    elif op == "change":
        obs = call(case, lambda m, t: m.change_collateral(t[tok], spec["flag"]))
        o_change(out, obs, tok, spec["flag"])
        reqs.append((rep, obs, {"fn": "changeCollateral", "tok": tok, "flag": spec["flag"]}))
        outcome = obs["cause"] or "ok"
    elif op == "max_borrow":
        obs = call(case, lambda m, t: m.get_max_borrow_amount(t[tok]))
        reqs.append((rep, obs, {"fn": "maxBorrow", "row": obs["rows"][tok]}))
        outcome = "helper:" + (obs["cause"] or "ok")
        E0 = Exact(obs["S0"], obs["rows"])
        if obs["exc"] is None:
            mb = D(obs["ret"])
            want = (E0.weighted_ltv - E0.total_debt) * F(99, 100) / F(obs["rows"][tok]["p"])
            if not mb.is_finite():
                # a non-finite figure from the implementation is an observation to judge, never a reason for the harness to stop
                out.append(("max_borrow.value", f"get_max_borrow_amount = {mb} (not finite), definition gives {float(want)}"))
                mb = D(0)
            elif not close(F(mb), want, abs_tol=TOL * (E0.weighted_ltv + E0.total_debt) / F(obs["rows"][tok]["p"])):
                out.append(("max_borrow.value", f"get_max_borrow_amount = {mb}, definition gives {float(want)}"))
            if mb > 0 and obs["rows"][tok]["cb"]:
                o2 = call(case, lambda m, t: m.borrow(t[tok], mb))
                reqs.append((dict(rep, sub="borrow-max"), o2, {"fn": "borrow", "tok": tok, "row": o2["rows"][tok], "amount": mb}))
                if o2["exc"] is not None:
                    out.append(("max_borrow.rejected", f"borrow(get_max_borrow_amount = {mb} {tok}) rejected: {o2['cause']}"))
                o_borrow(out, o2, tok, mb)
                o3 = call(case, lambda m, t: m.borrow(t[tok], None))
                reqs.append((dict(rep, sub="borrow-none"), o3, {"fn": "borrow", "tok": tok, "row": o3["rows"][tok], "amount": None}))
                if o3["exc"] is not None:
                    out.append(("max_borrow.none-rejected", f"borrow({tok}, None) rejected: {o3['cause']}"))
                beyond = dec(F(mb) / F(99, 100) * (1 + MARGIN * 2), 33)
                o4 = call(case, lambda m, t: m.borrow(t[tok], beyond))
                reqs.append((dict(rep, sub="borrow-beyond"), o4, {"fn": "borrow", "tok": tok, "row": o4["rows"][tok], "amount": beyond}))
                # the helper's head-room can itself be at the scale of the 35-digit rounding of the totals (debts within 1e-28 of the limit):
                # then `limit x (1+2e-9)` is not beyond anything the arithmetic can see; as for max_withdraw, exact arithmetic must be decisive
                if o4["exc"] is None and E0.total_debt + F(beyond) * F(obs["rows"][tok]["p"]) > E0.weighted_ltv * (1 + F(1, 10 ** 25)):
                    out.append(("max_borrow.beyond-accepted", f"borrow of {beyond} {tok} (limit x (1+2e-9)) accepted"))
                outcome += ":" + (o2["cause"] or "ok") + ":" + (o4["cause"] or "ok")
    else:  # max_withdraw
        obs = call(case, lambda m, t: m.get_max_withdraw_amount(t[tok]))
        reqs.append((rep, obs, {"fn": "maxWithdraw", "tok": tok}))
        outcome = "helper:" + (obs["cause"] or "ok")
        E0 = Exact(obs["S0"], obs["rows"])
        if obs["exc"] is None:
            mw = D(obs["ret"])
            bal = E0.sup_amount(tok)
            if not mw.is_finite():
                out.append(("max_withdraw.exceeds-supply", f"get_max_withdraw_amount({tok}) = {mw} (not finite), supplied {float(bal)}"))
                mw = D(0)
            if F(mw) > bal * (1 + TOL):
                out.append(("max_withdraw.exceeds-supply", f"get_max_withdraw_amount({tok}) = {mw} exceeds the supplied {float(bal)}"))
            if mw > 0:
                o2 = call(case, lambda m, t: _withdraw(m, t[tok], mw))
                reqs.append((dict(rep, sub="withdraw-max"), o2, {"fn": "withdraw", "tok": tok, "amount": mw}))
                if o2["exc"] is not None:
                    EA = after_withdraw(E0, obs["rows"], tok, F(mw))
                    rounding = F(mw) <= bal * (1 + TOL) and EA.total_debt > 0 and abs(EA.hf - 1) < F(1, 10 ** 30)
                    key = "max_withdraw.rejected-by-rounding" if rounding else "max_withdraw.rejected"
                    out.append((key, f"withdraw(get_max_withdraw_amount = {mw} {tok}) rejected ({o2['cause']}); exact HF afterwards = 1 {'+' if EA.total_debt and EA.hf >= 1 else '-'} "
                                f"{float(abs(EA.hf - 1)) if EA.total_debt else 0:.3g}, balance {float(bal)}"))
                else:
                    o_withdraw(out, o2, tok, mw)
                beyond = dec(F(mw) * (1 + MARGIN * 2), 33)
                o4 = call(case, lambda m, t: _withdraw(m, t[tok], beyond))
                reqs.append((dict(rep, sub="withdraw-beyond"), o4, {"fn": "withdraw", "tok": tok, "amount": beyond}))
                EB = after_withdraw(E0, obs["rows"], tok, F(beyond))
                coll_ = [x for x in E0.sup if x[0] == tok][0][2]
                if o4["exc"] is None and (F(beyond) > bal * (1 + TOL) or (coll_ and EB.total_debt > 0 and EB.hf < 1 - F(1, 10 ** 25))):
                    out.append(("max_withdraw.beyond-accepted", f"withdraw of {beyond} {tok} (helper x (1+2e-9)) accepted"))
                outcome += ":" + (o2["cause"] or "ok") + ":" + (o4["cause"] or "ok")
    ctx.case(f"{stream}:{op}:{role}:{health}:{cls}:{outcome}", rep)
    for k, what in out:
        ctx.violate(k, what, rep)
    return out


# ------------------------------------------------------------------------------------------------- multi-call sequences
SEQ_F = [(F(3, 10), "0.3f"), (F(45, 100), "0.45f"), (F(6, 10), "0.6f"), (F(9, 10), "0.9f"), (1 - MARGIN * 2, "f-2e-9"), (1 + MARGIN * 2, "f+2e-9"),
         (1 + F(1, 1000), "f+1e-3"), (F(3, 2), "1.5f")]


def call_live(m, b, toks, acts, names, fn, warm):
    """one call on a LIVE market: positions, wallet and the five caches are whatever the previous calls of the sequence left"""
    rows = {n: L.row_of(m, n) for n in names}
    n0 = len(acts)
    obs = {"S0": L.raw(m), "W0": L.wallet_of(b), "rows": rows, "state": L.dump(m), "exc": None, "cause": None, "ret": None, "fig0": None}
    if warm:        # a strategy looking at its figures between two calls: fills the caches the next call will meet
        try:
            obs["fig0"] = (L.xfrac(m.health_factor), L.xfrac(m.max_ltv), L.xfrac(m.liquidation_threshold), L.xfrac(m.ltv))
            _ = m.borrows, m.supplies
        except Exception:           # noqa: BLE001
            obs["fig0"] = None
    try:
        obs["ret"] = fn(m, toks)
    except Exception as e:          # noqa: BLE001
        obs["exc"], obs["cause"] = exc_info(e)
    obs["acts"] = acts[n0:]
    obs["S1"] = L.raw(m)
    obs["W1"] = L.wallet_of(b)
    try:
        import copy
        c = copy.copy(m)            # HF from scratch (cold caches) so that the comparison with the model does not depend on a stale cache
        from demeter.aave._typing import DictCache
        for nm in ("_collaterals_amount_cache", "_supplies_amount_cache", "_supplies_cache", "_borrows_amount_cache", "_borrows_cache"):
            setattr(c, nm, DictCache())
        obs["hf1"] = L.xfrac(c.health_factor)
        obs["hf1_warm"] = L.xfrac(m.health_factor)
    except Exception:               # noqa: BLE001
        obs["hf1"] = obs["hf1_warm"] = "?"
    return obs


def seq_step(rng, case, m, focus):
    """the next call of a sequence, aimed at the accept/reject frontier of the CURRENT state"""
    rp = L.load_rp(case.rp_path)
    S = L.raw(m)
    rows = {n: L.row_of(m, n) for n in case.toks}
    E = Exact(S, rows)
    sup_names = [n for n, _, _ in S["supplies"]]
    deb_names = [n for n, _ in S["debts"]]
    k = rng.random()
    if 0.11 <= k < 0.55 or not sup_names:
        tok = focus if rng.random() < 0.75 else rng.choice(list(case.toks))
        pr = F(rows[tok]["p"])
        front = (E.weighted_ltv - E.total_debt) / pr if pr != 0 else F(1)
        f, cls = rng.choice(SEQ_F)
        return {"op": "borrow", "tok": tok, "amount": str(dec((front if front > 0 else F(1)) * f, 33)), "_f": f}, cls
    if k < 0.11:
        # a read-only helper in the middle of the sequence: whatever it looks at, it must leave every figure as it was
        if rng.random() < 0.65:
            return {"op": "max_withdraw", "tok": rng.choice(sup_names)}, "helper"
        return {"op": "max_borrow", "tok": focus if rng.random() < 0.6 else rng.choice(list(case.toks))}, "helper"
    if k < 0.68:
        tok = rng.choice(sup_names)
        s = [x for x in S["supplies"] if x[0] == tok][0]
        bal = E.sup_amount(tok)
        front = bal
        lt = F(rows[tok]["lt"])
        if s[2] and E.total_debt > 0 and rows[tok]["p"] != 0 and lt != 0:
            others = E.weighted_lt - bal * F(rows[tok]["p"]) * lt
            front = bal - max((E.total_debt - others) / lt / F(rows[tok]["p"]), F(0))
        f, cls = rng.choice(SEQ_F)
        return {"op": "withdraw", "tok": tok, "amount": str(dec((front if front > 0 else bal) * f, 33)), "_f": f}, cls
    if k < 0.78:
        tok = rng.choice(sup_names)
        cur = [x for x in S["supplies"] if x[0] == tok][0][2]
        return {"op": "change", "tok": tok, "flag": not cur}, "off" if cur else "on"
    if k < 0.89 and deb_names:
        tok = rng.choice(deb_names)
        f, cls = rng.choice([(F(1, 3), "third"), (F(1, 2), "half"), (F(1), "all"), (F(11, 10), "over")])
        wc = rng.random() < 0.4 and any(c for _, _, c in S["supplies"])
        ct = rng.choice([n for n, _, c in S["supplies"] if c]) if wc else None
        return {"op": "repay", "tok": tok, "amount": str(dec(E.deb_amount(tok) * f, 33)), "withColl": wc, "collTok": ct}, cls + (":coll" if wc else ":cash")
    tok = rng.choice(sup_names + list(case.toks))
    cur = [x for x in S["supplies"] if x[0] == tok]
    coll = cur[0][2] if cur else bool(rp.loc[tok].usageAsCollateralEnabled)
    return {"op": "supply", "tok": tok, "amount": str(L.rnd_dec(rng, -3, 3, 4)), "coll": coll}, "plain"


def o_monotone(out, obs, op):
    """supply and repay cannot lower the health factor; whatever was accepted, an account with debt that was healthy stays healthy"""
    rows = obs["rows"]
    E0, E1 = Exact(obs["S0"], rows), Exact(obs["S1"], rows)
    if obs["exc"] is not None:
        return
    if not all(rows[n]["p"] > 0 and rows[n]["li"] > 0 and rows[n]["bi"] > 0 for n in rows):
        return
    dust = MINTV * sum((F(rows[n]["li"]) * F(rows[n]["p"]) * F(rows[n]["lt"]) for n in rows), F(0))
    if op in ("supply", "repay") and E1.total_debt > 0:
        slack = TOL + dust / E1.total_debt
        if E0.hf is not None and E1.hf < E0.hf * (1 - slack) - slack:
            out.append((f"{op}.lowers-hf", f"health factor fell from {float(E0.hf)} to {float(E1.hf)} by an accepted {op}"))
    if E1.total_debt > 0 and (E0.hf is None or E0.hf >= 1) and not hf_ok(E1.hf, dust / E1.total_debt):
        out.append((f"{op}.hf-after", f"health factor {float(E1.hf)} < 1 after an accepted {op} on an account that was healthy ({E0.hf and float(E0.hf)})"))
    if op in ("max_withdraw", "max_borrow") and (obs["S0"] != obs["S1"] or obs["W0"] != obs["W1"] or obs["acts"]):
        out.append((f"{op}.changes-state", f"the read-only helper changed positions / wallet / log: {obs['S0']} -> {obs['S1']}"))
    if obs.get("hf1_warm") != obs.get("hf1"):
        out.append((f"{op}.hf-stale", f"health_factor read after the call ({obs.get('hf1_warm')}) differs from its value on cold caches ({obs.get('hf1')})"))


LOOKS = ("health_factor", "max_ltv", "liquidation_threshold", "ltv", "borrows_value", "supplies_value", "collateral_value", "borrows", "supplies",
         "total_borrows_value", "total_collateral_value")


def next_bar_toks(rng, cur, kind):
    """the next bar's token data: `quiet` = every price is what it was, the variable borrow index grows (0.3 .. 6 %), the liquidity index a
    little or not at all (interest accrues on the debt, nothing else happens: stable-coin accounts, quiet minutes); `moved` = prices move too"""
    nxt = {}
    for n, t in cur.items():
        bi = D(t["bi"]) * (1 + D(rng.randint(3000, 60000)) / 10 ** 6)
        li = D(t["li"]) * (1 + D(rng.choice([0, 0, rng.randint(0, 8000)])) / 10 ** 6)
        p = D(t["p"]) if kind != "moved" else (D(t["p"]) * D(rng.randint(93, 107)) / 100).normalize()
        nxt[n] = {"li": str(li), "bi": str(bi), "p": str(p)}
    return nxt


def bar_plan(rng):
    """the kinds of the steps of a multi-bar sequence: the figures are looked at on an early bar (the market's caches are warm), then one or
    more bars in which only the indices move, then calls aimed at the frontier as it is NOW (judged by the exact oracle at the new indices)"""
    plan = ["call"] * rng.choice([0, 0, 1]) + ["look"]
    for _ in range(rng.choice([1, 1, 2])):
        for _ in range(rng.choice([1, 1, 2, 3])):
            plan.append(rng.choice(["quiet", "quiet", "quiet", "quiet", "refresh-same", "refresh-repriced", "moved"]))
            if rng.random() < 0.3:
                plan.append("look")
        plan += ["edge"] * rng.choice([1, 1, 2])
    return plan


def count_features(ctx: Ctx, case):
    sup_n, deb_n = {s[0] for s in case.supplies}, {d[0] for d in case.debts}
    if sup_n & deb_n:
        ctx.count("feature:same-token-supplied-and-borrowed")
    if any(s[2] and D(case.rp_over.get(s[0], {}).get("baseLTVasCollateral", "1")) == 0 for s in case.supplies):
        ctx.count("feature:zero-ltv-collateral-held")
    if any(L.TOKEN_DECIMALS.get(n.upper()) == 6 for n in sup_n | deb_n):
        ctx.count("feature:six-decimal-token-held")


def run_sequence(ctx: Ctx, rng, reqs, forced=None, bars=False):
    """several calls on ONE market: state and caches carried over, limits checked at the frontier after each; `bars`: the sequence runs over
    several bars (see `bar_plan`), otherwise inside one bar"""
    from datetime import timedelta
    plan = None
    if forced is None:
        case, health, other = gen_portfolio(rng, rng.random() < 0.3, False)
        if health.split("+")[0] not in ("healthy", "nodebt", "ltv-edge") or (bars and health.split("+")[0] == "nodebt" and rng.random() < 0.8):
            if bars and case.supplies:
                # a healthy account with debt: the limits of a later bar depend on how the debt has grown
                rp0 = L.load_rp(case.rp_path)
                dn = rng.choice([n for n in case.toks])
                wl = sum((F(D(b_)) * F(D(case.toks[n]["li"])) * F(D(case.toks[n]["p"])) *
                          F(D(case.rp_over.get(n, {}).get("baseLTVasCollateral", rp0.loc[n].baseLTVasCollateral))) for n, b_, c in case.supplies if c), F(0))
                tot = wl * F(rng.randint(30, 90), 100)
                if tot > 0 and D(case.toks[dn]["p"]) != 0:
                    bd = tot / F(D(case.toks[dn]["p"])) / F(D(case.toks[dn]["bi"]))
                    case.debts = [[dn, str(D(format(D(bd.numerator) / D(bd.denominator), ".28e")))]]
                    health = "healthy"
                else:
                    case.debts, health = [], "nodebt"
            else:
                case.debts = []
                health = "nodebt"
        for n in case.toks:
            case.wallet[n] = "1000000"
        focus = rng.choice([d[0] for d in case.debts] or list(case.toks)) if bars else rng.choice(list(case.toks))
        steps = None
        if bars:
            plan = bar_plan(rng)
            nsteps = len(plan)
        else:
            nsteps = rng.randint(4, 9)
    else:
        case, steps, health = forced
        focus = None
        nsteps = len(steps)
    m, b, toks, acts = L.build(case)
    names = list(case.toks)
    done, found = [], []
    cur, minute, quiet_run = dict(case.toks), 0, 0
    count_features(ctx, case)
    for i in range(nsteps):
        if steps is None:
            kind = plan[i] if plan is not None else "call"
            if kind == "look":
                spec = {"op": "look", "tok": None, "views": rng.sample(LOOKS, rng.randint(2, 6))}
            elif kind in ("quiet", "moved"):
                minute += 1
                spec = {"op": "bar", "tok": None, "toks": next_bar_toks(rng, cur, kind), "minute": minute, "kind": kind}
            elif kind in ("refresh-same", "refresh-repriced"):
                t2 = {n: dict(t) for n, t in cur.items()}
                if kind == "refresh-repriced":
                    n = rng.choice(list(t2))
                    t2[n]["p"] = str((D(t2[n]["p"]) * D(rng.randint(80, 120)) / 100).normalize())
                spec = {"op": "bar", "tok": None, "toks": t2, "minute": minute, "kind": kind, "refresh": True}
            else:
                spec, cls = seq_step(rng, case, m, focus)
                if kind == "edge" and spec["op"] in ("borrow", "withdraw") and rng.random() < 0.8:
                    # just inside / just beyond the frontier of the CURRENT bar: between the limit a stale figure would give and the true one
                    f, cls = rng.choice([(1 + F(1, 1000), "f+1e-3"), (1 + F(1, 1000), "f+1e-3"), (1 + MARGIN * 2, "f+2e-9"), (1 - MARGIN * 2, "f-2e-9"),
                                         (1 + F(1, 100), "f+1e-2")])
                    # re-aim: seq_step multiplied the frontier by one of SEQ_F (`_f`); undo it and apply f
                    if "_f" in spec:
                        spec["amount"] = str(dec(F(D(spec["amount"])) / spec.pop("_f") * f, 33))
                spec.pop("_f", None)
                spec["warm"] = rng.random() < 0.5
                spec["cls"] = cls
        else:
            spec = steps[i]
        cls = spec.get("cls", "?")
        done.append(spec)
        op, tok = spec["op"], spec["tok"]
        if op == "look":
            for v in spec["views"]:
                try:
                    getattr(m, v)
                except Exception:       # noqa: BLE001
                    pass
            continue
        if op == "bar":
            L.set_bar(m, spec["toks"], L.TS + timedelta(minutes=spec["minute"]), refresh=bool(spec.get("refresh")))
            cur = spec["toks"]
            quiet_run = quiet_run + 1 if spec["kind"] in ("quiet", "refresh-same") else 0
            ctx.count("bars:" + spec["kind"])
            continue
        rep = {"case": case.to_json(), "seq": list(done), "health": health, "stream": "sequence"}
        amount = None if spec.get("amount") is None else D(spec["amount"])
        out = []
        if op == "borrow":
            obs = call_live(m, b, toks, acts, names, lambda mm, t: mm.borrow(t[tok], amount), spec["warm"])
            o_borrow(out, obs, tok, amount)
            reqs.append((rep, obs, {"fn": "borrow", "tok": tok, "row": obs["rows"][tok], "amount": amount}))
        elif op == "withdraw":
            obs = call_live(m, b, toks, acts, names, lambda mm, t: _withdraw(mm, t[tok], amount), spec["warm"])
            o_withdraw(out, obs, tok, amount)
            reqs.append((rep, obs, {"fn": "withdraw", "tok": tok, "amount": amount}))
        elif op == "change":
            obs = call_live(m, b, toks, acts, names, lambda mm, t: mm.change_collateral(t[tok], spec["flag"]), spec["warm"])
            o_change(out, obs, tok, spec["flag"])
            reqs.append((rep, obs, {"fn": "changeCollateral", "tok": tok, "flag": spec["flag"]}))
        elif op == "supply":
            obs = call_live(m, b, toks, acts, names, lambda mm, t: mm.supply(t[tok], amount, spec["coll"]), spec["warm"])
        elif op == "max_withdraw":
            obs = call_live(m, b, toks, acts, names, lambda mm, t: mm.get_max_withdraw_amount(t[tok]), spec["warm"])
            reqs.append((rep, obs, {"fn": "maxWithdraw", "tok": tok}))
            if obs["exc"] is None:
                E0 = Exact(obs["S0"], obs["rows"])
                if not D(obs["ret"]).is_finite() or F(D(obs["ret"])) > E0.sup_amount(tok) * (1 + TOL):
                    out.append(("max_withdraw.exceeds-supply", f"get_max_withdraw_amount({tok}) = {obs['ret']} exceeds the supplied {float(E0.sup_amount(tok))}"))
        elif op == "max_borrow":
            obs = call_live(m, b, toks, acts, names, lambda mm, t: mm.get_max_borrow_amount(t[tok]), spec["warm"])
            reqs.append((rep, obs, {"fn": "maxBorrow", "row": obs["rows"][tok]}))
            if obs["exc"] is None:
                E0 = Exact(obs["S0"], obs["rows"])
                want = (E0.weighted_ltv - E0.total_debt) * F(99, 100) / F(obs["rows"][tok]["p"])
                if not D(obs["ret"]).is_finite() or not close(F(D(obs["ret"])), want, abs_tol=TOL * (E0.weighted_ltv + E0.total_debt) / F(obs["rows"][tok]["p"])):
                    out.append(("max_borrow.value", f"get_max_borrow_amount = {obs['ret']}, definition gives {float(want)}"))
        else:
            ct = spec.get("collTok")
            obs = call_live(m, b, toks, acts, names, lambda mm, t: mm.repay(t[tok], amount, spec["withColl"], None if ct is None else t[ct]), spec["warm"])
        if obs["fig0"] is not None:
            o_figures(out, obs)
        o_monotone(out, obs, op)
        nth = sum(1 for x in done if x["op"] == op and x["tok"] == tok)
        if any(x["op"] == "bar" for x in done):
            last = [x for x in done if x["op"] == "bar"][-1]["kind"]
            ctx.case(f"bars:{op}:after-{last}:quiet-run-{min(quiet_run, 3)}:{'warm' if spec['warm'] else 'asleft'}:{cls}:{obs['cause'] or 'ok'}", rep)
        else:
            ctx.case(f"sequence:{op}:{'same-token-x' + str(min(nth, 3))}:{'warm' if spec['warm'] else 'asleft'}:{cls}:{obs['cause'] or 'ok'}", rep)
        for k, what in out:
            ctx.violate(k, f"(call {i + 1} of a sequence on one market) {what}", rep)
            found.append((k, what))
        if found:
            break           # the rest of the sequence would run on a state the property already excludes
    return found


def _withdraw(m, t, amount):
    m.withdraw(t, amount)
    return amount if amount is not None else None


# ------------------------------------------------------------------------------------------------------- correspondence
def compare(ctx: Ctx, rep, obs, req, ans):
    def bad(what):
        ctx.disagree(f"{req['fn']}: {what}", rep)
    if "error" in ans and "cause" not in ans:
        return bad(f"driver error {ans['error']}")
    impl_ok = obs["exc"] is None
    if ("ok" in ans) != impl_ok:
        return bad(f"outcome: impl {obs['exc']}/{obs['cause']} model {ans.get('cause', 'ok')}")
    if not impl_ok:
        if ans["error"] != obs["exc"]:
            return bad(f"exception class: impl {obs['exc']} model {ans['error']}")
        mc = "hf" if ans["cause"] in ("hfLow", "hfLowAfter") else ans["cause"]
        if str(obs["cause"]).startswith("?"):
            ctx.count("assertion_message_not_recognised")      # reworded message: the class is compared, which `require` fired cannot be told
        elif mc != obs["cause"]:
            bad(f"cause: impl {obs['cause']} model {ans['cause']}")
        return
    if req["fn"] in ("maxBorrow", "maxWithdraw"):
        if not D(obs["ret"]).is_finite() or F(ans["amount"]) != F(D(obs["ret"])):
            bad(f"helper amount: impl {obs['ret']} model {ans['amount']}")
        return
    ms = [[s["tok"], F(s["base"]), s["coll"]] for s in ans["state"]["supplies"]]
    md = [[d["tok"], F(d["base"])] for d in ans["state"]["debts"]]
    is_ = [[n, F(b), c] for n, b, c in obs["S1"]["supplies"]]
    id_ = [[n, F(b)] for n, b in obs["S1"]["debts"]]
    if ms != is_ or md != id_:
        return bad(f"post-state: impl {obs['S1']} model {ans['state']}")
    if L.model_num(ans["after"]["hf"]) != obs["hf1"]:
        bad(f"HF after: impl {obs['hf1']} model {ans['after']['hf']}")
    if req["fn"] in ("borrow", "withdraw"):
        if len(obs["acts"]) != 1 or F(ans["amount"]) != F(D(obs["acts"][0].amount)):
            bad(f"amount moved: impl {[str(a.amount) for a in obs['acts']]} model {ans['amount']}")


def run(ctx: Ctx):
    for f in L.rp_files():
        bad = L.risk_sanity(f)
        ctx.note("risk_params_sane:" + f.split("/")[-1].replace("Aave Protocol Parameter ", ""), "ok" if not bad else bad[:5])
    n = ctx.scale(450, 12000)
    reqs = []
    for i in range(n):
        r = ctx.rng.random()
        stream = "random" if r < 0.62 else ("boundary" if r < 0.87 else "special")
        run_case(ctx, ctx.rng, stream, reqs)
    for i in range(ctx.scale(70, 2000)):
        run_sequence(ctx, ctx.rng, reqs)
    for i in range(ctx.scale(90, 2500)):
        run_sequence(ctx, ctx.rng, reqs, bars=True)
    ctx.impl_traces = len(reqs)
    if ctx.driver_ok:
        out = driver_json([dict(r, ctx="py", state=o["state"]) for _, o, r in reqs], exe="driver_aaverisk")
        for (rep, obs, req), ans in zip(reqs, out):
            compare(ctx, rep, obs, req, ans)
        figs = driver_json([{"fn": "figures", "ctx": "py", "state": o["state"]} for _, o, _ in reqs[:: 3]], exe="driver_aaverisk")
        for (rep, obs, _), ans in zip(reqs[:: 3], figs):
            if obs.get("fig0") is None:
                continue
            hf, ml, lt, ltv = obs["fig0"]
            for k, v in (("hf", hf), ("maxLtv", ml), ("liqThreshold", lt), ("ltv", ltv)):
                if L.model_num(ans[k]) != v:
                    ctx.disagree(f"figure {k}: impl {v} model {ans[k]}", rep)
            e = Exact(obs["S0"], obs["rows"])
            if hf is not None and e.hf is not None:
                ctx.dev(hf, e.hf)


def replay(ctx: Ctx, case) -> bool:
    c = Case.from_json(case["case"])
    sub = Ctx(ctx.prop, ctx.tier, ctx.seed, False)
    if "seq" in case:
        v = run_sequence(sub, sub.rng, [], forced=(c, case["seq"], case.get("health")))
        for k, what in v:
            print("  ", k, what)
        return not v
    v = run_case(sub, sub.rng, case.get("stream", "random"), [], forced=(c, case["spec"], case.get("health"), case.get("role"), case.get("cls")))
    for k, what in v:
        print("  ", k, what)
    return not v
