"""C01, Deribit part — the reported value of the option market is cash + Σ amount × mark (mark rounded to the fee step, as coded)
on every bar, also on the 59 closed minutes of each hour (where the option valuation of the hour is reused but the cash is
the current one, so deposits/withdrawals made between two hours are reflected), and the account's net value counts the
ETH-quoted market once, converted with the bar's ETH price.

(a) step level: `get_market_balance()` on random states, open and closed bars, fresh / stale / missing cache, positions whose
    instrument is not in the bar's book;  (b) whole backtests through the real Actuator with a minutely Uniswap co-market:
    every `account_status[i]` against an independent valuation from the data frames and the strategy's own ledger.
Correspondence: (a) every call replayed on driver_deribit, (b) the run replayed by `bars` (balance of every bar)."""
from __future__ import annotations

import copy
from decimal import Decimal
from fractions import Fraction

import pandas as pd

import deribit_lib as L
import c16
from common import Ctx, driver_json

PROPERTY = "C01"
LEAN_MODULES = ["Proofs.C01.Deribit", "Proofs.C01.DeribitHooks"]
DRIVERS = ["driver_deribit"]
RULE = ("[deribit] (a) buckets = (bar open/closed, what happened since the cached valuation: nothing / deposit / withdraw / a trade on the open bar / "
        "update() with due options / no valuation yet, number of positions, positions with/without a row in the book); "
        "(b) whole runs at 1min / 5min / 1h / 2h / 4h with calls from before_bar / on_bar / after_bar / notify: buckets = (interval, bar kind on-hour/"
        "off-hour/hour-missing, what happened since the last open bar: nothing / deposit / withdraw / trade / settlement / a trade or cash movement "
        "made from notify after the previous row) for the account rows and, for every get_market_balance() the strategy itself reads, "
        "(hook, settling bar or not)")
TRUSTED = ["pandas/Actuator plumbing exercised, not modelled; the independent valuation reads the same data frames the Actuator iterates"]
ASSUMPTIONS = ["a position whose instrument has no row in the bar's book has no mark in that bar's data; the code values it at 0 and so does the oracle "
               "(counted in notes as positions_without_mark)"]

STEP = Fraction(1, 10 ** 6)
TOL = Fraction(1, 10 ** 25)


def round6(x):
    return c16.round6(Fraction(x))


def spec_value(S):
    """cash + Σ amount × round(mark) over the positions that have a row in the book of the state dump S"""
    prem = Fraction(0)
    missing = 0
    for p in S["positions"]:
        row = next((i for i in S["book"] if i["name"] == p["name"]), None)
        if row is None:
            missing += 1
        else:
            prem += p["amount"] * round6(row["mark"])
    return S["cash"] + prem, prem, missing


# ------------------------------------------------------------------------------------------ (a) step level
def gen_state(rng):
    token = "ETH" if rng.random() < 0.8 else "BTC"
    is_open = rng.random() < 0.55
    hour = 60 * rng.randint(1, 100)
    instrs = L.gen_book(rng, token, hour, n=rng.choice((1, 2, 3, 4)), max_levels=3)
    positions = []
    for i in instrs:
        if rng.random() < 0.7:
            a = Decimal(rng.randint(1, 500)) if token == "ETH" else Decimal(rng.randint(1, 5000)) / 10
            positions.append({"name": i["name"], "expiry": i["expiry"], "strike": i["strike"], "kind": i["kind"], "amount": str(a)})
    if rng.random() < 0.3:
        positions.append({"name": token + "-GONE-1234-C", "expiry": hour + 600, "strike": 1234, "kind": "CALL", "amount": str(rng.randint(1, 9))})
    # what happened between the valuation that may be cached and the read that is checked:
    #   closed bars: nothing / deposit / withdraw on the closed bar / a trade on the hour's open bar AFTER the valuation (Strategy.notify, a
    #   second strategy call) / no valuation yet (update() after the last valuation of an open bar cannot happen in the bar loop: the
    #   account row is taken after update());   open bars: nothing / none / a trade / update() (expiry) / deposit after an earlier read
    cache_cls = rng.choice(("fresh", "stale-deposit", "stale-withdraw", "none", "stale-trade", "stale-trade")) if not is_open \
        else rng.choice(("fresh", "none", "read-trade", "read-update", "read-update", "read-deposit"))
    return {"token": token, "open": is_open, "hour": hour, "minute": hour if is_open else hour + rng.randint(1, 59), "instrs": instrs,
            "positions": positions, "cash": str(Decimal(rng.randint(0, 100000)) / 1000), "wallet": "7", "cache": cache_cls,
            "trade_side": rng.choice(("buy", "sell")),
            "move": str(Decimal(rng.randint(1, 3000)) / 1000)}


def run_state(ctx, st, reqs):
    rig = L.Rig(st["instrs"], now=st["hour"], token=st["token"], wallet=Decimal(st["wallet"]), cash=Decimal(st["cash"]), positions=st["positions"])
    m = rig.market
    if st["cache"] != "none":
        m.get_market_balance()                 # valuation of the hour, cached
    if st["cache"] in ("stale-trade", "read-trade"):
        # a trade on the open bar after the valuation was taken
        m.balance += Decimal(50)
        done = False
        for side in (("sell", "buy") if st.get("trade_side") == "sell" else ("buy", "sell")):
            for i in st["instrs"]:
                out, _ = L.apply_op(rig, {"type": side, "name": i["name"], "amount": 1 if st["token"] == "ETH" else Decimal("0.1")})
                if out == "ok":
                    done = True
                    break
            if done:
                break
        if not done:
            ctx.count("stale_trade_without_trade")
    elif st["cache"] in ("stale-update", "read-update"):
        L.apply_op(rig, {"type": "update"})     # options that are due are exercised / expire after the valuation was taken
    elif st["cache"] == "read-deposit":
        L.apply_op(rig, {"type": "deposit", "amount": Decimal(st["move"])})
    if not st["open"]:
        from demeter.deribit import DeribitMarketStatus
        m.set_market_status(DeribitMarketStatus(timestamp=L.ts_of(st["minute"]), data=m.market_status.data), price=L.market_prices(m))
        m.is_open = False
    if st["cache"] == "stale-deposit":
        L.apply_op(rig, {"type": "deposit", "amount": Decimal(st["move"])})
    elif st["cache"] == "stale-withdraw":
        L.apply_op(rig, {"type": "withdraw", "amount": min(Decimal(st["move"]), m.balance)})
    S = L.dump_state(rig)
    out, res = L.apply_op(rig, {"type": "balance"})
    S2 = L.dump_state(rig)
    rep = {"state": st}
    want, prem, missing = spec_value(S)
    if missing:
        ctx.count("positions_without_mark", missing)
    npos = len(st["positions"])
    ctx.case(f"deribit:balance:{'open' if st['open'] else 'closed'}:{st['cache']}:{min(npos, 3)}pos:{'row-missing' if missing else 'all-rows'}",
             {"bar": "open" if st["open"] else "closed", "cache": st["cache"], "positions": npos})
    if out != "ok":
        ctx.violate(f"deribit.balance.raises.{out}", f"get_market_balance raised {out}", rep)
    elif res is None:
        key = "deribit.balance.none.closed-bar-before-first-open" if not st["open"] else "deribit.balance.none.open-bar"
        ctx.violate(key, f"get_market_balance returned None at minute {st['minute']} (no cached valuation yet), the account status cannot be built", rep)
    else:
        if res["cash"] != S["cash"] or abs(res["netValue"] - want) > TOL * max(abs(want), 1) or abs(res["premium"] - prem) > TOL * max(abs(prem), 1):
            ctx.violate(f"deribit.balance.{'open' if st['open'] else 'closed'}.{st['cache']}",
                        f"get_market_balance reports net {L.fmt(res['netValue'])} (cash {L.fmt(res['cash'])}) at minute {st['minute']}; "
                        f"cash {L.fmt(S['cash'])} + options at mark {L.fmt(prem)} = {L.fmt(want)}", rep)
    reqs.append((f"deribit:balance:{st['cache']}", L.step_request(S, {"type": "balance"}, st["token"]), out, res, S2, [], rep))


# ------------------------------------------------------------------------------------------ (b) whole runs
PHASES = (("on", 0.4), ("before", 0.2), ("after", 0.25), ("notify", 0.15))


def gen_run(rng):
    sc = c16.gen_scenario(rng)
    step = c16.INTERVAL_MIN[sc["interval"]]
    last = 60 * sc["n_hours"] - 1 if sc["interval"] == "1min" else 60 * (sc["n_hours"] - 1)
    # more cash movements between the hours, from every hook of the strategy
    for _ in range(rng.randint(2, 6)):
        m = rng.randint(0, last)
        m -= m % step
        op = {"type": rng.choice(("deposit", "withdraw")), "amount": Decimal(rng.randint(1, 200)) / 100}
        c16.add_scripted(rng, sc["script"], m, op, PHASES)
    # trades on hourly bars after the bar's account row (Strategy.notify) and after update() (after_bar)
    for _ in range(rng.randint(1, 3)):
        m = 60 * rng.randint(0, sc["n_hours"] - 1)
        m -= m % step
        ins = rng.choice(sc["instrs"])
        op = {"type": rng.choice(("buy", "buy", "sell")), "name": ins["name"], "amount": rng.randint(1, 4)}
        c16.add_scripted(rng, sc["script"], m, op, (("notify", 0.6), ("after", 0.4)))
    # the strategy reads the market balance at every point of the bar: before_bar, on_bar (before update()), after_bar, notify --
    # on the bars where options expire, where it trades, and on the minutes in between
    expiry_bars = set()
    for ins in sc["instrs"]:
        e = ins["expiry"]
        grid = max(60, step)
        expiry_bars.add(max(0, -(-e // grid) * grid))
    busy = [m for m in sorted(set(sc["script"]) | expiry_bars) if 0 <= m <= last]
    for m in busy:
        for _ in range(rng.randint(1, 3)):
            c16.add_scripted(rng, sc["script"], m, {"type": "balance"}, (("on", 0.35), ("before", 0.3), ("after", 0.2), ("notify", 0.15)))
    for _ in range(rng.randint(1, 4)):
        m = rng.randint(0, last)
        m -= m % step
        c16.add_scripted(rng, sc["script"], m, {"type": "balance"}, PHASES)
    return sc


def oracle_run(ctx, sc, a, rec, balances, prices, mkey, rep):
    since = "nothing"
    for i, bar in enumerate(rec):
        now = bar["now"]
        on_grid = now % 60 == 0
        kind = "off-hour" if not on_grid else ("on-hour" if c16.hour_present(sc, now) else "hour-missing")
        settled = len(bar["post"]["positions"]) != len(bar["pre"]["positions"])
        # every valuation the strategy itself reads, wherever in the bar: cash + Σ amount × round(mark) of the raw state at that moment
        for j, o in enumerate(bar["ops"]):
            if o["op"]["type"] == "balance":
                ctx.case(f"deribit:read:{sc['interval']}:{kind}:{o['phase']}:{'settling-bar' if settled else 'plain'}:{since}")
                if o["out"] != "ok" or o["res"] is None:
                    ctx.violate(f"deribit.read.{o['phase']}.raises", f"minute {now} ({o['phase']}): get_market_balance -> {o['out']}", dict(rep, bar=i))
                    continue
                if L.has_nan(o["res"]) or L.has_nan(o["before"]["book"]):
                    ctx.violate(f"deribit.read.{kind}.value-nan", f"minute {now} ({o['phase']}): the reported option-market value is NaN "
                                f"(the bar's book has rows without data)", dict(rep, bar=i))
                    continue
                w, pr, _ = spec_value(o["before"])
                if o["res"]["cash"] != o["before"]["cash"] or abs(o["res"]["netValue"] - w) > TOL * max(abs(w), 1):
                    ctx.violate(f"deribit.read.{kind}.{o['phase']}.after-{since}{'.settling-bar' if settled and o['phase'] in ('after', 'notify') else ''}",
                                f"minute {now} ({kind}), get_market_balance() read in {o['phase']} (since last open bar: {since}): reports "
                                f"{L.fmt(o['res']['netValue'])} (cash {L.fmt(o['res']['cash'])}) but cash {L.fmt(o['before']['cash'])} + options at mark "
                                f"{L.fmt(pr)} = {L.fmt(w)}", dict(rep, bar=i, op=j))
            elif o["out"] == "ok" and o["phase"] != "notify":
                since = o["op"]["type"] if o["op"]["type"] in ("deposit", "withdraw") else "trade"
        if settled:
            since = "settlement"
        post = bar["row_state"]                # the state the bar's account row is about: after after_bar, before notify
        bal = balances[i]
        st = a.account_status[i]
        ctx.case(f"deribit:run:{sc['interval']}:{kind}:{since}")
        if bal is None:
            ctx.violate("deribit.run.balance-none", f"minute {now}: no market balance in the account status", dict(rep, bar=i))
            continue
        if L.has_nan(bal) or L.has_nan(post["book"]):
            ctx.violate(f"deribit.run.{kind}.value-nan", f"minute {now} ({kind}): the reported option-market value is "
                        f"{bal['netValue'] if isinstance(bal['netValue'], str) else L.fmt(bal['netValue'])}: the bar's book has rows without data (NaN)",
                        dict(rep, bar=i))
            continue
        want, prem, missing = spec_value(post)
        if missing:
            ctx.count("positions_without_mark", missing)
        if bal["cash"] != post["cash"] or abs(bal["netValue"] - want) > TOL * max(abs(want), 1):
            ctx.violate(f"deribit.run.{kind}.after-{since}",
                        f"minute {now} ({kind}, since last open bar: {since}): reported option-market value {L.fmt(bal['netValue'])} "
                        f"(cash {L.fmt(bal['cash'])}), but cash {L.fmt(post['cash'])} + options at mark {L.fmt(prem)} = {L.fmt(want)}", dict(rep, bar=i))
        # the account: wallet at the bar's prices + the ETH-quoted market converted once
        p = prices.loc[L.ts_of(now)]
        wallet_v = sum((Fraction(bw[1]) * Fraction(p[bw[0]]) for bw in post["wallet"]), Fraction(0))
        want_acct = wallet_v + bal["netValue"] * Fraction(p["ETH"])
        if abs(Fraction(st.net_value) - want_acct) > TOL * max(abs(want_acct), 1):
            ctx.violate("deribit.run.account-conversion",
                        f"minute {now}: account net value {st.net_value} but wallet {L.fmt(wallet_v)} + option market {L.fmt(bal['netValue'])} ETH x {p['ETH']}",
                        dict(rep, bar=i))
        if on_grid:
            since = "nothing"
        # what was done from notify comes after this bar's row: it shows in the rows that follow
        for o in bar["ops"]:
            if o["phase"] == "notify" and o["out"] == "ok" and o["op"]["type"] != "balance":
                since = "notify-" + (o["op"]["type"] if o["op"]["type"] in ("deposit", "withdraw") else "trade")


def run_one(ctx, sc, reqs):
    rep = {"scenario": sc}
    a, dm, rec, balances, prices, mkey = c16.run_real(sc)
    oracle_run(ctx, sc, a, rec, balances, prices, mkey, rep)
    reqs.append((c16.model_request(sc, rec, prices, dm), sc, rec, balances, rep))


def off_hour_start(ctx, rng):
    """a run whose first bar is not on the hour: the option market has no cached valuation yet"""
    L.quiet()
    from demeter import Actuator, MarketInfo, MarketTypeEnum, Strategy
    from demeter.deribit import DeribitOptionMarket
    start = rng.choice((15, 30, 59))
    ins = {"name": "ETH-X-2000-C", "state": "open", "kind": "CALL", "strike": 2000, "expiry": 10 ** 5, "mark": 0.05, "underlying": 2050.0,
           "delta": 0.5, "gamma": 0.001, "asks": [[0.051, 10]], "bids": [[0.049, 10]]}
    mkey = MarketInfo("deribit", MarketTypeEnum.deribit_option)
    a = Actuator()
    dm = DeribitOptionMarket(mkey, DeribitOptionMarket.ETH)
    dm.data = L.deribit_frame([(0, [ins]), (60, [ins]), (120, [ins])])
    um, usdc, eth = L.uni_market(120, start, 200000)
    a.broker.add_market(um)
    a.broker.add_market(dm)
    a.broker.set_balance(eth, 1)
    a.broker.set_balance(usdc, 1000)
    dm.balance = Decimal(2)
    a.set_price(um.get_price_from_data())
    a.strategy = Strategy()
    rep = {"off_hour_start": start}
    ctx.case(f"deribit:run:1min:off-hour-start")
    try:
        a.run(print_result=False)
    except Exception as e:  # noqa: BLE001
        ctx.violate("deribit.run.off-hour-start.crash", f"a backtest whose first bar is minute {start} of the hour stops with {type(e).__name__}: "
                    f"get_market_balance() has no cached valuation before the first whole hour", rep)
        return
    want = Fraction(2)
    for st in a.account_status[:3]:
        b = st.market_status[mkey]
        if b is None or Fraction(b.net_value) != want:
            ctx.violate("deribit.run.off-hour-start.value", f"first bars report {None if b is None else b.net_value}, cash is 2 and nothing is held", rep)
            return


def run(ctx: Ctx):
    reqs = []
    n = ctx.scale(400, 20000)
    for _ in range(n):
        run_state(ctx, gen_state(ctx.rng), reqs)
    if ctx.driver_ok and reqs:
        answers = L.model_answers([r[1] for r in reqs])
        for (tag, req, out, res, S2, acts, rep), ans in zip(reqs, answers):
            L.compare_step(ctx, tag, None, None, out, res, S2, acts, ans, rep)
    off_hour_start(ctx, ctx.rng)
    runs = []
    for _ in range(ctx.scale(12, 600)):
        run_one(ctx, gen_run(ctx.rng), runs)
    ctx.impl_traces = n + len(runs)
    if ctx.driver_ok and runs:
        out = driver_json([r[0] for r in runs], exe=L.EXE)
        for (req, sc, rec, balances, rep), ans in zip(runs, out):
            c16.compare(ctx, sc, rec, balances, ans, rep)


def replay(ctx: Ctx, case) -> bool:
    sub = Ctx(ctx.prop, ctx.tier, ctx.seed, False)
    if "off_hour_start" in case:
        import random
        off_hour_start(sub, random.Random(case["off_hour_start"]))
    elif "state" in case:
        st = copy.deepcopy(case["state"])
        for i in st["instrs"]:
            for k in ("asks", "bids"):
                i[k] = [[float(p), float(s) if isinstance(s, str) else s] for p, s in i[k]]
        run_state(sub, st, [])
    else:
        run_one(sub, c16.restore(case["scenario"]), [])
    for v in sub.violations:
        print("  ", v["key"], v["what"])
    return not sub.violations
