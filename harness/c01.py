"""C01 — decided market by market; see multi.py and the part modules c01_*.py."""
import multi
multi.install(globals(), "C01", "cases are bucketed per part by (operation, branch tag, outcome/rejection cause, argument class).")
