"""C04 — decided market by market; see multi.py and the part modules c04_*.py."""
import multi
multi.install(globals(), "C04", "cases are bucketed per part by (operation, branch tag, outcome/rejection cause, argument class).")
