"""C09 — token order is immaterial: the same base/quote-denominated operations on a pool and on its mirror give the same economic results."""
from __future__ import annotations

from decimal import Decimal
from fractions import Fraction

from common import Ctx, driver_json, fmt
import uni_common as U

PROPERTY = "C09"
LEAN_MODULES = ["Proofs.C09", "Proofs.C09.Kernel", "Proofs.C09.Recip", "Proofs.C09.Tick", "Proofs.C09.ByValue", "Proofs.C09.Fee", "Proofs.C09.Views", "Proofs.C09.Std", "Proofs.C09.Witness", "Proofs.C09.Explicit", "Proofs.C09.ByValueIn"]
DRIVERS = ["driver"]
RULE = ("each case builds a real UniLpMarket on pool (token0 = quote) and on its mirror (token0 = base; ticks negated, per-token volumes swapped, "
        "same base/quote price, same wallet) and runs the same sequence of base/quote-denominated operations on both: add_liquidity (by price), "
        "add_liquidity_by_tick, remove_liquidity (all / part, with and without collect), collect_fee, buy, sell, swap, even_rebalance, "
        "add_liquidity_by_value, a fee accrual step (set_market_status + update; a directed stream walks the tick onto / along / off a range bound), and after every step the views get_market_balance, "
        "get_position_status, estimate_amount, estimate_liquidity — with the price inside, below and above the ranges, on a range bound, decimals "
        "6/18, 18/6, 8/18, 18/18, 6/6, all three fee tiers. Buckets = (operation, price regime, decimals pair, fee tier, outcome, observable class).")
TRUSTED = ["the mirror law of the numeric kernel (sqrt(1.0001^t) vs sqrt(1.0001^-t), Decimal sqrt of p vs 1/p, Decimal(10**-12) being a binary double) "
           "holds only approximately: C09_std_kernel_has_no_exact_mirror proves that NO sqrt-price map makes the code's kernel satisfy it exactly. "
           "C09_orchestration(_explicit_price), the view theorems and C09_add_by_value_mirror_exact are statements about the orchestration code for "
           "kernels that do satisfy it (non-trivial instance: C09_mirror_law_has_nontrivial_instance); what the code's own helpers satisfy is proved "
           "in Proofs/C09/Std.lean with the reciprocity slack explicit (C09_std_sqrtToPrice/tickToPrice/amount0/amount1_mirror_eps, bounded on the "
           "whole tick range by C09_kernel_reciprocity). The propagation of that slack through wallet checks and the liquidity floors is NOT proved: "
           "the closeness of the concrete results is MEASURED here against the property's 1e-12 / 0.1 % (max relative deviation in the evidence)",
           "math.log tick estimates and estimate_ratio are libm oracles"]
ASSUMPTIONS = ["|tick| <= 330000 + range width: get_liquidity_for_amount0 floors sqrtA*sqrtB/2^96, which has only 2^96*1.0001^t significant units at negative ticks (1e12 at t = -389000), so 1e-12 cannot hold beyond; an extreme-band stream is measured separately",
               "amounts are compared at max(1e-12, 2/L_min) relative plus 4 atomic units, L_min = smallest positive liquidity held: liquidity is an "
               "integer, one unit of it is 1/L of the position (matters below L = 2e12); liquidity itself at 1e-12 relative plus 2 units",
               "a state in which the price lies on a range bound to within 1e-9 relative (in sqrt price) is counted and not compared: there the kernels' "
               "reciprocity error (~1e-17) decides the regime and get_liquidity divides by (s - sqrt_bound); the property's regimes are in / below / above "
               "(applies to every entry point that opens or values a range: add_liquidity by price — whose ticks each orientation derives from the two quote "
               "prices —, add_liquidity_by_tick, add_liquidity_by_value, remove, the views; the *fee accrual* on a bound is discrete in the ticks and is not "
               "skipped: stream fee-bound, theorem C09_fee_mirror, known finding mirror.fee.stationary-on-bound)",
               "a price closer than 1e-4 relative (two ticks) to a range bound without being on it — only prices that are not on a tick get there — "
               "is compared at max(1e-12, 4e-17 / distance): amounts and liquidity are quotients by (sqrtP - sqrt_bound) there and the two orientations' "
               "sqrt prices differ by ~1e-17 relative (Decimal(10**-12) is a binary double)",
               "estimate helpers: a range bound within one tick of the price is measured, not compared (estimate_liquidity decides the regime by the "
               "floor tick, which is not mirror-symmetric for a price that is not on a tick)",
               "prices handed to add_liquidity lie in the inner half of a tick-spacing cell, so that rounding to the spacing is orientation independent "
               "(a separate stream measures the cell-midpoint case)"]

TOL = Fraction(1, 10 ** 12)
TOL_EST = Fraction(1, 1000)
BAND = 330000     # |tick| band in which the integer liquidity math keeps 1e-12 (2^96 * 1.0001^-|t| >= 1e12 <=> |t| <= 389000)
SPECS = [(6, 18), (18, 6), (8, 18), (18, 18), (6, 6)]


def bar_volumes(rng):
    """(quote volume, base volume) of a bar: often one-directional — a bar in which only one of the two tokens flowed in (or none)"""
    vq, vb = Decimal(rng.randint(0, 10 ** 12)), Decimal(rng.randint(0, 10 ** 24))
    k = rng.random()
    if k < 0.15:
        vq = Decimal(0)
    elif k < 0.3:
        vb = Decimal(0)
    elif k < 0.34:
        vq = vb = Decimal(0)
    return vq, vb


class Pair:
    """world A: token0 = quote (q0 = True); world B: the mirror (token0 = base)"""

    def __init__(self, rng, dq=None, db=None, fee=None, tick=None, frac=None, restore=None):
        """`frac` (a Fraction in (0, 1)): the pool price lies that far (linearly) between the prices of tick and tick + 1 of orientation A —
        a price that is not on a tick; the row's closeTick is then the floor tick of each orientation (A: tick, B: -tick - 1)"""
        dq, db = (dq, db) if dq is not None else rng.choice(SPECS)
        fee = fee or rng.choice(U.FEES)
        TokenInfo, Broker, MarketInfo, UniLpMarket, UniV3Pool, UniswapMarketStatus = U.imports()
        sp = int(Decimal(str(fee)) * 200)
        self.sp = sp
        tA = tick if tick is not None else rng.randint(-BAND // sp, BAND // sp) * sp
        bal = (Decimal(rng.randint(10 ** 3, 10 ** 8)) / 100, Decimal(rng.randint(10 ** 3, 10 ** 9)) / 100)
        liq = Decimal(rng.randint(10 ** 14, 10 ** 24))
        vq, vb = bar_volumes(rng)
        if restore:     # a stored replay: the wallet and the status row of the recorded pair
            bal = tuple(Decimal(x) for x in restore["balances"])
            liq, vq, vb = Decimal(restore["liq"]), Decimal(restore["vq"]), Decimal(restore["vb"])
        price, tB = None, -tA
        if frac:
            from demeter.uniswap.helper import tick_to_base_unit_price
            p0, p1 = tick_to_base_unit_price(tA, dq, db, True), tick_to_base_unit_price(tA + 1, dq, db, True)
            price = p0 + (p1 - p0) * Decimal(frac.numerator) / Decimal(frac.denominator)
            tB = -tA - 1
        self.A = U.World(rng, pool_spec=(dq, db, True), fee=fee, tick=tA, balances=bal, price=price)
        # the mirror: base token first. World names tokens ta (token0) / tb (token1); in B token0 is the base token
        self.B = U.World(rng, pool_spec=(db, dq, False), fee=fee, tick=tB, balances=bal, price=self.A.price)
        self.A.set_status(tA, self.A.price, liq, vq, vb)          # A: token0 = quote volume, token1 = base volume
        self.B.set_status(tB, self.A.price, liq, vb, vq)
        self.dq, self.db, self.fee, self.tick, self.frac = dq, db, fee, tA, frac
        self.spec = {"dq": dq, "db": db, "fee": fee, "tick": tA, "balances": [fmt(bal[0]), fmt(bal[1])], "liq": fmt(liq), "vq": fmt(vq), "vb": fmt(vb),
                     "frac": None if not frac else str(frac)}

    def refresh(self, rng, new_tick):
        """next bar: new close tick / price, fee accrual on both"""
        liq = Decimal(rng.randint(10 ** 14, 10 ** 24))
        vq, vb = bar_volumes(rng)
        price = self.A.market.tick_to_price(new_tick)
        self.A.set_status(new_tick, price, liq, vq, vb)
        self.B.set_status(-new_tick, price, liq, vb, vq)
        self.A.price = self.B.price = price
        self.A.tick, self.B.tick = new_tick, -new_tick
        with U.guard("set_market_status/update"):
            self.A.market.update()
            self.B.market.update()


def mirror_op(op):
    """operation on A -> the same operation on the mirror"""
    o = dict(op)
    if "lower" in o and "upper" in o:
        o["lower"], o["upper"] = -op["upper"], -op["lower"]
    if o["op"] == "collect":
        o["max0"], o["max1"] = op["max1"], op["max0"]
    if o["op"] == "swap":
        # token names: A: ta = quote, tb = base; B: ta = base, tb = quote
        sw = {"ta": "tb", "tb": "ta"}
        o["from"], o["to"] = sw[op["from"]], sw[op["to"]]
    if o.get("tick") is not None:
        o["tick"] = -op["tick"]
    return o


def close(a, b, tol, abs_tol=Fraction(0)):
    a, b = Fraction(a), Fraction(b)
    return abs(a - b) <= tol * max(abs(a), abs(b)) + abs_tol


def observe(w, mirrored):
    """base/quote-denominated observables of a world"""
    m, pool = w.market, w.pool
    obs = {"wallet_base": w.broker.assets[pool.base_token].balance, "wallet_quote": w.broker.assets[pool.quote_token].balance}
    try:
        bal = m.get_market_balance()
        obs.update(net_value=bal.net_value, liquidity_value=bal.liquidity_value, base_uncollected=bal.base_uncollected,
                   quote_uncollected=bal.quote_uncollected, base_in_position=bal.base_in_position, quote_in_position=bal.quote_in_position,
                   position_count=bal.position_count)
    except Exception as e:  # noqa: BLE001
        obs["balance_error"] = type(e).__name__
    pos = {}
    for k, p in m.positions.items():
        key = (-k.upper_tick, -k.lower_tick) if mirrored else (k.lower_tick, k.upper_tick)
        base_p, quote_p = (p.pending_amount1, p.pending_amount0) if pool.is_token0_quote else (p.pending_amount0, p.pending_amount1)
        st = m.get_position_status(k)
        sb, sq = (st.amount1, st.amount0) if pool.is_token0_quote else (st.amount0, st.amount1)
        pos[key] = {"liq": p.liquidity, "pending_base": base_p, "pending_quote": quote_p, "status_base": sb, "status_quote": sq, "value": st.value,
                    "liquidity_value": st.liquidity_value, "pending_value": st.pending_value, "H": st.H, "L": st.L, "P": st.P,
                    "lower_price": p.lower_price, "upper_price": p.upper_price}
    obs["positions"] = pos
    return obs


def compare_obs(ctx, P, oa, ob, what, rep, tol=TOL):
    unit_b, unit_q = Fraction(4, 10 ** P.db), Fraction(4, 10 ** P.dq)
    price = Fraction(P.A.price)
    unit_v = unit_b * price + unit_q
    bad = []
    kinds = {"wallet_base": unit_b, "wallet_quote": unit_q, "net_value": unit_v, "liquidity_value": unit_v, "base_uncollected": unit_b,
             "quote_uncollected": unit_q, "base_in_position": unit_b, "quote_in_position": unit_q}
    # a token amount that (nearly) vanishes in a position — price a fraction of a tick inside a bound — is L * (sqrtP - sqrt_bound): the kernels'
    # reciprocity error is amplified by the cancellation; like the per-position amounts below it is compared on the scale of the positions' value
    lv = max(abs(Fraction(oa.get("liquidity_value", 0))), abs(Fraction(ob.get("liquidity_value", 0))))
    scale_k = {"base_in_position": tol * lv / price if price else 0, "quote_in_position": tol * lv}
    for k, unit in kinds.items():
        if k in oa and k in ob:
            if not close(oa[k], ob[k], tol, unit + scale_k.get(k, 0)):
                bad.append(f"{k}: {oa[k]} vs {ob[k]}")
            ctx.dev(Fraction(oa[k]), Fraction(ob[k]))
    if oa.get("position_count") != ob.get("position_count") or oa.get("balance_error") != ob.get("balance_error"):
        bad.append(f"position_count/balance error: {oa.get('position_count')},{oa.get('balance_error')} vs {ob.get('position_count')},{ob.get('balance_error')}")
    if set(oa["positions"]) != set(ob["positions"]):
        ctx.violate(f"mirror.{what}.position-keys", f"{what}: the positions held are not mirror images: {sorted(oa['positions'])} on the token0=quote pool, "
                    f"{sorted(ob['positions'])} (mirrored back) on its mirror", rep)
        return False
    else:
        for key, pa in oa["positions"].items():
            pb = ob["positions"][key]
            # an amount that vanishes in one orientation (price exactly on a bound) is compared on the scale of the position
            scale_q = tol * max(abs(Fraction(pa["value"])), abs(Fraction(pb["value"])))
            scale = {"pending_base": scale_q / price if price else 0, "status_base": scale_q / price if price else 0, "pending_quote": scale_q, "status_quote": scale_q,
                     "liquidity_value": scale_q, "pending_value": scale_q}
            for f, unit in (("liq", Fraction(2)), ("pending_base", unit_b), ("pending_quote", unit_q), ("status_base", unit_b), ("status_quote", unit_q),
                            ("value", unit_v), ("liquidity_value", unit_v), ("pending_value", unit_v), ("H", 0), ("L", 0), ("P", 0),
                            ("lower_price", 0), ("upper_price", 0)):
                if not close(pa[f], pb[f], tol, Fraction(unit) + scale.get(f, 0)):
                    bad.append(f"position {key} {f}: {pa[f]} vs {pb[f]}")
    if bad:
        ctx.violate(f"mirror.{what}", f"{what}: token0=quote pool and its mirror differ: " + "; ".join(bad[:3]), rep)
    return not bad


def gen_op(rng, P):
    w = P.A
    pool, m, br = w.pool, w.market, w.broker
    sp = P.sp
    bb, qb = br.assets[pool.base_token].balance, br.assets[pool.quote_token].balance
    keys = list(m.positions.keys())
    c = (w.tick // sp) * sp

    def rng_range():
        a, b = rng.randint(1, 60) * sp, rng.randint(1, 60) * sp
        k = rng.random()
        if k < 0.5:
            return c - a, c + b, "inside"
        if k < 0.7:
            return c + a, c + a + b, "below"       # A's tick below the range
        if k < 0.9:
            return c - a - b, c - a, "above"
        return (c, c + b, "on-lower") if rng.random() < 0.5 else (c - a, c, "on-upper")

    def raw(t):
        """a raw (unaligned) tick for an entry point that trims: aligned, exactly half way between two usable ticks (the rounding tie:
        half-even is symmetric under negation, other tie rules are not), or anywhere in the cell"""
        k = rng.random()
        return t if k < 0.4 else (t + rng.choice((-1, 1)) * (sp // 2) if k < 0.75 else t + rng.randint(-sp + 1, sp - 1))

    def exec_price():
        """an explicit execution price: `tick=` (any raw tick, either sign; see also sentinel_script) or `sqrt_price_x96=` (of a tick)"""
        k = rng.random()
        if k < 0.7:
            return {}
        t = w.tick + rng.randint(-4 * sp, 4 * sp)
        return {"tick": t} if k < 0.88 else {"sqrt_tick": t}
    r = rng.random()
    if r < 0.22 or not keys:
        lo, up, reg = rng_range()
        op = {"op": "add_by_tick", "lower": raw(lo), "upper": raw(up), "base": U.offer(rng, bb), "quote": U.offer(rng, qb), "sqrt": None, "tick": None, "trim": True}
        op.update(exec_price())
        return op, reg + ("" if op["tick"] is None and "sqrt_tick" not in op else ":exec-price") + \
            (":raw" if (op["lower"] % sp or op["upper"] % sp) else "") + \
            (":tie" if (op["lower"] % sp == sp // 2 or op["upper"] % sp == sp // 2) else "")
    if r < 0.32:
        lo, up, reg = rng_range()
        # prices in the inner part of a spacing cell
        off = lambda: rng.randint(-(sp // 4), sp // 4)   # noqa: E731
        p1, p2 = m.tick_to_price(lo + off()), m.tick_to_price(up + off())
        return {"op": "add", "lower_price": min(p1, p2), "upper_price": max(p1, p2), "quote": U.offer(rng, qb), "base": U.offer(rng, bb)}, reg
    k = rng.choice(keys)
    reg = "below" if w.tick < k.lower_tick else ("above" if w.tick >= k.upper_tick else "inside")
    if r < 0.45:
        frac = rng.choice((None, Fraction(1, 2), Fraction(1, 3)))
        op = {"op": "remove", "lower": k.lower_tick, "upper": k.upper_tick, "liq": frac, "collect": rng.random() < 0.5, "sqrt": None, "remove_dry": True}
        if rng.random() < 0.15:
            op["sqrt_tick"] = w.tick + rng.randint(-4 * sp, 4 * sp)      # remove_liquidity(sqrt_price_x96=...), as Squeeth calls it
            reg += ":exec-price"
        return op, reg
    if r < 0.52:
        # caps relative to what is pending in each token, incl. exactly 0 ("collect only the other token") and a cap lying between the two
        c0, c1, ccls = U.collect_caps(rng, m.positions[k], exact=False)
        return {"op": "collect", "lower": k.lower_tick, "upper": k.upper_tick, "max0": c0, "max1": c1, "remove_dry": True, "to_user": True}, reg + ":" + ccls
    if r < 0.6:
        return {"op": "sell", "amount": bb * Decimal("0.1"), "price": None}, "-"
    if r < 0.68:
        return {"op": "buy", "amount": qb / w.price * Decimal("0.1"), "price": None}, "-"
    if r < 0.72:
        frm, to = ("ta", "tb") if rng.random() < 0.5 else ("tb", "ta")    # A: ta = quote
        a = (qb if frm == "ta" else bb) * Decimal("0.05")
        return {"op": "swap", "amount": a, "from": frm, "to": to, "price": None, "log": True}, "-"
    if r < 0.77:
        return {"op": "even_rebalance", "price": None}, "-"
    if r < 0.9:
        lo, up, reg = rng_range()
        lo, up = raw(lo), raw(up)
        return {"op": "add_by_value", "lower": lo, "upper": up, "value": (qb + bb * w.price) * Decimal(rng.choice(("0.1", "0.4", "0.8"))), "trim": True}, \
            reg + (":raw" if (lo % sp or up % sp) else "")
    return {"op": "bar", "tick": w.tick + rng.randint(-80, 80) * sp // 2}, "-"


def near_bound(w, lower, upper):
    """the market's integer sqrt price is within 1e-9 relative of the sqrt price of a range bound"""
    from demeter.uniswap.helper import base_unit_price_to_sqrt_price_x96 as p2s
    from demeter.uniswap.liquitidy_math import get_sqrt_ratio_at_tick as g
    pool = w.pool
    s = p2s(w.market.market_status.data.price, pool.token0.decimal, pool.token1.decimal, pool.is_token0_quote)
    return any(abs(s - b) * 10 ** 9 < b for b in (g(lower), g(upper)))


def bound_distance(w, lower, upper):
    """relative distance (in sqrt price) of the market's price from the nearer bound of [lower, upper]"""
    from demeter.uniswap.helper import base_unit_price_to_sqrt_price_x96 as p2s
    from demeter.uniswap.liquitidy_math import get_sqrt_ratio_at_tick as g
    pool = w.pool
    s = p2s(w.market.market_status.data.price, pool.token0.decimal, pool.token1.decimal, pool.is_token0_quote)
    return min(Fraction(abs(s - b), b) for b in (g(lower), g(upper)))


def conditioning_tol(P, op=None):
    """a price a fraction of a tick away from a range bound (only prices that are not on a tick get there): the amount on the vanishing side
    and, with one offered amount binding, the liquidity are quotients by (sqrtP - sqrt_bound); the ~1e-17 relative difference between the
    two orientations' sqrt prices (Decimal(10**-12) is a binary double) is amplified by 1/distance.  Tolerance 4e-17 / distance there."""
    rs = [(k.lower_tick, k.upper_tick) for k in P.A.market.positions]
    if op is not None and "lower" in op and "upper" in op and op["op"] != "collect":
        lo, up = op["lower"], op["upper"]
        if op.get("trim"):
            from demeter.uniswap.helper import nearest_usable_tick
            lo, up = sorted((nearest_usable_tick(lo, P.sp), nearest_usable_tick(up, P.sp)))
        rs.append((lo, up))
    try:
        d = min([bound_distance(P.A, lo, up) for lo, up in rs if lo < up], default=None)
    except AssertionError:
        return Fraction(0)
    if d is None or d == 0 or d >= Fraction(1, 10 ** 4):
        return Fraction(0)
    return Fraction(4, 10 ** 17) / d


def regime_flip(P, op):
    """price numerically on a range bound: which side it falls on (and, inside, how far from the bound) is decided by the kernels'
    reciprocity error of ~1e-17, and get_liquidity is ill-conditioned there (amount / (s - sqrt_bound))"""
    if op["op"] == "add" and "lower_price" in op:
        # the price-form add: each market derives its own (usable) ticks from the two quote prices, exactly as `add_liquidity` does
        from demeter.uniswap.core import V3CoreLib
        from demeter.uniswap.helper import nearest_usable_tick
        try:
            out = False
            for w in (P.A, P.B):
                lt, ut = V3CoreLib.quote_price_pair_to_tick(w.pool, op["lower_price"], op["upper_price"])
                lt, ut = sorted((nearest_usable_tick(lt, P.sp), nearest_usable_tick(ut, P.sp)))
                out = out or near_bound(w, lt, ut)
            return out
        except Exception:  # noqa: BLE001
            return False
    if "lower" not in op or "upper" not in op or op["op"] in ("collect",):
        return False
    lo, up = op["lower"], op["upper"]
    if op.get("trim"):
        from demeter.uniswap.helper import nearest_usable_tick
        lo, up = sorted((nearest_usable_tick(lo, P.sp), nearest_usable_tick(up, P.sp)))
    try:
        return near_bound(P.A, lo, up) or near_bound(P.B, -up, -lo)
    except AssertionError:
        return False


def price_ticks_aligned(P):
    """add_liquidity_by_value looks the token ratio up (and decides below / inside / above) at price_to_tick(price): the floor tick of the pool's own
    orientation rounded to the spacing.  When the two orientations' ticks are mirror images (the hypothesis of C09_add_by_value_one_sided_partial)
    the known finding's cause is absent, and the helper is held to the property; when they are one spacing apart it is the known finding."""
    try:
        pa, pb = P.A.market.market_status.data.price, P.B.market.market_status.data.price
        return P.A.market.price_to_tick(pa) == -P.B.market.price_to_tick(pb)
    except Exception:  # noqa: BLE001
        return True


def liq_granularity(P):
    """liquidity is an integer: one unit is 1/L of a position, so amounts cannot agree better than ~2/L (relevant below L = 2e12)"""
    ls = [int(p.liquidity) for w in (P.A, P.B) for p in w.market.positions.values() if p.liquidity > 0]
    return Fraction(2, min(ls)) if ls else Fraction(0)


def apply_both(P, op):
    if op["op"] == "bar":
        return None
    ob = mirror_op(op)
    oa = dict(op)
    if op["op"] == "remove" and op["liq"] is not None:
        from demeter.uniswap._typing import PositionInfo
        la = P.A.market.positions.get(PositionInfo(op["lower"], op["upper"]))
        lb = P.B.market.positions.get(PositionInfo(ob["lower"], ob["upper"]))
        oa["liq"] = int(Fraction(la.liquidity) * op["liq"]) if la else 1
        ob["liq"] = int(Fraction(lb.liquidity) * op["liq"]) if lb else 1
    if op.get("sqrt_tick") is not None:
        from demeter.uniswap.liquitidy_math import get_sqrt_ratio_at_tick
        oa["sqrt"], ob["sqrt"] = get_sqrt_ratio_at_tick(op["sqrt_tick"]), get_sqrt_ratio_at_tick(-op["sqrt_tick"])
    ra, rb = U.apply_op(P.A, oa), U.apply_op(P.B, ob)
    return ra, rb


DRV = []   # (request, implementation's answer, replay) for the model correspondence of the views


class ModelTieBroken(Exception):
    """the code no longer has the shape the model of the views is tied to (a helper the model takes as an oracle input is gone)"""


def view_req(w, name, value, l, u, impl, rep):
    try:
        from demeter.uniswap.helper import base_unit_price_to_real_tick, base_unit_price_to_sqrt_price_x96, _sqrt_price_to_tick, _from_x96
        from demeter.uniswap.liquitidy_math import estimate_ratio
    except ImportError as e:
        # the mirror comparison of the two implementations (the oracle) does not need the model: it goes on
        raise ModelTieBroken(str(e)) from None
    pool = w.pool
    price = w.market.market_status.data.price
    with U.guard("base_unit_price_to_real_tick/estimate_ratio/base_unit_price_to_sqrt_price_x96",
                 {"world": U.world_spec(w), "ops": [{"op": name, "value": fmt(value), "lower": l, "upper": u}]}):
        tr = base_unit_price_to_real_tick(price, pool.token0.decimal, pool.token1.decimal, pool.is_token0_quote)
        try:
            ra = Decimal(estimate_ratio(tr, l, u) * 10 ** (pool.token1.decimal - pool.token0.decimal))
        except Exception:  # noqa: BLE001
            ra = Decimal(0)
        sq = base_unit_price_to_sqrt_price_x96(price, pool.token0.decimal, pool.token1.decimal, pool.is_token0_quote)
        est = _sqrt_price_to_tick(_from_x96(sq)) if sq > 0 else 0
    fn = {"estimate_amount": "uni.estimateAmount", "estimate_liquidity": "uni.estimateLiquidity"}[name]
    return ({"fn": fn, "pool": U.pool_json(pool), "state": w.dump(), "value": fmt(value), "lower": str(l), "upper": str(u),
             "tick_real": fmt(Fraction(tr)), "ratio_amt": fmt(Fraction(ra)), "est": str(est)}, impl, rep)


def balance_req(w, rep):
    try:
        b = w.market.get_market_balance()
        impl = {"net_value": U.num(b.net_value), "liquidity_value": U.num(Decimal(b.liquidity_value)), "base_uncollected": U.num(Decimal(b.base_uncollected)),
                "quote_uncollected": U.num(Decimal(b.quote_uncollected)), "base_in_position": U.num(Decimal(b.base_in_position)),
                "quote_in_position": U.num(Decimal(b.quote_in_position)), "position_count": str(b.position_count)}
    except Exception as e:  # noqa: BLE001
        impl = type(e).__name__
    return ({"fn": "uni.balance", "pool": U.pool_json(w.pool), "state": w.dump()}, impl, rep)


def estimates(ctx, P, rng, rep, reg_tag):
    """estimate_amount / estimate_liquidity on both orientations (0.1 %)"""
    from demeter.uniswap._typing import PositionInfo
    sp, c = P.sp, (P.A.tick // P.sp) * P.sp
    a, b = rng.randint(1, 60) * sp, rng.randint(1, 60) * sp
    # the estimate helpers take any ticks (no spacing rule). "near": a bound d = 2..40 ticks from the price — the token ratio changes by
    # ~1/d per tick there, so evaluating it at a tick rounded in the pool's orientation (floor here is ceil in the mirror) shows.
    # A bound within one tick of the price is measured separately (estimate_edge_stream): there the floor tick decides the regime.
    t = P.A.tick
    d = rng.choice((2, 3, 5, 8, 13, 40))
    lo, up, reg = rng.choice(((c - a, c + b, "inside"), (c + a, c + a + b, "below"), (c - a - b, c - a, "above"),
                              (t - d, t + b, "inside-near-lower"), (t - a, t + 1 + d, "inside-near-upper")))
    if P.frac:
        reg += ":off-tick"
    value = Decimal(rng.randint(1, 10 ** 7)) / 100
    for name in ("estimate_liquidity", "estimate_amount"):
        res = []
        for w, (l, u) in ((P.A, (lo, up)), (P.B, (-up, -lo))):
            U.GUARDED[0] += 1
            try:
                with U.guard(name, {"world": U.world_spec(w), "ops": [{"op": name, "value": fmt(value), "lower": l, "upper": u}]}):
                    if name == "estimate_amount":
                        t0, t1 = w.market.estimate_amount(value, l, u)
                        liq = None
                    else:
                        liq, t0, t1 = w.market.estimate_liquidity(value, PositionInfo(l, u))
                base, quote = (t1, t0) if w.pool.is_token0_quote else (t0, t1)
                res.append((None, liq, Fraction(base), Fraction(quote)))
                impl = ([str(int(liq))] if liq is not None else []) + [U.num(Decimal(t0)), U.num(Decimal(t1))]
            except Exception as e:  # noqa: BLE001
                res.append((type(e).__name__, None, None, None))
                impl = type(e).__name__
            try:
                DRV.append(view_req(w, name, value, l, u, impl, rep))
            except ModelTieBroken as e:
                if not ctx.notes.get("view_model_tie_broken"):
                    ctx.disagree(f"{name}: the model's tie to the code is broken ({e}); estimate helpers are compared between the orientations only", rep)
                ctx.notes["view_model_tie_broken"] = ctx.notes.get("view_model_tie_broken", 0) + 1
        (ea, la, ba, qa), (eb, lb, bb, qb) = res
        ctx.case(f"{name}:{reg}:{P.dq}/{P.db}:{P.fee}:{ea or 'ok'}/{eb or 'ok'}")
        r2 = dict(rep, estimate={"fn": name, "value": fmt(value), "lower": lo, "upper": up})
        if ea != eb:
            if name == "estimate_amount" and {ea, eb} == {None, "DemeterError"}:
                ctx.count("estimate_amount_tick_on_edge")    # float tick estimate exactly on a bound in one orientation
                continue
            ctx.violate(f"mirror.{name}.{reg}.outcome", f"{name}(value={value}, [{lo},{up}]) {reg}: {ea or 'ok'} vs mirror {eb or 'ok'}", r2)
            continue
        if ea is not None:
            continue
        unit_b, unit_q = Fraction(4, 10 ** P.db), Fraction(4, 10 ** P.dq)
        bad = []
        if not close(ba, bb, TOL_EST, unit_b) or not close(qa, qb, TOL_EST, unit_q):
            bad.append(f"amounts (base {float(ba):.8g}, quote {float(qa):.8g}) vs mirror (base {float(bb):.8g}, quote {float(qb):.8g})")
        if la is not None and not close(la, lb, TOL_EST, 2):
            bad.append(f"liquidity {la} vs mirror {lb}")
        if bad:
            ctx.violate(f"mirror.{name}.{reg}", f"{name}(value={value}, range [{lo},{up}] in the token0=quote pool, price {reg} the range): " + "; ".join(bad), r2)


def run_sequence(ctx, rng, n_ops, spec=None, frac=None, tick=None, script=None, est_p=0.35):
    """`script`: a function (rng, P, i) -> (op, regime tag) | None replacing the random generator (directed streams)"""
    P = Pair(rng, *(spec or ()), frac=frac, **({} if tick is None else {"tick": tick}))
    rep = {"pair": P.spec, "ops": []}
    if not compare_obs(ctx, P, observe(P.A, False), observe(P.B, True), "initial", rep):
        return
    for i in range(n_ops):
        op, reg = (script(rng, P, i) if script else None) or gen_op(rng, P)
        if op["op"] == "bar" and P.frac:
            continue    # an off-tick pair has closeTick = floor tick in each orientation: the two tick paths are not mirror images
        if P.frac:
            reg += ":off-tick"
        opj = {k: (fmt(v) if isinstance(v, (Decimal, Fraction)) else v) for k, v in op.items()}
        rep = {"pair": P.spec, "ops": rep["ops"] + [opj]}
        if op["op"] == "bar":
            P.refresh(rng, op["tick"])
            outcome = "ok"
            if any(regime_flip(P, {"op": "x", "lower": k.lower_tick, "upper": k.upper_tick}) for k in P.A.market.positions):
                ctx.case(f"bar:boundary-regime-flip:{P.dq}/{P.db}:{P.fee}:skipped")
                ctx.count("boundary_regime_flip_skipped")
                return
        elif regime_flip(P, op) or any(regime_flip(P, {"op": "x", "lower": k.lower_tick, "upper": k.upper_tick}) for k in P.A.market.positions):
            # the price sits on a bound to within the kernels' reciprocity error (1e-17): which side it falls on is decided by one unit of
            # the integer sqrt price, and get_liquidity is discontinuous there when one offered amount is zero. Counted, not compared.
            ctx.case(f"{op['op']}:boundary-regime-flip:{P.dq}/{P.db}:{P.fee}:skipped")
            ctx.count("boundary_regime_flip_skipped")
            return
        else:
            # add_liquidity_by_value: the known findings are about price ticks that round differently in the two orientations; everything else
            # (aligned ticks) is reported under its own keys
            by_value_tag = ""
            if op["op"] == "add_by_value":
                by_value_tag = "" if not price_ticks_aligned(P) else ".ticks-aligned"
                reg += ":ticks-aligned" if by_value_tag else ":ticks-differ"
                if by_value_tag:
                    rep = dict(rep, aligned=True)
            (ea, ra), (eb, rb) = apply_both(P, op)
            outcome = f"{ea or 'ok'}"
            if any(regime_flip(P, {"op": "x", "lower": k.lower_tick, "upper": k.upper_tick}) for k in P.A.market.positions):
                ctx.case(f"{op['op']}:boundary-regime-flip:{P.dq}/{P.db}:{P.fee}:skipped")
                ctx.count("boundary_regime_flip_skipped")
                return
            if ea != eb:
                ctx.violate(f"mirror.{op['op']}.outcome{by_value_tag}", f"{op['op']} ({reg}): {ea or 'ok'} on the token0=quote pool, {eb or 'ok'} on its mirror", rep)
                return
            if ea is None and ra is not None:
                est = op["op"] == "add_by_value"
                ka = [Fraction(x) for x in ra]
                kb = [Fraction(x) for x in rb]
                if op["op"] in ("add_by_tick", "add", "add_by_value"):
                    kb = [-kb[1], -kb[0]] + kb[2:]
                tol = TOL_EST if est else max(TOL, liq_granularity(P), conditioning_tol(P, op))
                price = Fraction(P.A.price)
                is_add = op["op"] in ("add_by_tick", "add", "add_by_value")
                # [lower, upper, base, quote, liquidity] for adds, [base, quote] for remove/collect, fee-led triples for swaps:
                # token amounts are compared on the scale of the whole result (an amount that vanishes in one orientation)
                amts_a = ka[2:4] if is_add else ka
                amts_b = kb[2:4] if is_add else kb
                total = max(sum(abs(x) for x in amts_a), sum(abs(x) for x in amts_b)) if op["op"] in ("swap", "buy", "sell") else \
                    max(abs(amts_a[0]) * price + abs(amts_a[1]), abs(amts_b[0]) * price + abs(amts_b[1])) if len(amts_a) >= 2 else 0
                def abs_tol(i):
                    if is_add and i < 2:
                        return 0
                    if is_add and i == 4:
                        return 2
                    if op["op"] in ("swap", "buy", "sell"):
                        return Fraction(4, 10 ** min(P.db, P.dq))
                    j = i - 2 if is_add else i
                    return (Fraction(4, 10 ** P.db) + tol * total / price) if j == 0 else (Fraction(4, 10 ** P.dq) + tol * total)
                if is_add and ka[:2] != kb[:2]:
                    # the range a call settles on (trimmed to the spacing) must be the mirror image, exactly
                    ctx.violate(f"mirror.{op['op']}.range", f"{op['op']}(lower={op.get('lower', op.get('lower_price'))}, upper={op.get('upper', op.get('upper_price'))}) ({reg}) opened "
                                f"[{int(ka[0])},{int(ka[1])}] on the token0=quote pool but [{int(-kb[1])},{int(-kb[0])}] on its mirror "
                                f"(= [{int(kb[0])},{int(kb[1])}] seen from the first pool)", rep)
                    return
                bad = [i for i, (x, y) in enumerate(zip(ka, kb)) if not close(x, y, tol, abs_tol(i))]
                if bad:
                    ctx.violate(f"mirror.{op['op']}.result{by_value_tag}", f"{op['op']} ({reg}) returned {[float(x) for x in ka]} vs mirrored {[float(x) for x in kb]}", rep)
                    return
        ctx.case(f"{op['op']}:{reg}:{P.dq}/{P.db}:{P.fee}:{outcome}", rep if len(rep["ops"]) <= 2 else None)
        tol = TOL_EST if any(o["op"] == "add_by_value" for o in rep["ops"]) else max(TOL, liq_granularity(P), conditioning_tol(P))
        if conditioning_tol(P):
            ctx.count("price_within_a_tick_of_a_bound_compared_at_4e-17/distance")
        with U.guard("get_market_balance/get_position_status", {"world": U.world_spec(P.A), "ops": []}):
            oa, ob = observe(P.A, False), observe(P.B, True)
        if not compare_obs(ctx, P, oa, ob, f"state-after.{op['op']}" + (by_value_tag if op["op"] == "add_by_value" else ""), rep, tol):
            return
        if rng.random() < est_p:
            estimates(ctx, P, rng, rep, reg)
            DRV.append(balance_req(P.A, rep))
            DRV.append(balance_req(P.B, rep))


# ------------------------------------------------------------------------------------------ directed streams
SMALL_TICKS = (-1, 1, 0, -2, 2, -1, 1)


def sentinel_script(rng, P, i):
    """add_liquidity_by_tick with an explicit execution tick that an "argument not given" test could mistake for a sentinel (-1, 0, 1, ...):
    every integer in the tick range is a tick, and tick t on a pool is tick -t on its mirror (t = 1 <-> -1).  The market's own tick is
    several spacings away, so using the market price instead of the given tick shows in the amounts."""
    if i > 0 and rng.random() < 0.4:
        return None
    w, sp = P.A, P.sp
    br, pool = w.broker, w.pool
    bb, qb = br.assets[pool.base_token].balance, br.assets[pool.quote_token].balance
    k1, k2 = rng.randint(1, 8), rng.randint(1, 8)
    t = rng.choice(SMALL_TICKS + (sp // 2, -(sp // 2), sp, -sp))
    op = {"op": "add_by_tick", "lower": -k1 * sp, "upper": k2 * sp, "base": bb * Decimal(rng.choice(("0.1", "0.3"))),
          "quote": qb * Decimal(rng.choice(("0.1", "0.3"))), "sqrt": None, "tick": t, "trim": rng.random() < 0.5}
    kind = "tick"
    if rng.random() < 0.25:
        op["sqrt_tick"] = rng.choice((-1, 1, 0, 3 * sp, -3 * sp))     # sqrt_price_x96 given as well: it overrides `tick`
        kind = "tick+sqrt"
    return op, f"inside:explicit-{kind}:{'neg' if t < 0 else ('zero' if t == 0 else 'pos')}{'' if abs(t) > 1 else ':unit'}"


def tie_script(rng, P, i):
    """raw range ticks exactly half way between two usable ticks (spacing 10 / 60 / 200, either sign, either parity of the cell) through the
    entry points that trim: round-half-even is symmetric under negation, so the trimmed ranges must be exact mirror images"""
    w, sp = P.A, P.sp
    br, pool = w.broker, w.pool
    bb, qb = br.assets[pool.base_token].balance, br.assets[pool.quote_token].balance
    c = (w.tick // sp) * sp
    a, b = rng.randint(1, 30), rng.randint(1, 30)
    h = sp // 2
    lo, up = c - a * sp + rng.choice((h, -h)), c + b * sp + rng.choice((h, -h))
    if i % 3 == 2:
        lo = c - a * sp            # one aligned bound, one tie
    par = f"cell{(lo // sp) % 2}{(up // sp) % 2}"
    sign = "neg" if c < 0 else "pos"
    if i % 2 == 0:
        return {"op": "add_by_tick", "lower": lo, "upper": up, "base": bb * Decimal("0.2"), "quote": qb * Decimal("0.2"), "sqrt": None, "tick": None,
                "trim": True}, f"inside:tie:{sign}:{par}"
    return {"op": "add_by_value", "lower": lo, "upper": up, "value": (qb + bb * w.price) * Decimal("0.2"), "trim": True}, f"inside:tie:{sign}:{par}"


def directed_streams(ctx, rng):
    n = ctx.scale(1, 12)
    for fee in U.FEES:
        sp = int(Decimal(str(fee)) * 200)
        for spec in SPECS:
            for _ in range(n):
                # explicit small ticks; the market sits 3..6 spacings from tick 0, on either side
                run_sequence(ctx, rng, 3, spec=spec + (fee, rng.choice((-1, 1)) * rng.randint(3, 6) * sp), script=sentinel_script, est_p=0)
        for sign in (1, -1):
            for _ in range(3 * n):
                run_sequence(ctx, rng, 4, spec=rng.choice(SPECS) + (fee, sign * rng.randint(50, BAND // sp) * sp), script=tie_script, est_p=0)
    # prices that are not on a tick (a fractional tick): every helper that rounds the price to a tick in the pool's own orientation shows
    for _ in range(ctx.scale(120, 2500)):
        run_sequence(ctx, rng, rng.randint(1, 4), frac=Fraction(rng.choice((1, 2, 3, 5, 7, 8, 9)), 10), est_p=1)


def fee_bound_stream(ctx, rng):
    """fee accrual with the tick path touching a range bound (theorem C09_fee_mirror and its witness C09_fails_fee_mirror_on_lower_bound).
    `update_fee` uses the half-open range [lower, upper): negating ticks maps it to (-upper, -lower], so a tick that sits on a bound changes
    class in the mirror.  A *moving* path is unaffected (closed-interval overlap is symmetric: arriving on / leaving a bound must agree, held to
    the property); a tick *stationary* on a bound accrues the whole bar in one token order and nothing in the other — the known finding
    `mirror.fee.stationary-on-bound`.  The position is opened with the price well inside the range, then bars walk the tick."""
    def pend(P):
        oa, ob = observe(P.A, False), observe(P.B, True)
        out = []
        for k in sorted(oa["positions"]):
            a, b = oa["positions"][k], ob["positions"].get(k)
            if b is None:
                return None
            out.append(((Fraction(a["pending_base"]), Fraction(a["pending_quote"])), (Fraction(b["pending_base"]), Fraction(b["pending_quote"]))))
        return out

    def same(P, before, after):
        """fee increments of the bar agree between the two orientations"""
        tol = max(TOL, liq_granularity(P))
        for (a0, b0), (a1, b1) in zip(before, after):
            for i in (0, 1):
                if not close(a1[i] - a0[i], b1[i] - b0[i], tol, Fraction(1, 10 ** 30)):
                    return False
        return True

    for fee in U.FEES:
        sp = int(Decimal(str(fee)) * 200)
        for spec in SPECS:
            for bound in ("lower", "upper"):
                for _ in range(ctx.scale(1, 6)):
                    width = rng.randint(4, 40) * sp
                    lo = rng.randint(-BAND // sp, BAND // sp - 41) * sp
                    up = lo + width
                    t_in = lo + (width // sp // 2) * sp
                    tb = lo if bound == "lower" else up
                    t_out = lo - rng.randint(1, 5) * sp if bound == "lower" else up + rng.randint(1, 5) * sp
                    P = Pair(rng, *spec, fee, t_in)
                    w = P.A
                    bb, qb = w.broker.assets[w.pool.base_token].balance, w.broker.assets[w.pool.quote_token].balance
                    op = {"op": "add_by_tick", "lower": lo, "upper": up, "base": bb * Decimal("0.2"), "quote": qb * Decimal("0.2"), "sqrt": None, "tick": None,
                          "trim": True}
                    rep = {"pair": P.spec, "ops": [{k: (fmt(v) if isinstance(v, (Decimal, Fraction)) else v) for k, v in op.items()}], "fee_bound": True}
                    (ea, _), (eb, _) = apply_both(P, op)
                    if ea or eb or not P.A.market.positions:
                        ctx.case(f"fee-bound:{bound}:{P.dq}/{P.db}:{fee}:add-rejected")
                        continue
                    # inside -> onto the bound (moving), stay on it (stationary: the finding), off it to the outside (moving), back onto it from
                    # outside (moving), stay (stationary again, now entered from outside), back inside (moving)
                    for tick, kind in ((tb, "arrive-from-inside"), (tb, "stationary"), (t_out, "leave-to-outside"), (tb, "arrive-from-outside"),
                                       (tb, "stationary"), (t_in, "leave-to-inside")):
                        before = pend(P)
                        P.refresh(rng, tick)
                        after = pend(P)
                        rep = {"pair": P.spec, "ops": rep["ops"] + [{"op": "bar", "tick": tick}], "fee_bound": True}
                        if before is None or after is None:
                            break
                        moved = any(a1 != a0 or b1 != b0 for (a0, b0), (a1, b1) in zip(before, after))
                        ok = same(P, before, after)
                        ctx.case(f"fee-bound:{bound}:{kind}:{P.dq}/{P.db}:{fee}:{'accrued' if moved else 'nothing'}:{'same' if ok else 'differs'}")
                        if ok:
                            continue
                        inc_a = [[float(a1[i] - a0[i]) for i in (0, 1)] for (a0, _), (a1, _) in zip(before, after)]
                        inc_b = [[float(b1[i] - b0[i]) for i in (0, 1)] for (_, b0), (_, b1) in zip(before, after)]
                        if kind == "stationary":
                            ctx.violate("mirror.fee.stationary-on-bound", f"fee accrual with the tick stationary on the {bound} bound {tb} of [{lo},{up}] "
                                        f"(token0=quote pool; mirror: tick {-tb} on [{-up},{-lo}]): bar increments (base, quote) {inc_a} vs mirror {inc_b}", rep)
                        else:
                            ctx.violate(f"mirror.fee.{kind}", f"fee accrual of a bar whose tick path {kind} ({bound} bound {tb} of [{lo},{up}]) differs between "
                                        f"the token0=quote pool and its mirror: increments (base, quote) {inc_a} vs {inc_b}", rep)


def estimate_edge_stream(ctx, rng, n):
    """estimate_liquidity / estimate_amount with a range bound within one tick of a price that is not on a tick: estimate_liquidity decides
    below / inside / above by the floor tick of the pool's own orientation (`current_tick <= lower_tick` is "below"), which is not
    mirror-symmetric there: with the price f ticks above the lower bound one orientation answers "all token0", the other "inside".
    The difference is at most (1 tick / range width) of the value.  Measured, not compared (ASSUMPTIONS)."""
    from demeter.uniswap._typing import PositionInfo
    diff = tot = 0
    for _ in range(n):
        P = Pair(rng, frac=Fraction(rng.choice((2, 5, 8)), 10))
        t, b = P.A.tick, rng.randint(2, 60) * P.sp
        lo, up = rng.choice(((t, t + b), (t - 1, t + b), (t - b, t + 1), (t - b, t + 2)))
        value = Decimal(rng.randint(1, 10 ** 7)) / 100
        res = []
        for w, (l, u) in ((P.A, (lo, up)), (P.B, (-up, -lo))):
            try:
                with U.guard("estimate_liquidity"):
                    liq, t0, t1 = w.market.estimate_liquidity(value, PositionInfo(l, u))
                base, quote = (t1, t0) if w.pool.is_token0_quote else (t0, t1)
                res.append((Fraction(base) * Fraction(P.A.price), Fraction(quote)))
            except Exception as e:  # noqa: BLE001
                res.append(type(e).__name__)
        tot += 1
        if isinstance(res[0], str) or isinstance(res[1], str):
            diff += res[0] != res[1]
        elif any(abs(x - y) > TOL_EST * Fraction(value) for x, y in zip(*res)):
            diff += 1
        ctx.case(f"estimate_liquidity:bound-within-a-tick:{P.dq}/{P.db}:{P.fee}:measured")
    ctx.note("estimate_bound_within_a_tick_differs", f"{diff}/{tot} (price not on a tick, a range bound within one tick of it: the floor tick of the pool's "
             f"orientation decides the regime in estimate_liquidity; measured, outside the compared stream)")


def midpoint_stream(ctx, rng, n):
    """prices whose tick lies on the midpoint of a spacing cell: the float floor in pool orientation may round differently"""
    diff = 0
    for _ in range(n):
        P = Pair(rng)
        sp, c = P.sp, (P.A.tick // P.sp) * P.sp
        lo, up = c - rng.randint(1, 30) * sp - sp // 2, c + rng.randint(1, 30) * sp + sp // 2
        p1, p2 = P.A.market.tick_to_price(lo), P.A.market.tick_to_price(up)
        op = {"op": "add", "lower_price": min(p1, p2), "upper_price": max(p1, p2), "quote": Decimal(1), "base": Decimal(1)}
        (ea, ra), (eb, rb) = apply_both(P, op)
        if ea is None and eb is None:
            if (int(ra[0]), int(ra[1])) != (-int(rb[1]), -int(rb[0])):
                diff += 1
        ctx.case(f"add:midpoint-price:{P.dq}/{P.db}:{P.fee}:{ea or 'ok'}")
    ctx.note("midpoint_price_range_differs", f"{diff}/{n} (range bounds given as prices exactly between two usable ticks: rounding to the spacing depends on the orientation; measured, outside the compared stream)")


def run(ctx: Ctx):
    U.cap_violations(ctx)
    rng = ctx.rng
    for i in range(ctx.scale(600, 12000)):
        run_sequence(ctx, rng, rng.randint(2, 9))
    directed_streams(ctx, rng)
    fee_bound_stream(ctx, rng)
    estimate_edge_stream(ctx, rng, ctx.scale(60, 1500))
    midpoint_stream(ctx, rng, ctx.scale(40, 1000))
    ctx.impl_traces = ctx.evaluations
    # the views of both orientations against the model (bit-exact: the driver runs the 35-digit Decimal semantics)
    if ctx.driver_ok and DRV:
        out = driver_json([r[0] for r in DRV])
        for (req, impl, rep), o in zip(DRV, out):
            if "ok" in o:
                d = U.diff_json(impl, o["ok"]) if not isinstance(impl, str) else f"impl raised {impl}, model ok"
            elif "error" in o and not str(o["error"]).startswith("ERR") and isinstance(impl, str):
                d = None if o["error"] == impl else f"impl raised {impl}, model {o['error']}"
            else:
                d = f"impl {impl if isinstance(impl, str) else 'ok'}, model {o.get('error')}"
            if d:
                ctx.disagree(f"{req['fn']} ({'token0=quote' if req['pool']['q0'] else 'mirror'}): {d}", rep)
            ctx.count("views_checked_against_model")
    DRV.clear()
    U.report_process_state(ctx)


def replay(ctx: Ctx, case) -> bool:
    import random
    if isinstance(case, dict) and case.get("kind") == "process-state":
        return U.replay_process_state(case)
    sub = Ctx(ctx.prop, ctx.tier, ctx.seed, False)
    U.cap_violations(sub)
    rng = random.Random(3)
    ps = case["pair"]
    P = Pair(rng, ps["dq"], ps["db"], ps["fee"], ps["tick"], frac=Fraction(ps["frac"]) if ps.get("frac") else None, restore=ps if "liq" in ps else None)
    DEC = ("base", "quote", "amount", "price", "value", "max0", "max1", "lower_price", "upper_price")
    rep = {"pair": P.spec, "ops": []}
    for opj in case["ops"]:
        op = {k: (Decimal(v) if k in DEC and v is not None else v) for k, v in opj.items()}
        if op["op"] == "remove" and op["liq"] is not None:
            op["liq"] = Fraction(op["liq"])
        held_flip = lambda: any(regime_flip(P, {"op": "x", "lower": k.lower_tick, "upper": k.upper_tick})   # noqa: E731
                                for w_ in (P.A,) for k in w_.market.positions)
        if op["op"] == "bar":
            P.refresh(rng, op["tick"])
            if held_flip() and not case.get("fee_bound"):
                print("   price numerically on a range bound after the bar: counted, not compared (ASSUMPTIONS)")
                return not sub.violations
        else:
            if regime_flip(P, op) or held_flip():
                # the same policy as run_sequence: a price within 1e-9 (in sqrt price) of a range bound is counted, not compared
                print("   price numerically on a range bound: counted, not compared (ASSUMPTIONS)")
                return not sub.violations
            (ea, ra), (eb, rb) = apply_both(P, op)
            if held_flip():
                print("   price numerically on a range bound: counted, not compared (ASSUMPTIONS)")
                return not sub.violations
            if ea != eb:
                print("   outcome", ea, eb)
                return False
        compare_obs(sub, P, observe(P.A, False), observe(P.B, True), f"state-after.{op['op']}", rep, TOL_EST if any(o["op"] == "add_by_value" for o in case["ops"]) else TOL)
    if "estimate" in case:
        from demeter.uniswap._typing import PositionInfo
        e = case["estimate"]
        out = []
        for w, (l, u) in ((P.A, (e["lower"], e["upper"])), (P.B, (-e["upper"], -e["lower"]))):
            try:
                if e["fn"] == "estimate_amount":
                    t0, t1 = w.market.estimate_amount(Decimal(e["value"]), l, u)
                    liq = 0
                else:
                    liq, t0, t1 = w.market.estimate_liquidity(Decimal(e["value"]), PositionInfo(l, u))
                base, quote = (t1, t0) if w.pool.is_token0_quote else (t0, t1)
                out.append((liq, Fraction(base), Fraction(quote)))
            except Exception as ex:  # noqa: BLE001
                out.append((type(ex).__name__,))
        if len(out[0]) != len(out[1]) or (len(out[0]) == 3 and not (close(out[0][0], out[1][0], TOL_EST, 2) and close(out[0][1], out[1][1], TOL_EST, Fraction(4, 10 ** P.db))
                                                                   and close(out[0][2], out[1][2], TOL_EST, Fraction(4, 10 ** P.dq)))):
            print("   estimate differs:", [tuple(float(x) if isinstance(x, Fraction) else x for x in o) for o in out])
            return False
    for v in sub.violations:
        print("  ", v["key"], v["what"][:300])
    return not sub.violations
