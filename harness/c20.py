"""C20 — performance metrics equal their definitions (demeter/result/metrics/calculator.py, core.py).

Oracle: every metric the real functions return is recomputed from the same float inputs with exact `Fraction`
arithmetic straight from its definition (max drawdown = max over i<=j of (x_i - x_j)/x_i, telescoping products,
sample variance with n-1, covariance ratio) — sqrt and pow are the only float operations of the oracle.
Correspondence: the same inputs (the floats' exact binary values) go to the Lean model (driver_metrics), whose
answers (exact rationals, sqrt/pow through Lean Float) are compared with the implementation at 1e-9 relative.
"""
from __future__ import annotations

import math
import warnings
from decimal import Decimal
from fractions import Fraction

from common import Ctx, driver_json, frac_str

PROPERTY = "C20"
LEAN_MODULES = ["Proofs.C20", "Proofs.C20.Returns", "Proofs.C20.Stats", "Proofs.C20.Perf"]
DRIVERS = ["driver_metrics"]
RULE = ("positive net-value series of length 2..2000 (1..3 and empty in the malformed stream) from nine shape generators (random walk, rising, "
        "falling, constant, V, late-peak where the largest absolute and the largest relative decline differ, two-scale, ties on a coarse "
        "grid, integers), six sampling intervals (1 min .. 7 d), benchmarks, plus a malformed stream (zeros, negatives, zero duration/interval, "
        "length mismatch, an index with coinciding / decreasing stamps); performance_metrics is called with rf given, rf = 0 and rf left to its default, with and "
        "without benchmark, on regular (date_range) and irregular (random increasing gaps) indexes; fixed cases where the APR's pow overflows (minute index) "
        "while beta stays finite; bucket = (function, shape, length class, outcome class, where the drawdown sits / which input form / index kind, rf kind)")
TRUSTED = [
    "theorems are about the exact-rational semantics of the formulas and of the max-drawdown scan; float rounding of numpy/pandas is measured "
    "(1e-9 relative against the exact model fed with the floats' exact values), not proved",
    "sqrt and pow are oracle parameters in the theorems; the driver evaluates them with Lean Float (libm pow, IEEE sqrt)",
    "pandas Series.std/pct_change/shift/prod and numpy.cov are assumed to implement their documented formulas (the oracle recomputes them "
    "from the definitions on every case)",
    "beta is recomputed (covariance ratio, exact) and compared whenever both return variances are non-degenerate, also when an APR overflows; alpha only "
    "when both APRs are finite (otherwise it must be nan/inf)",
    "tolerances: 1e-9 relative; for quantities formed by a cancelling subtraction (rate = multiple - 1, total return and APR = gross - 1, Sharpe "
    "numerator, alpha) 1e-9 of the operands' magnitude (1 for returns); series whose return variance is below 1e-12 of the squared mean are compared by outcome class only",
]
ASSUMPTIONS = ["net values are positive finite floats (the property's domain); zeros/negatives are exercised only for the outcome class",
               "durations and intervals are Python floats, net values numpy float64, as inside performance_metrics"]

TOL = Fraction(1, 10 ** 9)
INTERVALS = [("1min", 60), ("5min", 300), ("1h", 3600), ("4h", 14400), ("1D", 86400), ("7D", 7 * 86400)]


# ------------------------------------------------------------------------------------------ helpers
def F(x) -> Fraction:
    return Fraction(x)


def fs(x) -> str:
    return frac_str(Fraction(x))


def close(a, b, scale=0) -> bool:
    a, b = Fraction(a), Fraction(b)
    if a == b:
        return True
    return abs(a - b) <= TOL * max(abs(a), abs(b), Fraction(scale))


def fin(x) -> bool:
    try:
        return math.isfinite(x)
    except (TypeError, OverflowError):
        return False


def call(f, *a, **k):
    """-> ("ok", value) | ("nonfinite", value) | (ExceptionClassName, None)"""
    import numpy as np
    with warnings.catch_warnings():
        warnings.simplefilter("ignore")
        with np.errstate(all="ignore"):
            try:
                v = f(*a, **k)
            except Exception as e:  # noqa: BLE001
                return type(e).__name__, None
    if v is None:
        return "None", None
    if isinstance(v, tuple):
        return ("ok" if all(fin(float(t)) for t in v) else "nonfinite"), tuple(float(t) for t in v)
    if isinstance(v, complex):
        return "nonfinite", None
    v = float(v)
    return ("ok" if fin(v) else "nonfinite"), v


def lenclass(n):
    return "0" if n == 0 else "1" if n == 1 else "2" if n == 2 else "3-9" if n < 10 else "10-99" if n < 100 else "100-999" if n < 1000 else "1000+"


# ------------------------------------------------------------------------------------------ generators
SHAPES = ["walk", "rising", "falling", "constant", "vshape", "latepeak", "twoscale", "grid", "ints"]


def gen_series(rng, shape, n, sigma=0.05):
    x = rng.choice([1.0, 100.0, 20000.0, 0.003, 3.7e6, 1.0, 100.0, 2e-9, 5e-14, 8e11]) * (0.5 + rng.random())
    out = []
    if shape == "walk":
        for _ in range(n):
            out.append(x)
            x *= math.exp(rng.gauss(0, sigma))
    elif shape == "rising":
        for _ in range(n):
            out.append(x)
            x *= 1 + abs(rng.gauss(0, sigma)) * (rng.random() < 0.8)
    elif shape == "falling":
        for _ in range(n):
            out.append(x)
            x *= 1 - min(0.9, abs(rng.gauss(0, sigma))) * (rng.random() < 0.8)
    elif shape == "constant":
        out = [x] * n
    elif shape == "vshape":
        k = rng.randrange(n) if n else 0
        for i in range(n):
            out.append(x)
            x *= (1 - min(0.9, abs(rng.gauss(0, sigma)))) if i < k else (1 + abs(rng.gauss(0, sigma)))
    elif shape == "latepeak":
        # an early crash of large relative size at a small level, then growth to a high level and a shallow decline there:
        # the largest absolute decline is late, the largest relative one early (or the other way round)
        lvl2 = x * rng.choice([20, 100, 1000])
        early, late = rng.uniform(0.2, 0.7), rng.uniform(0.05, 0.6)
        body = [x, x * (1 - early), lvl2, lvl2 * (1 - late)]
        while len(body) < n:
            i = rng.randrange(1, len(body) + 1)
            lo, hi = body[i - 1], body[i] if i < len(body) else body[i - 1]
            body.insert(i, rng.uniform(min(lo, hi), max(lo, hi)))
        out = body[:max(n, 0)] if n >= 4 else body[:n]
    elif shape == "twoscale":
        for i in range(n):
            out.append(x * (1000 if (i * 3) // max(n, 1) == 1 else 1))
            x *= math.exp(rng.gauss(0, sigma))
    elif shape == "grid":
        out = [float(rng.randint(1, 12)) / 4 for _ in range(n)]
    elif shape == "ints":
        out = [float(rng.randint(1, 1000)) for _ in range(n)]
    return [float(v) for v in out]


def gen_len(rng, thorough):
    r = rng.random()
    if r < 0.25:
        return rng.randint(2, 5)
    if r < 0.75:
        return rng.randint(6, 40)
    if r < 0.97:
        return rng.randint(41, 300)
    return rng.randint(301, 2000) if thorough else rng.randint(301, 600)


# ------------------------------------------------------------------------------------------ exact definitions
def mdd_def(xs):
    """largest relative decline from any point to any later point, exact.  Up to 60 points: all pairs i <= j.  Longer: for each i the
    lowest later value (suffix minimum; floats order exactly like their rational values), which is the same maximum for positive x_i."""
    fx = [Fraction(v) for v in xs]
    n = len(fx)
    best, bi, bj = Fraction(0), 0, 0
    if n <= 60:
        for i in range(n):
            for j in range(i, n):
                d = (fx[i] - fx[j]) / fx[i]
                if d > best:
                    best, bi, bj = d, i, j
        return best, bi, bj
    suf = [0] * n
    for i in range(n - 1, -1, -1):
        suf[i] = i if i == n - 1 or xs[i] <= xs[suf[i + 1]] else suf[i + 1]
    for i in range(n):
        j = suf[i]
        if xs[j] < xs[i]:
            d = (fx[i] - fx[j]) / fx[i]
            if d > best:
                best, bi, bj = d, i, j
    return best, bi, bj


def abs_decl_pair(xs):
    """where the largest absolute decline sits (to bucket cases where it differs from the relative one)"""
    best, bi, bj = None, 0, 0
    peak, pi = xs[0], 0
    for j in range(1, len(xs)):
        if xs[j - 1] > peak:
            peak, pi = xs[j - 1], j - 1
        d = peak - xs[j]
        if best is None or d > best:
            best, bi, bj = d, pi, j
    return bi, bj


_MEMO = {}


def _memo(key, f):
    if key not in _MEMO:
        if len(_MEMO) > 64:
            _MEMO.clear()
        _MEMO[key] = f()
    return _MEMO[key]


def svar(fr):
    def go():
        n = len(fr)
        m = sum(fr) / n
        return sum((v - m) ** 2 for v in fr) / (n - 1)
    return _memo(("var", tuple(fr)), go)


def scov(a, b):
    def go():
        n = len(a)
        ma, mb = sum(a) / n, sum(b) / n
        return sum((x - ma) * (y - mb) for x, y in zip(a, b)) / (n - 1)
    return _memo(("cov", tuple(a), tuple(b)), go)


def fsqrt(q: Fraction) -> float:
    return math.sqrt(float(q))


def fpow(b: Fraction, e: Fraction):
    try:
        return math.pow(float(b), float(e))
    except (OverflowError, ValueError):
        return float("inf")


def scales(xs, bs, interval_d, d, rf):
    """magnitudes against which the cancelling quantities are compared, per field; None when a return variance is degenerate.  A field is
    missing when an APR it is formed from overflows (annualized, sharpe, alpha / benchApr, alpha); volatility and beta never depend on an
    APR, so they are present whenever the variances are not degenerate"""
    fx = [Fraction(v) for v in xs]
    p = [fx[k] / fx[k - 1] for k in range(1, len(fx))]
    if degenerate(p):
        return None
    e = Fraction(365) / Fraction(d)
    vol = fsqrt(svar(p)) * fsqrt(Fraction(365) / Fraction(interval_d))
    apy_p = fpow(fx[-1] / fx[0], e) - 1
    out = {"mdd": 0, "volatility": 0, "returnRate": 1, "benchRate": 1}
    if fin(apy_p):
        out.update({"annualized": 1 + abs(apy_p), "sharpe": (1 + abs(apy_p) + abs(rf)) / vol})
    if bs is not None:
        fb = [Fraction(v) for v in bs]
        q = [fb[k] / fb[k - 1] for k in range(1, len(fb))]
        if degenerate(q):
            return None
        apy_b = fpow(fb[-1] / fb[0], e) - 1
        sc = fsqrt(svar(p) / svar(q))
        beta = abs(float(scov(p, q) / svar(q)))
        out["beta"] = sc
        if fin(apy_b):
            out["benchApr"] = 1 + abs(apy_b)
        if fin(apy_p) and fin(apy_b):
            out["alpha"] = (1 + abs(apy_p)) + (beta + sc) * (1 + abs(apy_b))
    return out


# ------------------------------------------------------------------------------------------ the checks (one per function group)
class Batch:
    def __init__(self):
        self.reqs = []
        self.handlers = []

    def add(self, req, handler):
        self.reqs.append(req)
        self.handlers.append(handler)


def check_mdd(ctx, case, batch):
    import pandas as pd
    from demeter.result.metrics.calculator import max_draw_down, _withdraw_with_high_low
    xs = [float(v) for v in case["xs"]]
    shape = case.get("shape", "replay")
    oc, val = call(max_draw_down, pd.Series(xs, dtype=float))
    positive = len(xs) > 0 and all(v > 0 for v in xs)
    tag = f"mdd:{shape}:{lenclass(len(xs))}:{oc}"
    hl = None
    if positive:
        spec, si, sj = mdd_def(xs)
        nondecr = all(a <= b for a, b in zip(xs, xs[1:]))
        ai, aj = abs_decl_pair(xs) if len(xs) > 1 else (0, 0)
        where = "flat" if spec == 0 else ("abs=rel" if (ai, aj) == (si, sj) else "abs!=rel")
        tag += ":" + where
        if oc != "ok":
            ctx.violate("max_draw_down.raises", f"max_draw_down({xs[:8]}…) -> {oc} on a positive series", case)
        else:
            if nondecr and val != 0:
                ctx.violate("max_draw_down.nonfalling-nonzero", f"max_draw_down({xs[:8]}) = {val!r} on a never-falling series (definition: 0)", case)
            if not (0 <= val <= 1):
                ctx.violate("max_draw_down.range", f"max_draw_down({xs[:8]}) = {val!r} is outside [0, 1]", case)
            if not nondecr and not close(val, spec):
                ctx.violate("max_draw_down.not-relative-max",
                            f"max_draw_down({xs[:8]}) = {val!r}, largest relative decline is {float(spec)!r} (x[{si}]={xs[si]} -> x[{sj}]={xs[sj]})", case)
            ctx.dev(Fraction(val), spec)
            # any positive factor; a power of two rescales every float exactly, so the result must not move by a single bit — from 2^-100
            # (values of 1e-30: an account quoted in a very dear token) to 2^100
            k1, k2 = ctx.rng.randint(-100, -10), ctx.rng.randint(10, 100)
            for c in (2.0, 0.001, 12345.678, 2.0 ** k1, 2.0 ** k2, 1e-10):
                oc2, v2 = call(max_draw_down, pd.Series([v * c for v in xs], dtype=float))
                if oc2 != "ok" or not close(v2, val, 1e-300) or (c in (2.0, 2.0 ** k1, 2.0 ** k2) and v2 != val):
                    ctx.violate("max_draw_down.scale", f"max_draw_down changes from {val!r} to {v2!r} when the series {xs[:8]} is multiplied by {c}", case)
        g, h, l = _withdraw_with_high_low(list(xs))
        hl = (h, l)
    ctx.case(tag, case)

    def handler(ans):
        code = ans["code"]
        if code["outcome"] != oc:
            ctx.disagree(f"mdd outcome: impl {oc} model {code['outcome']}", case)
            return
        if oc == "ok" and not close(val, Fraction(code["value"])):
            ctx.disagree(f"mdd value: impl {val!r} model {code['value']}", case)
        if positive and hl is not None and (int(ans["high"]), int(ans["low"])) != hl:
            # float rounding may pick another pair whose relative decline is equal to 1 ulp
            fx = [Fraction(v) for v in xs]
            mine = (fx[hl[0]] - fx[hl[1]]) / fx[hl[0]]
            if close(mine, Fraction(ans["g"])):
                ctx.count("mdd_argmax_rounding_ties")
            else:
                ctx.disagree(f"mdd indices: impl {hl} model {(ans['high'], ans['low'])}", case)
        if positive and "spec" in ans and (Fraction(ans["spec"]) != Fraction(code.get("value", "0")) or Fraction(ans["peak"]) != Fraction(ans["spec"])):
            ctx.disagree(f"model: mddCode {code} spec {ans['spec']} peak-form {ans['peak']} differ", case)
    batch.add({"fn": "mdd", "xs": [fs(v) for v in xs], "spec": len(xs) <= 100}, handler)


def check_returns(ctx, case, batch):
    """total return and annualised return across the input forms; return series against the definition"""
    import numpy as np
    import pandas as pd
    from demeter.result.metrics.calculator import (return_rate, return_value, return_multiple, return_rate_series, annualized_return)
    xs = [float(v) for v in case["xs"]]
    d = float(case["d"])
    shape = case.get("shape", "replay")
    s = pd.Series(xs, dtype=float)
    fx = [Fraction(v) for v in xs]
    positive = len(xs) > 0 and all(v > 0 for v in xs)
    mult = [float(v) for v in return_multiple(s)]
    rates = [float(v) for v in return_rate_series(s)]
    ok = True
    if positive:
        # return series = definition
        for k in range(len(xs)):
            m_def = Fraction(1) if k == 0 else fx[k] / fx[k - 1]
            r_def = Fraction(0) if k == 0 else (fx[k] - fx[k - 1]) / fx[k - 1]
            if not close(mult[k], m_def):
                ctx.violate("return_multiple.def", f"return_multiple[{k}] = {mult[k]!r}, definition {float(m_def)!r}", case)
                ok = False
                break
            if not close(rates[k], r_def, 1 + abs(r_def)):
                ctx.violate("return_rate_series.def", f"return_rate_series[{k}] = {rates[k]!r}, definition {float(r_def)!r}", case)
                ok = False
                break
        gross = fx[-1] / fx[0]
        # total return, three forms
        oc_e, tot_e = call(return_rate, np.float64(xs[0]), np.float64(xs[-1]))
        tot_n = float(pd.Series(mult).prod()) - 1
        tot_r = float((pd.Series(rates) + 1).prod()) - 1
        if oc_e != "ok" or not (close(tot_e, gross - 1, 1) and close(tot_n, gross - 1, 1) and close(tot_r, gross - 1, 1)):
            ctx.violate("total_return.forms", f"total return by end points {tot_e!r}, by multiples {tot_n!r}, by rates {tot_r!r}, definition {float(gross - 1)!r}", case)
            ok = False
        if float(return_value(xs[0], xs[-1])) != xs[-1] - xs[0]:
            ctx.violate("return_value.def", "return_value != final - init", case)
    forms = {}
    for it in ("compound", "single"):
        forms[(it, "endpoints")] = call(annualized_return, d, np.float64(xs[0]) if xs else None, np.float64(xs[-1]) if xs else None, interest_type=it)
        forms[(it, "nets")] = call(annualized_return, d, net_values=s, interest_type=it)
        forms[(it, "rates")] = call(annualized_return, d, return_rates=pd.Series(rates, dtype=float), interest_type=it)
    if positive and d > 0:
        e = Fraction(365) / Fraction(d)
        want_c = fpow(gross, e) - 1
        want_s = float((fx[-1] - fx[0]) / fx[0] / (Fraction(d) / 365))
        cls = "ok" if fin(want_c) else "nonfinite"
        for form in ("endpoints", "nets", "rates"):
            oc, v = forms[("compound", form)]
            if oc != cls or (oc == "ok" and not close(v, Fraction(want_c), 1)):
                ctx.violate("annualized_return.forms", f"compound annualised return via {form} = {oc} {v!r}, direct (last/first)**(365/d)-1 = {want_c!r}", case)
                ok = False
        for form in ("endpoints", "nets"):
            oc, v = forms[("single", form)]
            if oc != "ok" or not close(v, Fraction(want_s), Fraction(365) / Fraction(d)):
                ctx.violate("annualized_return.forms", f"single-interest annualised return via {form} = {oc} {v!r}, direct {want_s!r}", case)
                ok = False
        if forms[("single", "rates")][0] != "DemeterError":
            ctx.violate("annualized_return.single-rates", "single interest with a return-rate series did not raise DemeterError", case)
    ctx.case(f"returns:{shape}:{lenclass(len(xs))}:{case.get('dk', '')}:{forms[('compound', 'nets')][0]}:{'ok' if ok else 'bad'}", case)

    def h_returns(ans):
        if len(ans["multiple"]) != len(mult) or len(ans["rates"]) != len(rates):
            ctx.disagree("returns: series lengths differ", case)
            return
        for k in range(len(mult)):
            if not close(mult[k], Fraction(ans["multiple"][k])) or not close(rates[k], Fraction(ans["rates"][k]), 1 + abs(rates[k])):
                ctx.disagree(f"returns[{k}]: impl ({mult[k]!r}, {rates[k]!r}) model ({ans['multiple'][k]}, {ans['rates'][k]})", case)
                return
    batch.add({"fn": "returns", "xs": [fs(v) for v in xs]}, h_returns)
    for (it, form), (oc, v) in forms.items():
        req = {"fn": "annualized", "interest": it, "d": fs(d)}
        if form == "endpoints":
            if not xs:
                continue
            req["init"], req["final"] = fs(xs[0]), fs(xs[-1])
        elif form == "nets":
            req["nets"] = [fs(t) for t in xs]
        else:
            req["rates"] = [fs(t) for t in rates]

        def h(ans, oc=oc, v=v, it=it, form=form):
            if ans["outcome"] != oc:
                ctx.disagree(f"annualized {it}/{form}: impl {oc} {v!r} model {ans}", case)
            elif oc == "ok" and not close(v, Fraction(ans["value"]), 1 if it == "compound" else Fraction(365) / abs(Fraction(d))):
                ctx.disagree(f"annualized {it}/{form}: impl {v!r} model {ans['value'][:40]}", case)
        batch.add(req, h)


def degenerate(fr):
    """variance too small against the squared mean for a float two-pass variance to carry nine digits"""
    if len(fr) < 2:
        return True
    m = sum(fr) / len(fr)
    return svar(fr) <= Fraction(1, 10 ** 12) * m * m


def check_stats(ctx, case, batch):
    """volatility, Sharpe ratio, alpha / beta against direct recomputation from the net-value series"""
    import numpy as np
    import pandas as pd
    from demeter.result.metrics.calculator import volatility, sharpe_ratio, alpha_beta
    xs = [float(v) for v in case["xs"]]
    bs = [float(v) for v in case["bench"]]
    interval, d, rf = float(case["interval"]), float(case["d"]), float(case["rf"])
    shape = case.get("shape", "replay")
    s, b = pd.Series(xs, dtype=float), pd.Series(bs, dtype=float)
    fx, fb = [Fraction(v) for v in xs], [Fraction(v) for v in bs]
    positive = len(xs) >= 2 and len(xs) == len(bs) and all(v > 0 for v in xs + bs) and interval > 0 and d > 0
    with warnings.catch_warnings():
        warnings.simplefilter("ignore")
        rets = s.pct_change().dropna()
    r_vol = call(volatility, rets, interval)
    r_sh = call(sharpe_ratio, interval, d, s, rf)
    r_ab = call(alpha_beta, s, b, d)
    kind = "malformed"
    if positive:
        p = [fx[k] / fx[k - 1] for k in range(1, len(fx))]
        q = [fb[k] / fb[k - 1] for k in range(1, len(fb))]
        e = Fraction(365) / Fraction(d)
        ann = fsqrt(Fraction(365) / Fraction(interval))
        if len(p) < 2:
            kind = "one-return"
            for name, r in (("volatility", r_vol), ("sharpe_ratio", r_sh), ("alpha_beta", r_ab)):
                if r[0] != "nonfinite":
                    ctx.violate(f"{name}.one-return", f"{name} on a two-point series is {r} (sample std of one return is undefined)", case)
        else:
            degp, degq = degenerate(p), degenerate(q)
            kind = "degenerate" if degp or degq else "regular"
            apy_p, apy_b = fpow(fx[-1] / fx[0], e) - 1, fpow(fb[-1] / fb[0], e) - 1
            if not degp:
                vol = fsqrt(svar(p)) * ann
                if r_vol[0] != "ok" or not close(r_vol[1], Fraction(vol)):
                    ctx.violate("volatility.recompute", f"volatility = {r_vol}, sample std of the returns x sqrt(365/interval) = {vol!r}", case)
                if fin(apy_p):
                    sh = (apy_p - rf) / vol
                    if r_sh[0] != "ok" or not close(r_sh[1], Fraction(sh), (1 + abs(apy_p) + abs(rf)) / vol):
                        ctx.violate("sharpe_ratio.recompute", f"sharpe_ratio = {r_sh}, (APR - rf)/volatility = {sh!r}", case)
                    ctx.dev(Fraction(r_sh[1]), Fraction(sh)) if r_sh[0] == "ok" and abs(sh) > 1e-3 else None
            if not degp and not degq:
                # beta is a ratio of (co)variances of the return series: it is checked whenever the variances are not degenerate,
                # whether or not an APR overflows (the code computes it before the APRs)
                beta = scov(p, q) / svar(q)
                sc = fsqrt(svar(p) / svar(q))
                if fin(apy_p) and fin(apy_b):
                    alpha = Fraction(apy_p) - beta * Fraction(apy_b)
                    if r_ab[0] != "ok" or not close(r_ab[1][1], beta, sc) or not close(r_ab[1][0], alpha, (1 + abs(apy_p)) + (abs(beta) + sc) * (1 + abs(apy_b))):
                        ctx.violate("alpha_beta.recompute", f"alpha_beta = {r_ab}, direct (alpha, beta) = ({float(alpha)!r}, {float(beta)!r})", case)
                else:
                    kind = "regular-apr-overflow"
                    if r_ab[1] is None or not fin(r_ab[1][1]) or not close(r_ab[1][1], beta, sc):
                        ctx.violate("alpha_beta.beta-recompute", f"alpha_beta = {r_ab} (an APR overflows), direct beta = cov/var = {float(beta)!r}", case)
                    if r_ab[1] is None or fin(r_ab[1][0]):
                        ctx.violate("alpha_beta.recompute", f"alpha_beta = {r_ab}: alpha is finite although an APR (portfolio {apy_p!r}, benchmark {apy_b!r}) is not", case)
    ctx.case(f"stats:{shape}:{lenclass(len(xs))}:{kind}:{r_vol[0]}/{r_sh[0]}/{r_ab[0]}", case)
    sc = scales(xs, bs, interval, d, rf) if kind.startswith("regular") else None

    def cmp(name, impl, ans, fld):
        if ans["outcome"] != impl[0]:
            if kind == "degenerate" and {ans["outcome"], impl[0]} == {"ok", "nonfinite"}:
                ctx.count("degenerate_variance_class_differs")   # exact variance 0 vs float variance 1e-34 (or the reverse)
                return
            ctx.disagree(f"{name}: impl {impl} model {ans['outcome']}", case)
        elif impl[0] == "ok" and sc is not None and fld in sc and not close(impl[1], Fraction(ans["value"]), sc[fld]):
            ctx.disagree(f"{name}: impl {impl[1]!r} model {float(Fraction(ans['value']))!r}", case)

    rl = [float(v) for v in rets]
    if all(fin(v) for v in rl):
        batch.add({"fn": "volatility", "returns": [fs(v) for v in rl], "interval": fs(interval)}, lambda a: cmp("volatility", r_vol, a["vol"], "volatility"))
    if all(fin(v) for v in xs + bs):
        batch.add({"fn": "sharpe", "values": [fs(v) for v in xs], "interval": fs(interval), "duration": fs(d), "rf": fs(rf)},
                  lambda a: cmp("sharpe", r_sh, a, "sharpe"))

        def h_ab(ans):
            if ans["outcome"] != r_ab[0]:
                if kind == "degenerate" and {ans["outcome"], r_ab[0]} == {"ok", "nonfinite"}:
                    ctx.count("degenerate_variance_class_differs")
                    return
                ctx.disagree(f"alpha_beta: impl {r_ab} model {ans['outcome']}", case)
            elif r_ab[1] is not None:
                # the two components separately: finite / nan-inf class, and the value where the comparison is meaningful
                for k, name in ((1, "beta"), (0, "alpha")):
                    ic, mc = fin(r_ab[1][k]), ans[name] != "nonfinite"
                    if ic != mc:
                        if kind == "degenerate":
                            ctx.count("degenerate_variance_class_differs")
                        else:
                            ctx.disagree(f"alpha_beta {name}: impl {r_ab[1][k]!r} model {ans[name][:40]}", case)
                    elif ic and sc is not None and name in sc and not close(r_ab[1][k], Fraction(ans[name]), sc[name]):
                        ctx.disagree(f"alpha_beta {name}: impl {r_ab[1][k]!r} model {float(Fraction(ans[name]))!r}", case)
        batch.add({"fn": "alphabeta", "values": [fs(v) for v in xs], "bench": [fs(v) for v in bs], "duration": fs(d)}, h_ab)


PERF_FIELDS = [("returnRate", "return_rate"), ("annualized", "annualized_return"), ("mdd", "max_draw_down"), ("sharpe", "sharpe_ratio"),
               ("volatility", "volatility"), ("alpha", "alpha"), ("beta", "beta"), ("benchRate", "benchmark_rate"), ("benchApr", "annualized_benchmark_rate")]


def check_perf(ctx, case, batch):
    """performance_metrics() = the standalone functions on (values, interval and duration derived from the index)"""
    import numpy as np
    import pandas as pd
    from demeter.result.metrics import performance_metrics, MetricEnum
    from demeter.result.metrics.calculator import (return_rate, annualized_return, max_draw_down, sharpe_ratio, volatility, alpha_beta)
    xs = [float(v) for v in case["xs"]]
    bs = [float(v) for v in case["bench"]] if case.get("bench") is not None else None
    sec = int(case["interval_s"])
    # rf None: performance_metrics is called without the argument (documented default 0.03, written here independently of the source)
    rf_default = case.get("rf") is None
    rf = 0.03 if rf_default else float(case["rf"])
    shape = case.get("shape", "replay")
    # index: regular (date_range) or, with "times" (offsets in seconds from the start), any increasing index
    offs = [int(t) for t in case["times"]] if case.get("times") is not None else None
    if offs is None:
        idx = pd.date_range("2023-01-01", periods=len(xs), freq=pd.Timedelta(seconds=sec))
    else:
        idx = pd.DatetimeIndex([pd.Timestamp("2023-01-01") + pd.Timedelta(seconds=o) for o in offs])
    as_dec = bool(case.get("decimal"))
    mk = (lambda v: [Decimal(repr(t)) for t in v]) if as_dec else (lambda v: v)
    s = pd.Series(mk(xs), index=idx, dtype=object if as_dec else float)
    b = pd.Series(mk(bs), index=idx[:len(bs)], dtype=object if as_dec else float) if bs is not None else None
    out = {}

    def run():
        if rf_default:
            return performance_metrics(s, benchmark=b) if b is not None else performance_metrics(s)
        return performance_metrics(s, rf, b)
    with warnings.catch_warnings():
        warnings.simplefilter("ignore")
        with np.errstate(all="ignore"):
            try:
                res = run()
                oc = "ok"
            except Exception as e:  # noqa: BLE001
                res, oc = None, type(e).__name__
    n = len(xs)
    # interval = first gap of the index, duration = last - first + first gap (n * interval on a regular index)
    gap = sec if offs is None or n < 2 else offs[1] - offs[0]
    span = sec * n if offs is None or n < 2 else offs[-1] - offs[0] + gap
    interval_d = Fraction(gap, 86400)
    d = Fraction(span, 86400)
    increasing = offs is None or all(a < b_ for a, b_ in zip(offs, offs[1:]))
    positive = n >= 2 and increasing and all(v > 0 for v in xs) and (bs is None or (len(bs) == n and all(v > 0 for v in bs)))
    bad = False
    if oc == "ok":
        for fld, en in PERF_FIELDS:
            v = float(res[getattr(MetricEnum, en)])
            out[fld] = ("ok" if fin(v) else "nonfinite", v)
        if positive:
            sf = pd.Series(xs, index=idx, dtype=float)
            fx = [Fraction(v) for v in xs]
            dd, iv = float(d), float(interval_d)
            if float(res[MetricEnum.start_val]) != xs[0] or float(res[MetricEnum.end_val]) != xs[-1] or \
                    res[MetricEnum.duration] != pd.Timedelta(seconds=span) or float(res[MetricEnum.return_value]) != xs[-1] - xs[0]:
                ctx.violate("performance_metrics.endpoints", "start/end value, duration or return value are not those of the series", case)
                bad = True
            with warnings.catch_warnings():
                warnings.simplefilter("ignore")
                rets = sf.pct_change().dropna()
            direct = {"returnRate": call(return_rate, np.float64(xs[0]), np.float64(xs[-1])), "annualized": call(annualized_return, dd, np.float64(xs[0]), np.float64(xs[-1])),
                      "mdd": call(max_draw_down, sf), "sharpe": call(sharpe_ratio, iv, dd, sf, rf), "volatility": call(volatility, rets, iv)}
            if bs is not None:
                bf = pd.Series(bs, index=idx, dtype=float)
                ab = call(alpha_beta, sf, bf, dd)
                for k, name in enumerate(("alpha", "beta")):
                    direct[name] = (ab[0], None) if ab[1] is None else ("ok" if fin(ab[1][k]) else "nonfinite", ab[1][k])
                direct["benchRate"] = call(return_rate, np.float64(bs[0]), np.float64(bs[-1]))
                direct["benchApr"] = call(annualized_return, dd, np.float64(bs[0]), np.float64(bs[-1]))
            else:
                for k in ("alpha", "beta", "benchRate", "benchApr"):
                    direct[k] = ("nonfinite", None)
            sc = scales(xs, bs, interval_d, d, rf) if n >= 3 else None
            for fld, _ in PERF_FIELDS:
                a, w = out[fld], direct[fld]
                if a[0] != w[0] or (a[0] == "ok" and not close(a[1], w[1], sc[fld] if sc and fld in sc else abs(w[1]) * 1000)):
                    ctx.violate(f"performance_metrics.{fld}", f"performance_metrics reports {fld} = {a}, the metric function on the same series gives {w} "
                                f"(interval {gap}s, duration {float(d)} d, rf {'default' if rf_default else rf})", case)
                    bad = True
            # beta from its definition, whenever the return variances are not degenerate (an overflowing APR does not touch it)
            if sc and "beta" in sc:
                p_ = [fx[k] / fx[k - 1] for k in range(1, n)]
                fb = [Fraction(v) for v in bs]
                q_ = [fb[k] / fb[k - 1] for k in range(1, n)]
                beta_def = scov(p_, q_) / svar(q_)
                if out["beta"][0] != "ok" or not close(out["beta"][1], beta_def, sc["beta"]):
                    ctx.violate("performance_metrics.beta-def", f"reported beta {out['beta']} != cov(returns, benchmark returns)/var(benchmark returns) = {float(beta_def)!r}", case)
                    bad = True
            # definitions the entry must meet whatever the helper functions do
            spec, _, _ = mdd_def(xs)
            if out["mdd"][0] != "ok" or not close(out["mdd"][1], spec):
                ctx.violate("performance_metrics.mdd-def", f"reported max drawdown {out['mdd']} != largest relative decline {float(spec)!r}", case)
                bad = True
            if out["returnRate"][0] != "ok" or not close(out["returnRate"][1], fx[-1] / fx[0] - 1, 1):
                ctx.violate("performance_metrics.return-def", f"reported rate of return {out['returnRate']} != last/first - 1", case)
                bad = True
    elif positive:
        ctx.violate("performance_metrics.raises", f"performance_metrics raised {oc} on a positive series of length {n}", case)
    ovf = ":apr-overflow" if oc == "ok" and positive and out["annualized"][0] == "nonfinite" else ""
    ctx.case(f"perf:{shape}:{lenclass(n)}:{str(sec) + 's' if offs is None else 'irregular'}:rf={'default' if rf_default else 'zero' if rf == 0 else 'given'}:"
             f"{'bench' if bs is not None else 'nobench'}:{'dec' if as_dec else 'flt'}:{oc}:{'bad' if bad else 'ok'}{ovf}", case)

    def h(ans):
        if ans["outcome"] != oc:
            ctx.disagree(f"perf outcome: impl {oc} model {ans['outcome']}", case)
            return
        if oc != "ok":
            return
        sc = scales(xs, bs, interval_d, d, rf) if positive and n >= 3 else None
        for fld, _ in PERF_FIELDS:
            a, m = out[fld], ans[fld]
            mc = "nonfinite" if m == "nonfinite" else "ok"
            soft = sc is None and fld in ("sharpe", "volatility", "alpha", "beta")    # degenerate variance only; an overflowing APR is not
            if mc != a[0]:
                if soft:
                    ctx.count("degenerate_variance_class_differs")
                    continue
                ctx.disagree(f"perf {fld}: impl {a} model {m[:40]}", case)
            elif mc == "ok" and not soft:
                scale = sc[fld] if sc and fld in sc else (0 if fld == "mdd" else 1 + abs(a[1]))
                if not close(a[1], Fraction(m), scale):
                    ctx.disagree(f"perf {fld}: impl {a[1]!r} model {float(Fraction(m))!r}", case)
    if all(fin(v) for v in xs) and (bs is None or all(fin(v) for v in bs)) and n >= 1:
        t0 = idx[0].value
        req = {"fn": "perf", "values": [fs(v) for v in xs], "t0": str(t0),
               "t1": str(idx[1].value if n > 1 else t0), "tEnd": str(idx[-1].value)}
        if not rf_default:
            req["rf"] = fs(rf)      # without it the model takes the default it read from the source (Gen.metricsDefaultRiskFree)
        if bs is not None:
            req["bench"] = [fs(v) for v in bs]
        batch.add(req, h)


CHECKS = {"mdd": check_mdd, "returns": check_returns, "stats": check_stats, "perf": check_perf}


# ------------------------------------------------------------------------------------------ case streams
def fixed_cases():
    """boundary stream: the witnesses of DESIGN §1.8, ties, the repo's own test vectors"""
    out = []
    for xs in ([1, .5, 100, 60], [1, 2, 3], [3, 1, 8, 5, 6, 2, 9, 4, 5], [5, 5, 5], [1, 2], [2, 1], [7], [4, 2, 4, 2, 4, 1], [1, 2, 1, 4, 2, 8, 4],
               [100, 100.1, 99.8, 99.5, 99.3, 99, 99.5, 99.8, 100, 100.3], [10, 9, 8, 7, 6, 5, 4, 3, 2, 1], [2, 1, 200, 150, 100.5, 300, 151]):
        out.append({"fn": "mdd", "xs": [repr(float(v)) for v in xs], "shape": "fixed"})
    for xs, d in (([1, 1.1, 1.21], 365), ([1, 1.1, 1.2], 365), ([1, 1.1], 182.5), ([100, 100.1, 99.8, 99.5, 99.3, 99, 99.5, 99.8, 100, 100.3], 9)):
        out.append({"fn": "returns", "xs": [repr(float(v)) for v in xs], "d": repr(float(d)), "shape": "fixed", "dk": "fixed"})
    # a minute index: the APR exponent 365/duration is ~1e5 and `pow` overflows to inf — alpha is inf, beta stays the finite covariance ratio
    # (-0.0822…): the code computes beta before the APRs
    ov_x, ov_b = [1, 1.01, 1, 1.02, 1.05], [2, 2.1, 2.3, 2.2, 2.4]
    for sec in (60, 300):
        out.append({"fn": "stats", "xs": [repr(float(v)) for v in ov_x], "bench": [repr(float(v)) for v in ov_b], "interval": repr(sec / 86400),
                    "d": repr(5 * sec / 86400), "rf": "0.03", "shape": "fixed"})
        for rf in ("0.03", None, "0.0"):
            out.append({"fn": "perf", "xs": [repr(float(v)) for v in ov_x], "bench": [repr(float(v)) for v in ov_b], "interval_s": sec, "rf": rf, "shape": "fixed"})
    # only the benchmark's APR overflows / only the portfolio's
    out.append({"fn": "stats", "xs": ["1.0", "1.0000001", "1.0", "1.0000002", "1.0"], "bench": [repr(float(v)) for v in ov_b], "interval": repr(60 / 86400),
                "d": repr(300 / 86400), "rf": "0.0", "shape": "fixed"})
    out.append({"fn": "stats", "xs": [repr(float(v)) for v in ov_b], "bench": ["1.0", "1.0000001", "1.0", "1.0000002", "1.0"], "interval": repr(60 / 86400),
                "d": repr(300 / 86400), "rf": "0.0", "shape": "fixed"})
    # default arguments (no rf, no benchmark) and an irregular index on the repo's own test vector
    tv = [100, 100.1, 99.8, 99.5, 99.3, 99, 99.5, 99.8, 100, 100.3]
    out.append({"fn": "perf", "xs": [repr(float(v)) for v in tv], "bench": None, "interval_s": 86400, "rf": None, "shape": "fixed"})
    out.append({"fn": "perf", "xs": [repr(float(v)) for v in tv], "bench": None, "interval_s": 86400, "rf": "0.0", "shape": "fixed"})
    out.append({"fn": "perf", "xs": [repr(float(v)) for v in tv], "bench": [repr(float(v)) for v in reversed(tv)], "interval_s": 3600, "rf": None, "shape": "fixed",
                "times": [0, 3600, 7200, 9000, 20000, 86400, 86401, 100000, 172800, 172860]})
    return out


def malformed_cases(rng):
    out = []
    for xs in ([], [0.0], [0.0, 0.0, 1.0], [1.0, 0.0, 2.0], [0.0, 0.0], [-1.0, -2.0, -1.5], [1.0, -1.0, 2.0], [1.0, 2.0, 0.0, 0.0], [2.0, 0.0, 0.0, 3.0]):
        out.append({"fn": "mdd", "xs": [repr(v) for v in xs], "shape": "malformed"})
        if xs:
            out.append({"fn": "returns", "xs": [repr(v) for v in xs], "d": repr(rng.choice([0.0, 10.0, 365.0])), "shape": "malformed", "dk": "malformed"})
            be = [1.0 + 0.1 * k for k in range(len(xs))]
            out.append({"fn": "stats", "xs": [repr(v) for v in xs], "bench": [repr(v) for v in be], "interval": "1.0", "d": repr(float(len(xs))),
                        "rf": "0.03", "shape": "malformed"})
        out.append({"fn": "perf", "xs": [repr(v) for v in xs], "bench": None, "interval_s": 86400, "rf": "0.03", "shape": "malformed"})
    good = [1.0, 1.1, 1.05, 1.2, 1.15]
    gb = [2.0, 2.1, 2.3, 2.2, 2.4]
    for iv, d in ((0.0, 5.0), (1.0, 0.0), (0.0, 0.0), (-1.0, 5.0)):
        out.append({"fn": "stats", "xs": [repr(v) for v in good], "bench": [repr(v) for v in gb], "interval": repr(iv), "d": repr(d), "rf": "0.03", "shape": "malformed"})
    out.append({"fn": "stats", "xs": [repr(v) for v in good], "bench": [repr(v) for v in gb[:3]], "interval": "1.0", "d": "5.0", "rf": "0.03", "shape": "malformed"})
    out.append({"fn": "stats", "xs": [repr(v) for v in good], "bench": ["2.0"] * 5, "interval": "1.0", "d": "5.0", "rf": "0.03", "shape": "malformed"})
    out.append({"fn": "stats", "xs": ["3.0"] * 5, "bench": [repr(v) for v in gb], "interval": "1.0", "d": "5.0", "rf": "0.03", "shape": "malformed"})
    out.append({"fn": "perf", "xs": [repr(v) for v in good], "bench": [repr(v) for v in gb[:3]], "interval_s": 3600, "rf": "0.03", "shape": "malformed"})
    out.append({"fn": "perf", "xs": [repr(v) for v in good], "bench": [], "interval_s": 3600, "rf": "0.03", "shape": "malformed"})
    out.append({"fn": "perf", "xs": ["1.0", "1e308"], "bench": None, "interval_s": 60, "rf": "0.03", "shape": "malformed"})
    # an index whose first two stamps coincide (interval 0), one that runs backwards, one whose span cancels the first gap (duration 0)
    for times in ([0, 0, 60, 120, 180], [180, 120, 60, 30, 0], [0, 60, 30, 20, -60]):
        for be in (None, gb):
            out.append({"fn": "perf", "xs": [repr(v) for v in good], "bench": [repr(v) for v in be] if be else None, "interval_s": 60,
                        "rf": "0.03" if be else None, "shape": "malformed", "times": times})
    return out


def random_cases(ctx):
    rng = ctx.rng
    out = []
    for _ in range(ctx.scale(1400, 20000)):
        shape = rng.choice(SHAPES + ["latepeak", "walk"])
        n = gen_len(rng, ctx.thorough) if rng.random() > 0.03 else rng.randint(1, 3)
        xs = gen_series(rng, shape, n, rng.choice([0.002, 0.05, 0.3]))
        out.append({"fn": "mdd", "xs": [repr(v) for v in xs], "shape": shape})
    for _ in range(ctx.scale(260, 3000)):
        shape = rng.choice(SHAPES)
        n = min(gen_len(rng, ctx.thorough), 400)
        name, sec = rng.choice(INTERVALS)
        sigma = 0.02 * math.sqrt(sec / 86400) * rng.choice([0.3, 1, 3])
        xs = gen_series(rng, shape if shape not in ("grid", "ints", "twoscale", "latepeak") or sec >= 86400 else "walk", n, sigma)
        dk = rng.choice(["index", "index", "half", "double", "year"])
        d = {"index": n * sec / 86400, "half": n * sec / 172800, "double": n * sec / 43200, "year": 365.0}[dk]
        out.append({"fn": "returns", "xs": [repr(v) for v in xs], "d": repr(float(d)), "shape": shape, "dk": f"{name}/{dk}"})
    for _ in range(ctx.scale(220, 2500)):
        shape = rng.choice(["walk", "walk", "rising", "falling", "vshape", "constant", "grid", "ints"])
        n = min(gen_len(rng, ctx.thorough), 200 if ctx.thorough else 60)
        name, sec = rng.choice(INTERVALS)
        daily = sec >= 86400
        sigma = 0.02 * math.sqrt(sec / 86400) * rng.choice([0.3, 1, 3])
        xs = gen_series(rng, shape if daily or shape in ("walk", "rising", "falling", "vshape", "constant") else "walk", n, sigma)
        bs = gen_series(rng, rng.choice(["walk", "walk", "rising", "constant"]), n, sigma)
        if rng.random() < 0.08:
            bs = list(xs)           # benchmark = portfolio: beta 1, alpha 0
        out.append({"fn": "stats", "xs": [repr(v) for v in xs], "bench": [repr(v) for v in bs], "interval": repr(sec / 86400), "d": repr(n * sec / 86400),
                    "rf": repr(rng.choice([0.0, 0.03, 0.05])), "shape": shape})
    for _ in range(ctx.scale(160, 2000)):
        shape = rng.choice(["walk", "walk", "rising", "falling", "vshape", "latepeak"])
        n = min(gen_len(rng, ctx.thorough), 120 if ctx.thorough else 50)
        name, sec = rng.choice(INTERVALS)
        sigma = 0.02 * math.sqrt(sec / 86400) * rng.choice([0.3, 1, 3])
        xs = gen_series(rng, shape if shape != "latepeak" or sec >= 86400 else "walk", n, sigma)
        bs = gen_series(rng, "walk", n, sigma) if rng.random() < 0.6 else None
        out.append({"fn": "perf", "xs": [repr(v) for v in xs], "bench": [repr(v) for v in bs] if bs is not None else None, "interval_s": sec,
                    "rf": repr(rng.choice([0.03, 0.0])), "shape": shape, "decimal": rng.random() < 0.15})
    # the same call with its defaults (no rf: 0.03; rf = 0 exactly; another rf) and on an irregular (increasing, gappy) index: interval = first
    # gap, duration = span + first gap
    for _ in range(ctx.scale(120, 1500)):
        shape = rng.choice(["walk", "walk", "rising", "falling", "vshape"])
        n = min(gen_len(rng, ctx.thorough), 120 if ctx.thorough else 50)
        name, sec = rng.choice(INTERVALS)
        sigma = 0.02 * math.sqrt(sec / 86400) * rng.choice([0.3, 1, 3])
        xs = gen_series(rng, shape, n, sigma)
        bs = gen_series(rng, "walk", n, sigma) if rng.random() < 0.6 else None
        times = None
        if rng.random() < 0.6:
            t, times = 0, []
            for _k in range(n):
                times.append(t)
                t += rng.choice([sec, sec, sec, 2 * sec, 7 * sec, max(1, sec // 3), rng.randint(1, 3 * sec)])
        out.append({"fn": "perf", "xs": [repr(v) for v in xs], "bench": [repr(v) for v in bs] if bs is not None else None, "interval_s": sec,
                    "rf": rng.choice([None, None, "0.0", "0.03", "0.1", "-0.01"]), "shape": shape, "decimal": rng.random() < 0.1, "times": times})
    return out


def run(ctx: Ctx):
    cases = fixed_cases() + malformed_cases(ctx.rng) + random_cases(ctx)
    batch = Batch()
    for c in cases:
        CHECKS[c["fn"]](ctx, c, batch)
    ctx.impl_traces = len(cases)
    ctx.note("driver_requests", len(batch.reqs))
    if ctx.driver_ok and batch.reqs:
        answers = driver_json(batch.reqs, exe="driver_metrics")
        for h, a in zip(batch.handlers, answers):
            if "error" in a:
                ctx.disagree(f"driver error: {a['error']}", None)
            else:
                h(a)


def replay(ctx: Ctx, case) -> bool:
    sub = Ctx(ctx.prop, ctx.tier, ctx.seed, ctx.driver_ok)
    batch = Batch()
    CHECKS[case["fn"]](sub, case, batch)
    if ctx.driver_ok and batch.reqs:
        for h, a in zip(batch.handlers, driver_json(batch.reqs, exe="driver_metrics")):
            h(a) if "error" not in a else sub.disagree(a["error"], None)
    for v in sub.violations:
        print("  ", v["key"], v["what"])
    for dgr in sub.disagreements:
        print("   model/impl:", dgr["what"])
    return not sub.violations
