"""C05, real-market stream — the clauses about action records on REAL markets under a real Actuator.

The probe stream of harness/c05.py drives `demeter.broker.Market` subclasses of its own; a defect INSIDE a real market that loses or delays
action records (a record callback left dead after a failed call, an `update()` gated by the wrong flag) is invisible to it.  Here:

  world "sq":   UniLpMarket (weth/osqth pool) + SqueethMarket that refers to it, minutely bars; a scripted strategy mixes accepted operations
                (open_deposit_mint, deposit / withdraw on an existing vault, buy_squeeth, pool add_liquidity_by_tick / buy / sell), refused ones
                (amounts the wallet cannot cover) and ones that fail with another exception class (a vault key / position that does not exist:
                KeyError), all of which the strategy catches, from before_bar / on_bar / after_bar / finalize;
  world "opt":  UniLpMarket (minutely) + DeribitOptionMarket (hourly rows, optionally with a missing hour) and an option that expires inside
                the run: bought on the first bar, settled by update().

Oracle (on the implementation's own observations, no model involved):
  * a call that returned without exception made at least one action record, a call that raised made none;
  * every record is stamped with the bar in which the call ran (records made by finalize(): the last bar);
  * notify() receives exactly the records of Actuator.actions — the same objects, in order, once each — and each in the bar it is stamped with;
  * records made by market.update() (expiry) are stamped with the bar whose update() made them; an option held at its expiry time E (on the
    bar grid) has its `option_expire` record stamped E and is gone from the positions in after_bar of E.
"""
from __future__ import annotations

import contextlib
import io
from decimal import Decimal

import pandas as pd

import core_lib as cl

T0 = "2023-08-15 00:00:00"


# ------------------------------------------------------------------------------------------ data
def pool_frame(market, index, tick, liq=10 ** 20, vol=0):
    df = pd.DataFrame(index=index)
    df["netAmount0"] = 0
    df["netAmount1"] = 0
    for c in ("closeTick", "openTick", "lowestTick", "highestTick"):
        df[c] = tick
    df["inAmount0"] = vol
    df["inAmount1"] = vol
    df["currentLiquidity"] = Decimal(liq)
    market.add_statistic_column(df)
    return df


def option_frame(day, hours, instruments):
    """(time, instrument_name)-indexed frame as load_deribit_option_data builds it; `instruments` = [(name, strike, expiry Timestamp)]"""
    rows = []
    for h in hours:
        t = pd.Timestamp(f"{day} {h:02d}:00:00")
        for name, strike, expiry in instruments:
            rows.append(dict(time=t, instrument_name=name, state="open", type="CALL", strike_price=strike, expiry_time=expiry, vega=0.1, theta=-0.1,
                             rho=0.1, gamma=0.001, delta=0.1, underlying_price=2000.0, mark_price=0.001, best_bid_price=0.0005,
                             best_bid_amount=50.0, best_ask_price=0.001, best_ask_amount=50.0, asks=[[0.001, 50.0]], bids=[[0.0005, 50.0]]))
    return pd.DataFrame(rows).set_index(["time", "instrument_name"])


# ------------------------------------------------------------------------------------------ worlds
SQ_TICK = 22073
SQ_PRICE = Decimal("0.1100093801915093394962395036")       # weth per osqth at SQ_TICK


def build_sq(n):
    from demeter import TokenInfo, Actuator, MarketInfo, MarketTypeEnum
    from demeter.uniswap import UniV3Pool, UniLpMarket
    from demeter.squeeth import SqueethMarket
    weth, osqth = TokenInfo("weth", 18), TokenInfo("osqth", 18)
    a = Actuator()
    pool = UniLpMarket(MarketInfo("pool", MarketTypeEnum.uniswap_v3), UniV3Pool(weth, osqth, 0.3, weth))
    sq = SqueethMarket(MarketInfo("sq", MarketTypeEnum.squeeth), pool)
    a.broker.add_market(pool)
    a.broker.add_market(sq)
    index = pd.date_range(T0, periods=n, freq="min")
    pool.data = pool_frame(pool, index, SQ_TICK)
    sq.data = pd.DataFrame(index=index, data={"norm_factor": Decimal("0.5"), "WETH": Decimal(2000), "OSQTH": SQ_PRICE})
    a.broker.set_balance(weth, 20)
    a.broker.set_balance(osqth, 50)
    a.set_price(pd.DataFrame(index=index, data={"WETH": Decimal(2000), "OSQTH": Decimal(2000) * SQ_PRICE}))
    return a, {"pool": pool, "sq": sq}, index


def sq_call(ms, name, st):
    """one scripted call; `st` carries what earlier calls made (vault keys, positions)"""
    from demeter.squeeth import VaultKey
    from demeter.uniswap import PositionInfo
    sq, pool = ms["sq"], ms["pool"]
    if name == "open_deposit_mint":
        r = sq.open_deposit_mint(Decimal(2), Decimal(5))
        st["vaults"] = list(sq.vault.keys())
        return r
    if name == "open_deposit_mint_too_much":
        return sq.open_deposit_mint(Decimal(10 ** 9), Decimal(5))             # the wallet cannot cover the collateral: refused
    if name == "deposit_no_vault":
        return sq.deposit(VaultKey(7777), Decimal(1))                         # no such vault: KeyError, not a refusal class
    if name == "withdraw_no_vault":
        return sq.burn_and_withdraw(VaultKey(7777), Decimal(1), Decimal(1))
    if name == "deposit":
        return sq.deposit(st["vaults"][0], Decimal("0.5")) if st.get("vaults") else sq.deposit(VaultKey(7777), Decimal(1))
    if name == "burn_some":
        k = st["vaults"][0] if st.get("vaults") else VaultKey(7777)
        return sq.burn_and_withdraw(k, Decimal("0.5"), Decimal("0.1"))
    if name == "buy_squeeth":
        return sq.buy_squeeth(eth_amount=Decimal("0.1"))
    if name == "sell_squeeth":
        return sq.sell_squeeth(osqth_amount=Decimal("0.5"))
    if name == "pool_add":
        r = pool.add_liquidity_by_tick(SQ_TICK - 600, SQ_TICK + 600, Decimal(1), Decimal(5))
        st["positions"] = list(pool.positions.keys())
        return r
    if name == "pool_add_too_much":
        return pool.add_liquidity_by_tick(SQ_TICK - 600, SQ_TICK + 600, Decimal(10 ** 9), Decimal(10 ** 9))
    if name == "pool_remove_no_position":
        return pool.remove_liquidity(PositionInfo(SQ_TICK - 60000, SQ_TICK - 54000))
    if name == "pool_buy":
        return pool.buy(Decimal("0.2"))
    if name == "pool_sell":
        return pool.sell(Decimal("0.2"))
    raise ValueError(name)


SQ_MENU = ["open_deposit_mint", "open_deposit_mint_too_much", "deposit_no_vault", "withdraw_no_vault", "deposit", "burn_some", "buy_squeeth", "sell_squeeth",
           "pool_add", "pool_add_too_much", "pool_remove_no_position", "pool_buy", "pool_sell"]
HOOKS = ["before", "on", "on", "on", "after"]


def gen_sq(rng):
    n = rng.randint(4, 9)
    script = []
    for r in range(n):
        for _ in range(rng.choice((0, 1, 1, 2, 3))):
            script.append([r, rng.choice(HOOKS), rng.choice(SQ_MENU)])
    if rng.random() < 0.4:
        script.append([n - 1, "finalize", rng.choice(("buy_squeeth", "pool_sell", "deposit_no_vault"))])
    return {"real": "sq", "bars": n, "script": script}


def fixed_real_cases():
    out = []
    # a call that fails with another exception class (KeyError: no such vault), caught by the strategy, then accepted operations on both markets
    out.append({"real": "sq", "bars": 5, "script": [[1, "on", "deposit_no_vault"], [2, "on", "open_deposit_mint"], [3, "on", "pool_add"], [3, "after", "buy_squeeth"]]})
    out.append({"real": "sq", "bars": 5, "script": [[0, "on", "open_deposit_mint"], [1, "before", "withdraw_no_vault"], [1, "on", "deposit"], [2, "on", "pool_buy"],
                                                    [3, "on", "pool_remove_no_position"], [3, "after", "pool_sell"], [4, "finalize", "buy_squeeth"]]})
    out.append({"real": "sq", "bars": 4, "script": [[0, "on", "open_deposit_mint_too_much"], [1, "on", "open_deposit_mint"], [2, "on", "pool_add_too_much"], [2, "after", "pool_add"]]})
    # an option expiring inside the run, with and without a row for the expiry hour; bought at the first bar
    for gap in ((), (8,), (7,)):
        for exp in (8, 7):
            out.append({"real": "opt", "start": 6, "hours": 4, "gap": list(gap), "expiry": exp, "buy": 2})
    return out


def gen_opt(rng):
    start = rng.choice((5, 6))
    hours = rng.choice((3, 4))
    exp = rng.randint(start + 1, start + hours - 1)
    gap = [h for h in range(start + 1, start + hours) if rng.random() < 0.3]
    return {"real": "opt", "start": start, "hours": hours, "gap": gap, "expiry": exp, "buy": rng.choice((1, 2, 3))}


# ------------------------------------------------------------------------------------------ runs
def run_sq(case):
    cl.setup()
    from demeter import Strategy
    a, ms, index = build_sq(case["bars"])
    by = {}
    for r, hook, name in case["script"]:
        by.setdefault((r, hook), []).append(name)
    calls, notified, st, cur = [], [], {}, {"bar": None, "row": None}

    def do(hook, row):
        for name in by.get((row, hook), []):
            n0 = len(a.actions)
            try:
                sq_call(ms, name, st)
                err = None
            except Exception as e:  # noqa: BLE001   (the strategy catches what its own calls raise)
                err = type(e).__name__
            calls.append({"bar": cur["bar"], "hook": hook, "name": name, "err": err, "records": list(a.actions[n0:])})

    class S(Strategy):
        def before_bar(self, snap):
            cur["bar"], cur["row"] = snap.timestamp, snap.row_id
            do("before", snap.row_id)

        def on_bar(self, snap):
            do("on", snap.row_id)

        def after_bar(self, snap):
            do("after", snap.row_id)

        def notify(self, action):
            notified.append((cur["bar"], action))

        def finalize(self):
            do("finalize", cur["row"])
    a.strategy = S()
    err = None
    try:
        with contextlib.redirect_stdout(io.StringIO()):
            a.run(print_result=False)
    except Exception as e:  # noqa: BLE001
        err = type(e).__name__ + ": " + str(e)[:200]
    return {"err": err, "calls": calls, "notified": notified, "actions": list(a.actions), "bars": [t.to_pydatetime() for t in index],
            "rows": [s.timestamp for s in a.account_status]}


def run_opt(case):
    cl.setup()
    from demeter import Strategy, TokenInfo, Actuator, MarketInfo, MarketTypeEnum, ActionTypeEnum
    from demeter.uniswap import UniV3Pool, UniLpMarket
    from demeter.deribit import DeribitOptionMarket
    day = "2023-09-22"
    usdc, eth = TokenInfo("usdc", 6), DeribitOptionMarket.ETH
    a = Actuator()
    uni = UniLpMarket(MarketInfo("uni"), UniV3Pool(usdc, eth, 0.05, usdc))
    opt = DeribitOptionMarket(MarketInfo("opt", MarketTypeEnum.deribit_option), eth)
    a.broker.add_market(uni)
    a.broker.add_market(opt)
    start, hours = case["start"], case["hours"]
    index = pd.date_range(f"{day} {start:02d}:00:00", periods=60 * hours, freq="min")
    uni.data = pool_frame(uni, index, 200000, liq=10 ** 18, vol=10 ** 9)
    expiry = pd.Timestamp(f"{day} {case['expiry']:02d}:00:00")
    instr = f"ETH-22SEP23-3000-C"
    later = pd.Timestamp("2023-09-29 08:00:00")
    opt.data = option_frame(day, [h for h in range(start, start + hours) if h not in case["gap"]], [(instr, 3000, expiry), ("ETH-29SEP23-3000-C", 3000, later)])
    a.broker.set_balance(usdc, 10000)
    a.broker.set_balance(eth, 10)
    a.set_price(uni.get_price_from_data())
    calls, notified, upd, held, cur = [], [], [], [], {"bar": None}
    real_update = opt.update

    def update():
        n0 = len(a.actions)
        real_update()
        upd.append((cur["bar"], list(a.actions[n0:])))
    opt.update = update

    class S(Strategy):
        def before_bar(self, snap):
            cur["bar"] = snap.timestamp

        def on_bar(self, snap):
            if snap.row_id == 0:
                for name, f in (("opt_deposit", lambda: opt.deposit(Decimal(1))), ("opt_buy", lambda: opt.buy(instr, Decimal(case["buy"]))),
                                ("opt_buy_unknown", lambda: opt.buy("ETH-22SEP23-9999-C", Decimal(1)))):
                    n0 = len(a.actions)
                    try:
                        f()
                        err = None
                    except Exception as e:  # noqa: BLE001
                        err = type(e).__name__
                    calls.append({"bar": cur["bar"], "hook": "on", "name": name, "err": err, "records": list(a.actions[n0:])})

        def after_bar(self, snap):
            if snap.timestamp.minute == 0:
                held.append((snap.timestamp, sorted(opt.positions.keys())))

        def notify(self, action):
            notified.append((cur["bar"], action))
    a.strategy = S()
    err = None
    try:
        with contextlib.redirect_stdout(io.StringIO()):
            a.run(print_result=False)
    except Exception as e:  # noqa: BLE001
        err = type(e).__name__ + ": " + str(e)[:200]
    exp_recs = [x for x in a.actions if x.action_type == ActionTypeEnum.option_expire]
    return {"err": err, "calls": calls, "notified": notified, "actions": list(a.actions), "bars": [t.to_pydatetime() for t in index],
            "rows": [s.timestamp for s in a.account_status], "upd": upd, "held": held, "expiry": expiry.to_pydatetime(), "instr": instr,
            "expire_records": exp_recs}


# ------------------------------------------------------------------------------------------ oracle
def judge(ctx, case, obs):
    world = case["real"]
    V = lambda key, what: ctx.violate(key, what, case)  # noqa: E731
    if obs["err"] is not None:
        V(f"real:{world}:run-raised", f"Actuator.run raised {obs['err']} although the strategy catches what its calls raise")
        return
    if obs["rows"] != obs["bars"]:
        V(f"real:{world}:account-rows", f"{len(obs['rows'])} account rows for {len(obs['bars'])} bars")
    last = obs["bars"][-1]
    made = []
    for c in obs["calls"]:
        want_bar = last if c["hook"] == "finalize" else c["bar"]
        if c["err"] is None and not c["records"]:
            V(f"real:{world}:{c['name']}:accepted-call-without-record", f"{c['name']} called from {c['hook']} at {c['bar']} returned without exception and made no action record "
              f"(calls so far: {[(str(x['bar'])[11:16], x['name'], x['err']) for x in obs['calls'][:8]]})")
        if c["err"] is not None and c["records"]:
            V(f"real:{world}:{c['name']}:raising-call-left-record", f"{c['name']} raised {c['err']} and left {len(c['records'])} action record(s)")
        for r in c["records"]:
            if r.timestamp != want_bar:
                V(f"real:{world}:{c['name']}:record-stamp", f"the record of {c['name']} called in bar {want_bar} is stamped {r.timestamp}")
        made += c["records"]
    for bar, recs in obs.get("upd", []):
        for r in recs:
            if r.timestamp != bar:
                V(f"real:{world}:update-record-stamp", f"a record made by update() in bar {bar} is stamped {r.timestamp}")
        made += recs
    # notify: exactly the records of Actuator.actions, the same objects, in order, once each, each in its own bar
    got = [x for _, x in obs["notified"]]
    if len(got) != len(obs["actions"]) or any(x is not y for x, y in zip(got, obs["actions"])):
        lost = [f"{x.action_type.name}@{x.timestamp}" for x in obs["actions"] if not any(x is y for y in got)]
        V(f"real:{world}:notify-not-exactly-once", f"notify() got {len(got)} deliveries for {len(obs['actions'])} records; never delivered: {lost[:4]}")
    for bar, x in obs["notified"]:
        if x.timestamp != bar:
            V(f"real:{world}:notify-late", f"the record {x.action_type.name} stamped {x.timestamp} was delivered in bar {bar}")
            break
    if world == "sq" and (len(made) != len(obs["actions"]) or any(x is not y for x, y in zip(sorted(made, key=id), sorted(obs["actions"], key=id)))):
        V(f"real:{world}:records-outside-calls", f"Actuator.actions has {len(obs['actions'])} records, the calls account for {len(made)}")
    if world == "opt":
        bought = any(c["name"] == "opt_buy" and c["err"] is None for c in obs["calls"])
        E = obs["expiry"]
        if bought and E in obs["bars"]:
            stamps = [x.timestamp for x in obs["expire_records"]]
            if stamps != [E]:
                V("real:opt:expiry-record-bar", f"{obs['instr']} bought at {obs['bars'][0]} expires at {E} (option rows at hours {sorted(set(range(case['start'], case['start'] + case['hours'])) - set(case['gap']))}): "
                  f"option_expire records stamped {[str(s) for s in stamps]}, expected exactly one stamped {E}")
            delivered = [(bar, x.timestamp) for bar, x in obs["notified"] if any(x is y for y in obs["expire_records"])]
            if delivered != [(E, E)]:
                V("real:opt:expiry-delivery-bar", f"the expiry record was delivered as (bar, stamp) {[(str(b), str(s)) for b, s in delivered]}, expected once at the end of bar {E}")
            for bar, h in obs["held"]:
                if bar >= E and obs["instr"] in h:
                    V("real:opt:expired-position-still-held", f"after_bar of {bar} still sees the position {obs['instr']} (expired {E})")
                    break


def check_real(ctx, case):
    obs = run_sq(case) if case["real"] == "sq" else run_opt(case)
    judge(ctx, case, obs)
    if case["real"] == "sq":
        for c in obs["calls"]:
            ctx.case(f"real:sq:{c['name']}:{c['hook']}:{c['err'] or 'accepted'}", None)
        prior = any(c["err"] not in (None, "DemeterError", "AssertionError") for c in obs["calls"])
        ctx.case(f"real:sq:run:{'after-other-exception' if prior else 'plain'}:{len(obs['actions']) > 0}", None)
    else:
        ctx.case(f"real:opt:gap{'+'.join(map(str, case['gap'])) or 'none'}:expiry-{'in-gap' if case['expiry'] in case['gap'] else 'on-row'}:"
                 f"{len(obs.get('expire_records', []))}-expired", None)
    return obs


def run_stream(ctx):
    for case in fixed_real_cases():
        check_real(ctx, case)
    for _ in range(ctx.scale(25, 600)):
        check_real(ctx, gen_sq(ctx.rng))
    for _ in range(ctx.scale(4, 60)):
        check_real(ctx, gen_opt(ctx.rng))
