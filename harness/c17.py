"""C17 — GMX mint/redeem (v1 GLP: demeter/gmx/market.py; v2 GM: demeter/gmx/market2.py + gmx_v2/*)."""
from __future__ import annotations

import math
import os
from decimal import Decimal
from fractions import Fraction as F

from common import Ctx, driver_json, fmt
import gmx_common as G

os.environ.setdefault("TQDM_DISABLE", "1")      # Actuator.run draws a progress bar per whole run
PROPERTY = "C17"
LEAN_MODULES = ["Proofs.C17", "Proofs.C17.V1Fee", "Proofs.C17.V2", "Proofs.C17.Bars", "Proofs.C17.V1Round", "Proofs.C17.V1RoundPy", "Proofs.C17.V1Seq", "Proofs.C17.V2Ops", "Proofs.C17.V1RoundAny", "Proofs.C17.V1RoundDiff", "Proofs.C17.V1FeeEnv", "Proofs.C17.Ledger", "Proofs.C17.V1TripAny"]
DRIVERS = ["driver_gmx"]
RULE = ("v1: rows = the two recorded CSV days (sampled, optionally with one token's USDG amount moved to 0/0.3/1∓1e-6/1/1.7/3.2 x target) and synthetic "
        "rows (1-7 tokens, weights incl. 0, USDG supply 0/tiny/1e20-1e27, per-token USDG at 0-4 x target, AUM/GLP incl. 0, glp_price consistent with "
        "AUM/supply); operation sequences of buy/sell/update with amounts zero, negative, 1-999 wei, exact balance/holding, balance x (1 +- 1e-6..1.1e-5), "
        "10 x balance/holding, unknown token, token without wallet entry; a fee sweep over (token, USDG delta incl. exact target crossings, direction) against "
        "an integer re-implementation of VaultUtils.getFeeBasisPoints; same-bar round trips and same-token sequences of 2-7 buys / partial sales / sell-all (amount 0) / rejected sales "
        "closed so that the holding ends where it started (tokens out <= tokens in, and every call's wallet delta).  v2: pools with long/short skew 0.01-50, virtual inventory "
        "present/absent/None, impact pool 0-1e9, zeroed fields, default and perturbed PoolConfig (incl. positive > negative factor, exponent != 2), "
        "dataclass rows and pandas rows; deposit/withdraw sequences with the same amount classes; round trips; deposit/withdraw(None)/partial/rejected sequences mostly on the heavy side "
        "(no positive impact) closed at the starting holding (value out <= value in); rows with poolValue at the edge of the double range.  special numbers: every amount argument of "
        "buy_glp / sell_glp / deposit / withdraw as float nan, +-inf, -0.0, +-1e90 and Decimal NaN, sNaN, +-Infinity, +-1E+400, -0, 1E-400, with the strict wallet and with "
        "allow_negative_balance, after 0-2 ordinary operations (no number of the state may become NaN/inf; v2 and finite v1 arguments are also compared with the model).  "
        "bucket = (version, operation, model branch tag or fee branch, outcome class, argument class).")
TRUSTED = [
    "v1 is Decimal arithmetic: the driver runs the model under round-half-even to 35 digits and every number is compared exactly; theorems are for the exact rational semantics",
    "v2 is float arithmetic: theorems are about the exact rational semantics of the same formulas (one model text, instantiated at Rat and at Float); the driver runs IEEE "
    "binary64 through Lean Float (+ - x / bit-identical with CPython) and is compared at 1e-12 relative; diffUsd ** exponent is the platform libm's pow on both sides "
    "(Lean Float.pow and CPython float.__pow__ both call C pow; glibc's pow(x, 2.0) is not always x*x, so the driver must not simplify it) - an oracle, not verified",
    "the Vault reference rule is my transcription of gmx-contracts VaultUtils.getFeeBasisPoints / Vault.getTargetUsdgAmount (Lean `vaultFeeBps`, cross-checked on every "
    "sweep case against an independent Python transcription)",
]
ASSUMPTIONS = [
    "amounts passed to GMX v1 are Decimal (int/float amounts raise TypeError/AttributeError before any mutation and are exercised oracle-only)",
    "token weights and USDG amounts in a v1 row are integers (as in the recorded data); quantize overflow beyond 35 digits is modelled as InvalidOperation",
    "v2 rows given as pandas Series are well formed (non-zero prices, pool value, supply): numpy floats return inf/nan where Python floats raise ZeroDivisionError",
    "same bar = the pool row does not react to the user's own trade (that is how the backtester works)",
    "huge float amounts (1e200: `**` raises OverflowError; 1e308: amount x price = inf) are exercised on dataclass rows only: numpy doubles of pandas rows "
    "answer inf/nan where Python floats raise",
]


# ---------------------------------------------------------------------------------------------------- v1
def v1_formula_oracle(ctx, w: G.V1World, op, res, spec, pre_glp, rep=None):
    """minted / redeemed amount = price x amount / value per share, net of the observed fee, with the contract's round-down steps.
    Written in USD terms from the property text (value per share = floor(AUM/1e12) / supply, both 1e18-scaled), not from the code:
    every round-down step may lose strictly less than one unit (token wei scaled to USDG wei, USDG wei, GLP wei) and never gains."""
    r = w.market.market_status.data
    tok = op["tok"]
    t = w.token(tok)
    d = t.decimal
    price = F(r[f"{tok}_price"]) / G.E30                 # USD per token
    aumU = G.floor_frac(F(r["aum"]) / G.E12)            # pool value in USDG wei
    supply = F(r["glp"])                                 # GLP wei
    rep = rep or {"world": spec, "ops": [ser_op(op)]}
    if supply == 0 or aumU == 0 or price == 0:
        return          # degenerate rows (no GLP outstanding / AUM below one USDG unit): value per share is undefined
    per_share = F(aumU) / supply                         # USDG wei per GLP wei = USD per GLP
    if op["kind"] == "buy":
        a = F(op["amount"])
        usdg0 = G.floor_frac(F(G.floor_frac(a * 10 ** d * price)) * G.E18 / 10 ** d)
        fee = F(w.market.get_fee_basis_points(t, Decimal(usdg0), True))
        ideal = a * price * (1 - fee / 10000) / per_share                       # GLP, no rounding
        unit_usdg = F(10 ** max(0, 18 - d) + 1)                                  # USDG wei lost by the two USDG round-downs
        slack = (unit_usdg / per_share + 1) / G.E18
        got = F(res)
        if got * G.E18 % 1 != 0:
            ctx.violate("v1.buy_glp.formula", f"buy_glp({tok}, {op['amount']}) returned {res}: not a whole number of GLP wei", rep)
        what = f"buy_glp({tok}, {op['amount']}) minted {res} GLP; price x amount x (1 - {float(fee):.4g} bp) / value per share = {float(ideal)!r}"
    else:
        g = F(op["amount"]) if op["amount"] != 0 else F(pre_glp)
        usdg = G.floor_frac(g * G.E18 * per_share)
        fee = F(w.market.get_fee_basis_points(t, Decimal(usdg), False))
        ideal = g * per_share / price * (1 - fee / 10000)                        # tokens, no rounding
        slack = F(1, G.E18) / price
        got = F(res)
        what = f"sell_glp({tok}, {op['amount']}) paid {res}; GLP x value per share / price x (1 - {float(fee):.4g} bp) = {float(ideal)!r}"
    tol = G.TOL30 * max(abs(got), abs(ideal))
    if got > ideal + tol:
        ctx.violate(f"v1.{op['kind']}_glp.formula", what + " (more than the formula allows)", rep)
    elif got < ideal - slack * (1 + F(1, 10 ** 6)) - tol:
        ctx.violate(f"v1.{op['kind']}_glp.formula", what + f" (short by more than the round-down slack {float(slack)!r})", rep)


def ser_op(op):
    o = dict(op)
    for k in ("amount", "long", "short"):
        if k in o and o[k] is not None:
            o[k] = ["D", str(o[k])] if isinstance(o[k], Decimal) else ["F", repr(float(o[k]))]
    return o


def de_op(o):
    o = dict(o)
    for k in ("amount", "long", "short"):
        if k in o and o[k] is not None:
            o[k] = Decimal(o[k][1]) if o[k][0] == "D" else float(o[k][1])
    return o


def wallet_delta_oracle(ctx, ver, w, op, out, res, pre, post, rep):
    """the ledger of the round-trip / sequence theorems IS the wallet: an accepted buy / deposit takes exactly the amounts passed out of the
    wallet, an accepted sell / withdraw puts exactly the returned amounts in, every other balance (and, on a rejected call, every balance)
    stays as it was.  Evaluated on the broker's own balances before and after the call (35-digit Decimal additions: 1e-30 relative)."""
    want = {}
    kind = op["kind"]
    if out == "ok":
        if kind == "buy":
            want[w.token(op["tok"], op.get("dec")).name] = -F(op["amount"])
        elif kind == "sell":
            want[w.token(op["tok"], op.get("dec")).name] = F(res)
        elif kind == "deposit":
            for t, a in ((w.long, op["long"]), (w.short, op["short"])):
                want[t.name] = want.get(t.name, F(0)) - F(float(a))
        elif kind == "withdraw":
            for t, a in ((w.long, res.long_amount), (w.short, res.short_amount)):
                want[t.name] = want.get(t.name, F(0)) + F(a)
    b0 = {k: F(v) for k, v in pre["wallet"]}
    b1 = {k: F(v) for k, v in post["wallet"]}
    for k in sorted(set(b0) | set(b1) | set(want)):
        d, e = b1.get(k, F(0)) - b0.get(k, F(0)), want.get(k, F(0))
        if d != e and abs(d - e) > G.TOL30 * max(abs(b0.get(k, F(0))), abs(b1.get(k, F(0))), abs(e)):
            p0 = b0.get(k, F(0))
            if out == "ok" and kind in ("buy", "deposit") and not w.allow_negative and k in b1 and b1[k] == 0 and p0 != 0 and abs(p0 + e) < F(0.00001) * abs(p0):
                # the broker's documented dust sweep (Asset.sub): a debit within 0.001 % of the balance takes the whole balance
                ctx.count(f"wallet_dust_sweep_debits:v{ver}")
                continue
            name = {"buy": "buy_glp", "sell": "sell_glp"}.get(kind, kind)
            ctx.violate(f"v{ver}.{name}.wallet_delta" + ("" if out == "ok" else ".rejected"),
                        f"{name}({', '.join(repr(op[x]) for x in ('tok', 'amount', 'long', 'short') if x in op)}) -> {out}: wallet balance of {k} moved by {float(d)!r} "
                        f"(from {b0.get(k)} to {b1.get(k)}); the call's own amounts say {float(e)!r}", rep)


def v1_step_oracle(ctx, w, op, cls, out, res, pre, post, spec, rep=None):
    """the C17 clauses that are visible on one call"""
    rep = rep or {"world": spec, "ops": [ser_op(op)]}
    wallet_delta_oracle(ctx, 1, w, op, out, res, pre, post, rep)
    if op["kind"] == "fee":
        if out == "ok":
            v1_fee_oracle(ctx, w, op["tok"], int(op["amount"]), op["increase"], res, rep)
        return
    if F(pre["glp"]) >= 0 and F(post["glp"]) < 0:
        ctx.violate(f"v1.{op['kind']}_glp.negative_holding", f"{op['kind']}_glp({op.get('tok')}, {op.get('amount')}) with holding {pre['glp']} leaves glp_amount = {post['glp']}", rep)
    if op["kind"] == "sell" and out == "ok":
        g = F(op["amount"]) if op["amount"] != 0 else F(pre["glp"])
        if g > F(pre["glp"]):
            ctx.violate("v1.sell_glp.over_redeem", f"sell_glp({op['tok']}, {op['amount']}) accepted and paid {res} while only {pre['glp']} GLP is held", rep)
        if g < 0:
            ctx.violate("v1.sell_glp.negative_amount", f"sell_glp({op['tok']}, {op['amount']}) accepted", rep)
    if op["kind"] == "buy" and out == "ok" and F(op["amount"]) < 0:
        ctx.violate("v1.buy_glp.negative_amount", f"buy_glp({op['tok']}, {op['amount']}) accepted: returned {res} GLP and credited the wallet", rep)
    if out == "ok" and op["kind"] in ("buy", "sell") and F(op["amount"]) >= 0 and (op["kind"] == "buy" or F(pre["glp"]) >= 0):
        v1_formula_oracle(ctx, w, op, res, spec, pre["glp"], rep)
    if op["kind"] in ("buy", "sell") and F(post["reward"]) != F(pre["reward"]):
        # rewards accrue once per bar, at update(), pro rata to the holding of that moment — no trade, accepted or rejected, touches the pending
        # reward (theorem C17_v1_reward_accrues_pro_rata_over_runs)
        ctx.violate(f"v1.{op['kind']}_glp.reward_changed", f"{op['kind']}_glp({op.get('tok')}, {op.get('amount')}) -> {out} changed the pending reward from {pre['reward']} to "
                    f"{post['reward']} (holding {pre['glp']}): the bar's reward is accrued by update() alone", rep)
    if op["kind"] == "update" and out == "ok":
        r = w.market.market_status.data
        want = F(float(r["interval"])) * 60 * F(pre["glp"]) / F(r["glp"])
        got = F(post["reward"]) - F(pre["reward"])
        if not (got == want or abs(got - want) <= G.TOL30 * max(abs(got), abs(want), abs(F(post["reward"])))):
            ctx.violate("v1.update.reward_pro_rata", f"reward grew by {float(got)!r}, pro rata share is {float(want)!r}", rep)


def v1_sequences(ctx: Ctx, n: int):
    pending = []
    for _ in range(n):
        row, names, kind = G.gen_v1_row(ctx.rng)
        glp0 = None
        if ctx.rng.random() < 0.5:
            glp0 = G.rand_dec(ctx.rng, -3, 6, 18)
        w = G.V1World(row, names, G.gen_v1_wallet(ctx.rng, names), glp=glp0, reward=(G.rand_dec(ctx.rng, -3, 3, 20) if ctx.rng.random() < 0.3 else None))
        for _ in range(ctx.rng.randint(1, 6)):
            op, cls = G.gen_v1_op(ctx.rng, w)
            spec = w.spec()
            pre = w.dump()
            env = w.env_json()
            out, res, acts = w.apply(op)
            post = w.dump()
            ctx.impl_traces += 1
            v1_step_oracle(ctx, w, op, cls, out, res, pre, post, spec)
            unit = F(0)          # one token wei worth of GLP: what a 1 bp fee difference can move across a round-down step of the buy
            if op["kind"] == "buy" and out == "ok":
                r_ = w.market.market_status.data
                if F(r_["glp_price"]) > 0:
                    unit = F(1, 10 ** w.token(op["tok"]).decimal) * F(r_[f"{op['tok']}_price"]) / G.E30 / F(r_["glp_price"])
            pending.append((kind, op, cls, out, res, acts, post, spec, unit,
                            w.step_request(pre, env, op)))
    if not ctx.driver_ok:
        for kind, op, cls, out, *_ in pending:
            ctx.case(f"v1:{op['kind']}:?:{out}:{cls}")
        return
    ans = driver_json([p[-1] for p in pending], exe="driver_gmx")
    ex = driver_json([dict(p[-1], ctx="exact") for p in pending], exe="driver_gmx")
    for (kind, op, cls, out, res, acts, post, spec, unit, req), a, e in zip(pending, ans, ex):
        rep = {"world": spec, "ops": [ser_op(op)]}
        if "error" in a:
            ctx.disagree(f"driver error {a['error']}", rep)
            continue
        ctx.case(f"v1:{op['kind']}:{a['tag']}:{out}:{cls}", {"row": kind, "op": ser_op(op), "outcome": out})
        if a["outcome"] != out:
            ctx.disagree(f"v1 {op['kind']} outcome impl {out} model {a['outcome']}", rep)
            continue
        diffs = G.state_eq_v1(a["state"], post, acts)
        if out == "ok" and res is not None and F(a["result"]) != F(res):
            diffs.append(f"result impl {res} model {a['result']}")
        if diffs:
            ctx.disagree(f"v1 {op['kind']} ({cls}): " + "; ".join(diffs)[:600], rep)
        if out == "ok" and res is not None and e.get("outcome") == "ok" and cls not in ("wei", "zero"):
            ctx.dev(F(e["result"]), F(res))
            x, y = F(e["result"]), F(res)
            if x != y and abs(x - y) > F(1, 10 ** 20) * max(abs(x), abs(y)):
                # exact and 35-digit arithmetic disagree visibly: only the int() of the tax can do that (theorems
                # C17_v1_capped_tax_rounding_exactly_1bp / ..._round35_exactly_1bp: 84 instead of 85 bp in the capped branch)
                ctx.count(f"exact_vs_py_visible_difference:{a['tag']}")
                if abs(x - y) > F(2, 10 ** 4) * max(abs(x), abs(y)) + 2 * unit:     # + the round-down step the 1 bp may cross (tiny buys of 6/8-decimal tokens)
                    ctx.disagree(f"v1 {op['kind']}: exact-arithmetic result {float(x)!r} and implementation {res} differ by more than the 1 bp the rounding lemma allows", rep)


def v1_fee_oracle(ctx, w, tok, delta, inc, fee, rep):
    """fee in [0, 25 + 60] and within 1 bp (+ 200/target) of the Vault's integer rule evaluated on the CURRENT row of the live object"""
    initial, weight, supply, total = G.v1_fee_inputs(w, tok)
    T = F(weight * supply, total) if total else F(0)
    fee_f = F(fee)
    if not (0 <= fee_f <= 85):
        ctx.violate("v1.fee.range", f"get_fee_basis_points({tok}, {delta}, {inc}) = {fee} outside [0, 25 + 60]", rep)
    if total == 0:
        return
    vt = G.vault_target(weight, supply, total)
    vf = G.vault_fee_bps(initial, delta, vt, inc)
    slack = 1 + (F(200) / T if T > 0 else 0)
    if abs(fee_f - vf) > slack:
        if vt < 200:
            ctx.violate("v1.fee.vault_rule.dust_target", f"fee {fee} vs Vault rule {vf}: target {float(T)!r} is below 200 wei of USDG", rep)
        elif G.branch_edge(initial, delta, weight, supply, total, inc):
            ctx.violate("v1.fee.vault_rule.branch_edge", f"fee {fee} vs Vault rule {vf} at the rule's discontinuity |next-target| = |initial-target| "
                        f"(initial {initial}, delta {delta}, target {float(T)!r}, increase {inc})", rep)
        else:
            ctx.violate("v1.fee.vault_rule", f"fee {fee} differs from the Vault rule {vf} by more than 1 bp (initial {initial}, delta {delta}, target {float(T)!r}, increase {inc})", rep)


def v1_fee_sweep(ctx: Ctx, n: int):
    pending = []
    for _ in range(n):
        row, names, kind = G.gen_v1_row(ctx.rng)
        w = G.V1World(row, names, [])
        tok = ctx.rng.choice(names)
        initial, weight, supply, total = G.v1_fee_inputs(w, tok)
        T = F(weight * supply, total) if total else F(0)
        inc = ctx.rng.random() < 0.5
        c = ctx.rng.random()
        if c < 0.2:
            delta, dcls = ctx.rng.randint(0, 1000), "dust"
        elif c < 0.45 and T > 0:          # land next to / exactly on the mirror image of the initial amount: the rule's discontinuity
            d0 = abs(2 * (G.floor_frac(T) - initial)) + ctx.rng.choice([-2, -1, 0, 0, 1, 1, 2])
            delta, dcls = max(0, d0), "mirror"
        elif c < 0.6 and T > 0:
            delta, dcls = max(0, abs(G.floor_frac(T) - initial) + ctx.rng.choice([-1, 0, 1])), "to-target"
        elif c < 0.7:
            delta, dcls = initial + ctx.rng.choice([-1, 0, 1, 10 ** 20]) if initial else 1, "all"
        else:
            delta, dcls = int(G._logu(ctx.rng, 15, 27)), "mid"
        delta = max(0, delta)
        spec = w.spec()
        rep = {"world": spec, "fee": {"tok": tok, "usdg": str(delta), "increase": inc}}
        try:
            fee = w.market.get_fee_basis_points(w.token(tok), Decimal(delta), inc)
            out = "ok"
        except Exception as ex:  # noqa: BLE001
            fee, out = None, type(ex).__name__
        ctx.impl_traces += 1
        tcls = "T=0" if T == 0 else ("T<200" if T < 200 else "T-ok")
        if out == "ok":
            v1_fee_oracle(ctx, w, tok, delta, inc, fee, rep)
        pending.append((tok, delta, inc, dcls, tcls, out, fee, rep, initial, weight, supply, total,
                        {"fn": "gmx1.fee", "env": w.env_json(), "tok": tok, "usdg": str(delta), "increase": inc}))
    if not ctx.driver_ok:
        for p in pending:
            ctx.case(f"v1:fee:?:{p[5]}:{p[3]}:{p[4]}")
        return
    ans = driver_json([p[-1] for p in pending], exe="driver_gmx")
    vreq = [{"fn": "gmx1.vaultFee", "initial": str(p[8]), "delta": str(p[1]), "weight": str(p[9]), "supply": str(p[10]), "total": str(p[11]), "increase": p[2]}
            for p in pending if p[11] > 0]
    vans = iter(driver_json(vreq, exe="driver_gmx"))
    for (tok, delta, inc, dcls, tcls, out, fee, rep, initial, weight, supply, total, req), a in zip(pending, ans):
        if "error" in a:
            ctx.disagree(f"driver error {a['error']}", rep)
            continue
        ctx.case(f"v1:fee:{a.get('branch', '-')}:{out}:{dcls}:{tcls}:{'inc' if inc else 'dec'}", rep["fee"])
        if a["outcome"] != out or (out == "ok" and F(a["fee"]) != F(fee)):
            ctx.disagree(f"v1 fee({tok},{delta},{inc}) impl {out} {fee} model {a}", rep)
        if total > 0:
            v = next(vans)
            vt = G.vault_target(weight, supply, total)
            if "error" in v or int(v["fee"]) != G.vault_fee_bps(initial, delta, vt, inc) or int(v["target"]) != vt:
                ctx.disagree(f"Vault reference: Lean {v} python {G.vault_fee_bps(initial, delta, vt, inc)} target {vt}", rep)


def v1_roundtrip_case(ctx, spec, tok, amount, parts, record=True):
    """buy `amount` of tok, sell the minted GLP back (in `parts` pieces) for the same token, same bar. True = no profit."""
    w = G.V1World.from_spec(spec)
    t = w.token(tok)
    rep = {"world": spec, "roundtrip": {"tok": tok, "amount": str(amount), "parts": parts}}
    sub = ctx if record else Ctx(ctx.prop, ctx.tier, ctx.seed, False)
    pre = w.dump()
    op = {"kind": "buy", "tok": tok, "amount": amount}
    out, g, _ = w.apply(op)
    wallet_delta_oracle(sub, 1, w, op, out, g, pre, w.dump(), rep)
    if out != "ok":
        return None
    wallet0 = F(dict(pre["wallet"]).get(t.name, 0))
    got = Decimal(0)
    rest = g
    for i in range(parts):
        piece = rest if i == parts - 1 else (g / parts).quantize(Decimal(1).scaleb(-18))
        if piece == 0 and i < parts - 1:
            continue
        if piece == 0:
            break            # sell_glp(0) would mean "everything held"
        pre = w.dump()
        op = {"kind": "sell", "tok": tok, "amount": piece}
        o2, r2, _ = w.apply(op)
        wallet_delta_oracle(sub, 1, w, op, o2, r2, pre, w.dump(), rep)
        if o2 != "ok":
            return None
        got += r2
        rest -= piece
    ok = F(got) <= F(amount) * (1 + G.TOL30)
    if not ok and record:
        ctx.violate("v1.roundtrip.profit", f"buy_glp({tok}, {amount}) then selling the {g} GLP returns {got} > paid", rep)
    # the same statement on the wallet itself: after the round trip the token balance is not above where it started
    wallet1 = F(dict(w.dump()["wallet"]).get(t.name, 0))
    if wallet1 > wallet0 + G.TOL30 * max(abs(wallet0), abs(wallet1)):
        ok = False
        if record:
            ctx.violate("v1.roundtrip.profit", f"buy_glp({tok}, {amount}) then selling the {g} GLP: wallet {t.name} went from {float(wallet0)!r} to {float(wallet1)!r}", rep)
    if sub is not ctx and sub.violations:
        ok = False
    return ok, got, g


def v1_roundtrips(ctx: Ctx, n: int):
    for _ in range(n):
        row, names, kind = G.gen_v1_row(ctx.rng)
        tok = ctx.rng.choice(names)
        dec = G.V1_DEC[tok]
        amount = ctx.rng.choice([Decimal(ctx.rng.randint(1, 9999)) / Decimal(10 ** dec), G.rand_dec(ctx.rng, -6, 9, min(dec, ctx.rng.randint(0, 18)))])
        w = G.V1World(row, names, [(tok, amount * ctx.rng.choice([1, 1, 2, Decimal("1.000001")]))], glp=ctx.rng.choice([None, G.rand_dec(ctx.rng, -3, 6, 18)]))
        parts = ctx.rng.choice([1, 1, 2, 3])
        r = v1_roundtrip_case(ctx, w.spec(), tok, amount, parts)
        ctx.impl_traces += 1
        if r is None:
            ctx.case(f"v1:roundtrip:rejected:{kind}")
        else:
            ok, got, g = r
            ratio = F(got) / F(amount) if amount else F(0)
            ctx.case(f"v1:roundtrip:{'ok' if ok else 'PROFIT'}:{kind}:parts{parts}:loss~{'0' if ratio > F(9999, 10000) else ('<1%' if ratio > F(99, 100) else '>=1%')}",
                     {"tok": tok, "amount": str(amount), "back": str(got)})


def v1_sequence_case(ctx, spec, tok, ops, record=True):
    """theorem C17_v1_sequence_no_profit on the implementation: ANY list of buy_glp / sell_glp (0 = everything held) calls on one token in one bar,
    accepted or rejected; if the holding at the end is at least the holding at the start, the tokens received do not exceed the tokens paid.
    Returns (holds?, tokens in, tokens out, outcomes) or None when the premise (final holding >= initial) is not met."""
    w = G.V1World.from_spec(spec)
    rep = {"world": spec, "sequence": {"tok": tok, "ops": [ser_op(o) for o in ops]}}
    sub = ctx if record else Ctx(ctx.prop, ctx.tier, ctx.seed, False)
    g0 = F(w.market.glp_amount)
    t_in = t_out = F(0)
    outs = []
    for op in ops:
        pre = w.dump()
        out, res, _ = w.apply(op)
        wallet_delta_oracle(sub, 1, w, op, out, res, pre, w.dump(), rep)
        outs.append(out)
        if out == "ok" and op["kind"] == "buy":
            t_in += F(op["amount"])
        elif out == "ok" and op["kind"] == "sell":
            t_out += F(res)
    if F(w.market.glp_amount) < g0:
        return None
    ok = t_out <= t_in * (1 + G.TOL30)
    if not ok and record:
        ctx.violate("v1.sequence.profit", f"{len(ops)} buy_glp/sell_glp calls on {tok} in one bar ({', '.join(o['kind'] + ':' + str(o['amount']) for o in ops)}) -> {outs}: holding "
                    f"{float(g0)!r} -> {w.market.glp_amount}, tokens received {float(t_out)!r} > tokens paid {float(t_in)!r}"[:700], rep)
    if sub is not ctx and sub.violations:
        ok = False
    return ok, t_in, t_out, outs


def v1_sequence_runs(ctx: Ctx, n: int):
    for _ in range(n):
        row, names, kind = G.gen_v1_row(ctx.rng)
        tok = ctx.rng.choice(names)
        dec = G.V1_DEC[tok]
        glp0 = ctx.rng.choice([None, None, G.rand_dec(ctx.rng, -3, 6, 18)])
        w = G.V1World(row, names, [(tok, G.rand_dec(ctx.rng, 2, 9, min(dec, 6)))], glp=glp0)
        spec = w.spec()
        g0 = Decimal(0) if glp0 is None else glp0
        ops, shape = [], []
        for i in range(ctx.rng.randint(2, 6)):
            c = ctx.rng.random()
            held = w.market.glp_amount
            if c < 0.45 or i == 0:
                a = ctx.rng.choice([Decimal(ctx.rng.randint(1, 9999)) / Decimal(10 ** dec), G.rand_dec(ctx.rng, -6, 6, min(dec, ctx.rng.randint(0, 18)))])
                op, sh = {"kind": "buy", "tok": tok, "amount": a}, "b"
            elif c < 0.6:
                op, sh = {"kind": "sell", "tok": tok, "amount": Decimal(0)}, "A"                    # everything held
            elif c < 0.7:
                op, sh = {"kind": "sell", "tok": tok, "amount": held * 10 + 1}, "x"                # rejected
            else:
                part = (held * Decimal(str(round(ctx.rng.uniform(0.05, 0.95), 3)))).quantize(Decimal(1).scaleb(-18))
                op, sh = {"kind": "sell", "tok": tok, "amount": part}, "s"
                if part == 0:
                    continue
            w.apply(op)
            ops.append(op)
            shape.append(sh)
        # close the sequence so that the holding ends where it started (or above): sell exactly the surplus — `0` = everything when nothing was held
        surplus = w.market.glp_amount - g0
        if surplus > 0 and ctx.rng.random() < 0.8:
            ops.append({"kind": "sell", "tok": tok, "amount": Decimal(0) if g0 == 0 and ctx.rng.random() < 0.6 else surplus})
            shape.append("A" if ops[-1]["amount"] == 0 else "c")
        r = v1_sequence_case(ctx, spec, tok, ops)
        ctx.impl_traces += 1
        if r is None:
            ctx.case(f"v1:sequence:premise-not-met:{kind}")
        else:
            ok, t_in, t_out, outs = r
            ctx.case(f"v1:sequence:{'ok' if ok else 'PROFIT'}:{kind}:{''.join(shape)}:{'held0' if g0 == 0 else 'held+'}:{'some-rejected' if any(o != 'ok' for o in outs) else 'all-accepted'}",
                     {"tok": tok, "in": str(t_in), "out": str(t_out)})


# ---------------------------------------------------------------------------------------------------- v1 across bars
def v1_op_usdg(w: G.V1World, op, pre_glp):
    """the USDG amount a buy/sell hands to the fee rule, from the property text (None on degenerate rows)"""
    r = w.market.market_status.data
    tok = op["tok"]
    if f"{tok}_price" not in r.index or tok not in w.token_names:
        return None
    d = w.token(tok).decimal
    price = F(r[f"{tok}_price"]) / G.E30
    if op["kind"] == "buy":
        return G.floor_frac(F(G.floor_frac(F(op["amount"]) * 10 ** d * price)) * G.E18 / 10 ** d), True
    supply, aumU = F(r["glp"]), G.floor_frac(F(r["aum"]) / G.E12)
    if supply == 0:
        return None
    g = F(op["amount"]) if op["amount"] != 0 else F(pre_glp)
    return G.floor_frac(g * G.E18 * F(aumU) / supply), False


def gen_fee_probe(rng, w: G.V1World):
    tok = rng.choice(w.token_names)
    initial, weight, supply, total = G.v1_fee_inputs(w, tok)
    T = F(weight * supply, total) if total else F(0)
    c = rng.random()
    if c < 0.15:
        delta, cls = rng.randint(0, 1000), "dust"
    elif c < 0.35 and T > 0:
        delta, cls = max(0, abs(G.floor_frac(T) - initial) + rng.choice([-1, 0, 1])), "to-target"
    elif c < 0.5 and initial:
        delta, cls = initial + rng.choice([-1, 0, 1]), "all"
    else:
        delta, cls = int(G._logu(rng, 15, 27)), "mid"
    return {"kind": "fee", "tok": tok, "amount": Decimal(max(0, delta)), "increase": rng.random() < 0.5}, "fee-" + cls


def v1_event_json(ev, w):
    if "bar" in ev:
        return None
    if ev["kind"] == "fee":
        return {"ev": "fee", "tok": ev["tok"], "usdg": ev["amount"], "increase": ev["increase"]}
    return {"ev": "op", "op": G.v1_op_json(ev, w)}


def v1_multibar(ctx: Ctx, n: int):
    """ONE live GmxMarket moved through several bars by set_market_status, every group of row fields changing between bars, operations and
    fee reads interleaved with the row changes.  Every call is checked three ways: the property oracles on the current row; step-wise
    against the model from the dumped state; and against the model's own fold over the whole history (`gmx1.events`)."""
    steps, folds = [], []
    fields = None
    for _ in range(n):
        rows, names, classes = G.gen_v1_frame(ctx.rng)
        wallet = [(t, G.rand_dec(ctx.rng, 0, 7, 6)) for t in names if ctx.rng.random() < 0.9]
        w = G.V1World(rows, names, wallet, glp=(G.rand_dec(ctx.rng, -1, 6, 18) if ctx.rng.random() < 0.6 else None))
        spec0 = w.spec_bars()
        env0, st0 = w.env_json(), w.dump()
        hist, evs, seen = [], [], []
        for k in range(len(rows)):
            w.set_bar(k)
            hist.append({"bar": k})
            evs.append({"ev": "status", "env": w.env_json()})
            seen.append(("status", k, classes[k], None, None, None, w.dump(), [], None))
            todo = [ctx.rng.random() < 0.45 for _ in range(ctx.rng.choice([1, 1, 2, 3]))]
            for probe in todo + [None]:
                if probe is None:
                    if ctx.rng.random() < 0.3:
                        continue
                    op, cls = {"kind": "update"}, "update"
                elif probe:
                    op, cls = gen_fee_probe(ctx.rng, w)
                else:
                    op, cls = G.gen_v1_op(ctx.rng, w)
                pre, env = w.dump(), w.env_json()
                hist.append(ser_op(op))
                rep = {"world": spec0, "events": list(hist)}
                out, res, acts = w.apply(op)
                post = w.dump()
                ctx.impl_traces += 1
                v1_step_oracle(ctx, w, op, cls, out, res, pre, post, None, rep)
                if out == "ok" and op["kind"] in ("buy", "sell") and F(op["amount"]) >= 0:
                    u = v1_op_usdg(w, op, pre["glp"])      # the fee this very call was charged, against the current row's Vault rule
                    if u is not None:
                        try:
                            v1_fee_oracle(ctx, w, op["tok"], u[0], u[1], w.market.get_fee_basis_points(w.token(op["tok"]), Decimal(u[0]), u[1]), rep)
                        except ArithmeticError:
                            pass
                evs.append(v1_event_json(op, w))
                seen.append((op["kind"], k, classes[k], cls, out, res, post, acts, rep))
                if op["kind"] == "fee":
                    req = {"fn": "gmx1.fee", "env": env, "tok": op["tok"], "usdg": op["amount"], "increase": op["increase"]}
                else:
                    req = w.step_request(pre, env, op)
                steps.append((op, k, classes[k], cls, out, res, acts, post, rep, req))
        f = w.object_fields()
        m = w.market
        if (m.glp_decimal, m.mint_burn_fee_basis_points, m.tax_basis_points) != (18, 25, 60):
            ctx.disagree(f"v1 object constants changed during a run: glp_decimal {m.glp_decimal}, fee {m.mint_burn_fee_basis_points}, tax {m.tax_basis_points}", {"world": spec0, "events": list(hist)})
        fields = f if fields is None else sorted(set(fields) | set(f))
        folds.append((seen, {"fn": "gmx1.events", "env0": env0, "state": {"glp": st0["glp"], "reward": st0["reward"], "wallet": st0["wallet"]}, "events": evs,
                              "allowNeg": bool(w.allow_negative)},
                      {"world": spec0, "events": list(hist)}))
    if not ctx.driver_ok:
        for op, k, bcls, cls, out, *_ in steps:
            ctx.case(f"v1:bars:{op['kind']}:?:{out}:{cls}:{'bar0' if k == 0 else 'later'}:{bcls}")
        return
    ans = driver_json([p[-1] for p in steps], exe="driver_gmx")
    for (op, k, bcls, cls, out, res, acts, post, rep, req), a in zip(steps, ans):
        if "error" in a:
            ctx.disagree(f"driver error {a['error']}", rep)
            continue
        ctx.case(f"v1:bars:{op['kind']}:{a.get('tag', a.get('branch', '-'))}:{out}:{cls}:{'bar0' if k == 0 else 'later'}:{bcls}", {"bars": bcls, "op": ser_op(op), "outcome": out})
        if a["outcome"] != out:
            ctx.disagree(f"v1 bar {k} ({bcls}) {op['kind']} outcome impl {out} model {a['outcome']}", rep)
            continue
        if op["kind"] == "fee":
            if out == "ok" and F(a["fee"]) != F(res):
                ctx.disagree(f"v1 bar {k} ({bcls}) fee({op['tok']},{op['amount']},{op['increase']}) impl {res} model {a['fee']}", rep)
            continue
        diffs = G.state_eq_v1(a["state"], post, acts)
        if out == "ok" and res is not None and F(a["result"]) != F(res):
            diffs.append(f"result impl {res} model {a['result']}")
        if diffs:
            ctx.disagree(f"v1 bar {k} ({bcls}) {op['kind']} ({cls}): " + "; ".join(diffs)[:600], rep)
    # the model's own fold: one object, state threaded inside the model
    fans = driver_json([f[1] for f in folds], exe="driver_gmx")
    for (seen, req, rep), fa in zip(folds, fans):
        if isinstance(fa, dict):
            ctx.disagree(f"v1 fold: driver error {fa}"[:300], rep)
            continue
        ok = True
        for (kind, k, bcls, cls, out, res, post, acts, _), a in zip(seen, fa):
            if kind == "status":
                bad = F(a["glp"]) != F(post["glp"]) or F(a["reward"]) != F(post["reward"]) or [(x, F(y)) for x, y in a["wallet"]] != [(x, F(y)) for x, y in post["wallet"]]
            elif a["outcome"] != out:
                bad = True
            elif kind == "fee":
                bad = out == "ok" and F(a["fee"]) != F(res)
            else:
                bad = bool(G.state_eq_v1(a["state"], post, acts)) or (out == "ok" and res is not None and F(a["result"]) != F(res))
            if bad:
                ctx.disagree(f"v1 fold over {len(seen)} events: first difference at bar {k} ({bcls}) {kind}: impl {out} {res} {post} model {a}"[:700], rep)
                ok = False
                break
        ctx.case(f"v1:fold:{len([1 for x in seen if x[0] == 'status'])}bars:{'agree' if ok else 'DISAGREE'}", n=len(seen))
    ref = driver_json([{"fn": "gmx.fields"}], exe="driver_gmx")[0]
    if fields is not None and sorted(ref.get("v1", [])) != fields:
        ctx.disagree(f"GmxMarket objects carry state the model does not know (or lost some): vars(market) = {fields}, model objectFields = {sorted(ref.get('v1', []))}", {"world": None})


# ---------------------------------------------------------------------------------------------------- v2
def v2_formula_oracle(ctx, w: G.V2World, op, r, pre_amount, rep):
    """pool value per share with the fee factors and an impact capped by the impact pool (Fractions on the implementation's own outputs)"""
    d = w.market._market_status.data
    get = (lambda k: d[k]) if w.series else (lambda k: getattr(d, k))
    pv, sup, lp, sp, ip = (F(float(get(k))) for k in ("poolValue", "marketTokensSupply", "longPrice", "shortPrice", "impactPoolAmount"))
    c = w.market.pool_config
    tol = F(1, 10 ** 9)

    def close(a, b, scale=None):
        s = max(abs(a), abs(b), scale or 0)
        return a == b or abs(a - b) <= tol * s
    if op["kind"] == "deposit":
        la, sa = F(float(op["long"])), F(float(op["short"]))
        imp = F(r.price_impact_usd)
        lv, sv = la * lp, sa * sp
        want_value = F(0)
        left = ip                                          # ONE impact pool for the whole deposit
        for amt, val, pin, pout in ((la, lv, lp, sp), (sa, sv, sp, lp)):
            if amt <= 0:
                continue
            share = imp * val / (lv + sv)
            f = F(c.depositFeeFactorForPositiveImpact if share > 0 else c.depositFeeFactorForNegativeImpact)
            credit = share
            if share > 0:
                paid = min(share / pout, left)             # positive impact is paid in the other token, out of what is left of the impact pool
                credit = paid * pout
                left -= paid
            want_value += amt * (1 - f) * pin + credit
        got_value = F(r.gm_amount) * pv / sup
        if not close(got_value, want_value, lv + sv):
            ctx.violate("v2.deposit.formula", f"deposit({op['long']}, {op['short']}) minted {r.gm_amount} GM worth {float(got_value)!r}; fee factors + capped impact give {float(want_value)!r}", rep)
        if imp > 0 and ip >= 0:
            # the cap, stated without the payout order: whatever was credited beyond the fee-reduced deposit came out of the impact pool,
            # so it is worth at most the whole pool in the dearer of the tokens it was paid in, and at most the impact itself
            bonus = got_value - sum(a_ * (1 - F(c.depositFeeFactorForPositiveImpact)) * p_ for a_, p_ in ((la, lp), (sa, sp)) if a_ > 0)
            cap = ip * max([sp] * (la > 0) + [lp] * (sa > 0))
            if bonus > cap + tol * max(lv + sv, cap) or bonus > imp + tol * max(lv + sv, imp):
                ctx.violate("v2.deposit.impact_cap", f"deposit({op['long']}, {op['short']}): positive impact credited {float(bonus)!r} USD exceeds the impact pool ({float(ip)!r} units, "
                            f"worth at most {float(cap)!r} USD in the tokens paid) or the impact {float(imp)!r}", rep)
    else:
        g = F(pre_amount) if op["amount"] is None else F(float(op["amount"]))
        la_, sa_ = F(float(get("longAmount"))), F(float(get("shortAmount")))
        usd = pv * g / sup
        tot = la_ * lp + sa_ * sp
        f = F(c.withdrawFeeFactorForNegativeImpact)
        wl = usd * (la_ * lp) / tot / lp * (1 - f)
        ws = usd * (sa_ * sp) / tot / sp * (1 - f)
        if not (close(F(r.long_amount), wl, usd / lp) and close(F(r.short_amount), ws, usd / sp)):
            ctx.violate("v2.withdraw.formula", f"withdraw({op['amount']}) paid ({r.long_amount}, {r.short_amount}); pool value per share gives ({float(wl)!r}, {float(ws)!r})", rep)


def v2_step_oracle(ctx, w, op, out, res, pre, post, rep):
    a0, a1 = pre["amount"], post["amount"]
    if out != "ok" or all(math.isfinite(float(getattr(res, k))) for k in ("long_amount", "short_amount")):
        wallet_delta_oracle(ctx, 2, w, op, out, res, pre, post, rep)
    if a0 >= 0 and (a1 < 0 or math.isnan(a1)):
        ctx.violate(f"v2.{op['kind']}.negative_holding", f"{op['kind']} leaves amount = {a1!r} (was {a0!r})", rep)
    if op["kind"] == "withdraw" and out == "ok":
        g = a0 if op["amount"] is None else float(op["amount"])
        if g > a0:
            ctx.violate("v2.withdraw.over_redeem", f"withdraw({op['amount']!r}) accepted and paid ({res.long_amount}, {res.short_amount}) while only {a0!r} GM is held", rep)
        if g < 0:
            ctx.violate("v2.withdraw.negative_amount", f"withdraw({op['amount']!r}) accepted", rep)
    if op["kind"] == "deposit" and out == "ok" and (float(op["long"]) < 0 or float(op["short"]) < 0):
        ctx.violate("v2.deposit.negative_amount", f"deposit({op['long']}, {op['short']}) accepted: wallet credited", rep)
    if op["kind"] == "withdraw" and out != "ok" and op["amount"] is not None and float(op["amount"]) < 0 and G.F(a0) != G.F(a1):
        ctx.violate("v2.withdraw.negative_amount", f"withdraw({op['amount']!r}) raised {out} after changing the holding from {a0!r} to {a1!r}", rep)
    if out == "ok" and all(float(op[k]) >= 0 for k in ("long", "short") if k in op) and (op["kind"] == "deposit" or (op["amount"] is None or 0 <= float(op["amount"]) <= a0)):
        if all(math.isfinite(float(getattr(res, k))) for k in G.LP_FIELDS):
            try:
                v2_formula_oracle(ctx, w, op, res, a0, rep)
            except ZeroDivisionError:
                # a row with zero supply / price / token value: value per share is undefined there, so the formula clause says nothing
                # (the unchanged code raises ZeroDivisionError on such rows itself; a variant that accepts the call must not crash the oracle)
                ctx.count(f"v2_formula_undefined_on_degenerate_row:{op['kind']}")


def v2_sequences(ctx: Ctx, n: int):
    pending = []
    for _ in range(n):
        pool, pcls = G.gen_v2_pool(ctx.rng)
        cfg = G.gen_v2_cfg(ctx.rng)
        series = ctx.rng.random() < 0.25 and not pcls.startswith("zero") and pool["virtualSwapInventoryLong"] is not None and pool["virtualSwapInventoryShort"] is not None
        amount0 = ctx.rng.choice([0.0, 0.0, round(G._logu(ctx.rng, -3, 7), 4)])
        w = G.V2World(pool, cfg, G.gen_v2_wallet(ctx.rng), amount=amount0, series=series)
        for _ in range(ctx.rng.randint(1, 5)):
            op, cls = G.gen_v2_op(ctx.rng, w)
            spec = w.spec()
            rep = {"world": spec, "ops": [ser_op(op)]}
            pre = w.dump()
            req = w.request(op)
            out, res, acts = w.apply(op)
            post = w.dump()
            ctx.impl_traces += 1
            v2_step_oracle(ctx, w, op, out, res, pre, post, rep)
            pending.append((pcls, bool(cfg), series, op, cls, out, res, acts, post, rep, req))
    if not ctx.driver_ok:
        for p in pending:
            ctx.case(f"v2:{p[3]['kind']}:?:{p[5]}:{p[4]}")
        return
    ans = driver_json([p[-1] for p in pending], exe="driver_gmx")
    exact_ok = [p for p in pending if F(p[-1]["config"]["swapImpactExponentFactor"]).denominator == 1]
    ex = dict(zip((id(p) for p in exact_ok), driver_json([dict(p[-1], mode="exact", ctx="exact") for p in exact_ok], exe="driver_gmx")))
    for p, a in zip(pending, ans):
        pcls, hascfg, series, op, cls, out, res, acts, post, rep, req = p
        if "error" in a:
            ctx.disagree(f"driver error {a['error']}", rep)
            continue
        ctx.case(f"v2:{op['kind']}:{a['tag']}:{out}:{cls}:{'cfg' if hascfg else 'default'}:{'series' if series else 'dataclass'}:{pcls if pcls.startswith('zero') else ''}",
                 {"pool": pcls, "op": ser_op(op), "outcome": out})
        if a["outcome"] != out:
            ctx.disagree(f"v2 {op['kind']} ({cls}) outcome impl {out} model {a['outcome']}", rep)
            continue
        diffs = G.state_eq_v2(a["state"], post, acts)
        if out == "ok":
            lp = G.lp_dict(res)
            bad = [k for k in G.LP_FIELDS if not G.fclose(lp[k], a["result"][k])]
            if bad:
                diffs.append("result fields " + ", ".join(f"{k}: impl {lp[k]!r} model {a['result'][k]}" for k in bad))
        if diffs:
            ctx.disagree(f"v2 {op['kind']} ({cls}): " + "; ".join(diffs)[:600], rep)
        e = ex.get(id(p))
        if out == "ok" and e and e.get("outcome") == "ok" and math.isfinite(res.gm_amount) and op["kind"] == "deposit":
            scale = max(abs(F(res.total_usd)), 1)
            dv = abs(F(e["result"]["gm_usd"]) - F(res.gm_usd)) / scale
            if dv > ctx.max_dev:
                ctx.max_dev = dv


def v2_multibar(ctx: Ctx, n: int):
    """ONE live GmxV2Market moved through several bars (set_market_status on a multi-row frame, or a replaced status dataclass), every group
    of row fields changing between bars; oracles on the current row, step-wise model comparison, and the model's own fold (`gmx2.events`)."""
    steps, folds = [], []
    fields = None
    for _ in range(n):
        series = ctx.rng.random() < 0.6
        pools, classes = G.gen_v2_frame(ctx.rng, series=series)
        cfg = G.gen_v2_cfg(ctx.rng)
        wallet = [("weth", G.rand_dec(ctx.rng, 0, 5, 9)), ("usdc", G.rand_dec(ctx.rng, 2, 8, 6))]
        w = G.V2World(pools, cfg, wallet, amount=ctx.rng.choice([0.0, round(G._logu(ctx.rng, -2, 6), 4)]), series=series)
        spec0 = w.spec_bars()
        st0 = w.dump()
        pool0 = w.pool_json()
        hist, evs, seen = [], [], []
        for k in range(len(pools)):
            w.set_bar(k)
            hist.append({"bar": k})
            evs.append({"ev": "status", "pool": w.pool_json()})
            seen.append(("status", k, classes[k], None, None, None, w.dump(), []))
            for _ in range(ctx.rng.choice([0, 1, 1, 2, 3])):
                op, cls = G.gen_v2_op(ctx.rng, w)
                pre = w.dump()
                req = w.request(op)
                hist.append(ser_op(op))
                rep = {"world": spec0, "events": list(hist)}
                out, res, acts = w.apply(op)
                post = w.dump()
                ctx.impl_traces += 1
                v2_step_oracle(ctx, w, op, out, res, pre, post, rep)
                ev = {"ev": op["kind"]}
                if op["kind"] == "deposit":
                    ev["long"], ev["short"] = G.fl(float(op["long"])), G.fl(float(op["short"]))
                else:
                    ev["amount"] = None if op["amount"] is None else G.fl(float(op["amount"]))
                evs.append(ev)
                seen.append((op["kind"], k, classes[k], cls, out, res, post, acts))
                steps.append((op, k, classes[k], cls, series, out, res, acts, post, rep, req))
        f = w.object_fields()
        fields = f if fields is None else sorted(set(fields) | set(f))
        folds.append((seen, w.events_request({"amount": G.fl(st0["amount"]), "wallet": st0["wallet"]}, pool0, evs), {"world": spec0, "events": list(hist)}))
    if not ctx.driver_ok:
        for op, k, bcls, cls, series, out, *_ in steps:
            ctx.case(f"v2:bars:{op['kind']}:?:{out}:{cls}:{bcls}")
        return
    ans = driver_json([p[-1] for p in steps], exe="driver_gmx")

    def cmp(a, out, res, post, acts, tol=G.FTOL):
        if a["outcome"] != out:
            return [f"outcome impl {out} model {a['outcome']}"]
        diffs = G.state_eq_v2(a["state"], post, acts, tol)
        if out == "ok":
            lp = G.lp_dict(res)
            bad = [k_ for k_ in G.LP_FIELDS if not G.fclose(lp[k_], a["result"][k_], tol)]
            if bad:
                diffs.append("result fields " + ", ".join(f"{k_}: impl {lp[k_]!r} model {a['result'][k_]}" for k_ in bad))
        return diffs
    for (op, k, bcls, cls, series, out, res, acts, post, rep, req), a in zip(steps, ans):
        if "error" in a:
            ctx.disagree(f"driver error {a['error']}", rep)
            continue
        ctx.case(f"v2:bars:{op['kind']}:{a['tag']}:{out}:{cls}:{'bar0' if k == 0 else 'later'}:{bcls}:{'series' if series else 'dataclass'}", {"bars": bcls, "op": ser_op(op), "outcome": out})
        diffs = cmp(a, out, res, post, acts)
        if diffs:
            ctx.disagree(f"v2 bar {k} ({bcls}) {op['kind']} ({cls}): " + "; ".join(diffs)[:600], rep)
    fans = driver_json([f[1] for f in folds], exe="driver_gmx")
    for (seen, req, rep), fa in zip(folds, fans):
        if isinstance(fa, dict):
            ctx.disagree(f"v2 fold: driver error {fa}"[:300], rep)
            continue
        ok = True
        for (kind, k, bcls, cls, out, res, post, acts), a in zip(seen, fa):
            diffs = G.state_eq_v2(a["state"], post, [], F(1, 10 ** 11)) if kind == "status" else cmp(a, out, res, post, acts, F(1, 10 ** 11))
            if diffs:
                ctx.disagree(f"v2 fold over {len(seen)} events: first difference at bar {k} ({bcls}) {kind}: " + "; ".join(diffs)[:600], rep)
                ok = False
                break
        ctx.case(f"v2:fold:{len([1 for x in seen if x[0] == 'status'])}bars:{'agree' if ok else 'DISAGREE'}", n=len(seen))
    ref = driver_json([{"fn": "gmx.fields"}], exe="driver_gmx")[0]
    if fields is not None and sorted(ref.get("v2", [])) != fields:
        ctx.disagree(f"GmxV2Market objects carry state the model does not know (or lost some): vars(market) = {fields}, model objectFields = {sorted(ref.get('v2', []))}", {"world": None})


def v2_roundtrip_case(ctx, spec, la, sa, record=True):
    w = G.V2World.from_spec(spec)
    rep = {"world": spec, "roundtrip": {"long": repr(la), "short": repr(sa)}}
    sub = ctx if record else Ctx(ctx.prop, ctx.tier, ctx.seed, False)
    pre0 = w.dump()
    op = {"kind": "deposit", "long": la, "short": sa}
    out, r, _ = w.apply(op)
    mid = w.dump()
    wallet_delta_oracle(sub, 2, w, op, out, r, pre0, mid, rep)
    if out != "ok":
        return None
    op2 = {"kind": "withdraw", "amount": r.gm_amount}
    o2, r2, _ = w.apply(op2)
    post = w.dump()
    if o2 != "ok" or all(math.isfinite(x) for x in (r2.long_amount, r2.short_amount)):
        wallet_delta_oracle(sub, 2, w, op2, o2, r2, mid, post, rep)
    if o2 != "ok":
        return None
    d = w.market._market_status.data
    lp, sp = F(float(d.longPrice)), F(float(d.shortPrice))
    paid = F(la) * lp + F(sa) * sp
    back = F(r2.long_amount) * lp + F(r2.short_amount) * sp
    imp = r.price_impact_usd
    ok = back <= paid * (1 + F(1, 10 ** 12))
    # the same on the wallet itself: value of (long, short) balances after vs before the round trip, at the row's prices
    val = lambda dmp: sum(F(v) * (lp if k == w.long.name else sp) for k, v in dmp["wallet"] if k in (w.long.name, w.short.name))
    v0, v1 = val(pre0), val(post)
    if v1 - v0 > (back - paid) + F(1, 10 ** 12) * max(abs(v0), abs(v1), paid):
        ok = False
        if record:
            ctx.violate("v2.roundtrip.wallet_value", f"deposit({la!r}, {sa!r}) then withdraw of the minted GM: wallet value moved by {float(v1 - v0)!r} USD while the calls "
                        f"returned {float(back)!r} for {float(paid)!r} paid", rep)
    if sub is not ctx and sub.violations:
        ok = False
    if not ok and record:
        key = "v2.roundtrip.profit.positive_impact" if imp > 0 else "v2.roundtrip.profit"
        ctx.violate(key, f"deposit({la!r}, {sa!r}) then withdraw of the minted {r.gm_amount!r} GM returns value {float(back)!r} > paid {float(paid)!r} (price impact {imp!r} USD)",
                    rep)
    return ok, imp, paid, back


def v2_roundtrips(ctx: Ctx, n: int):
    for _ in range(n):
        pool, pcls = G.gen_v2_pool(ctx.rng)
        if pcls.startswith("zero"):
            continue
        cfg = G.gen_v2_cfg(ctx.rng)
        side = ctx.rng.random()
        usd = G._logu(ctx.rng, 0, 7)
        la = usd / pool["longPrice"] if side < 0.6 else 0.0
        sa = usd / pool["shortPrice"] if side > 0.4 else 0.0
        w = G.V2World(pool, cfg, [("weth", Decimal(str(la)) * 2), ("usdc", Decimal(str(sa)) * 2)])
        r = v2_roundtrip_case(ctx, w.spec(), la, sa)
        ctx.impl_traces += 1
        if r is None:
            ctx.case("v2:roundtrip:rejected")
        else:
            ok, imp, paid, back = r
            ctx.case(f"v2:roundtrip:{'ok' if ok else 'PROFIT'}:impact{'+' if imp > 0 else ('-' if imp < 0 else '0')}:{'long' if sa == 0 else ('short' if la == 0 else 'both')}:{pcls}:{'cfg' if cfg else 'default'}",
                     {"pool": pcls, "long": la, "short": sa, "paid": float(paid), "back": float(back), "impact": imp})


def v2_sequence_case(ctx, spec, ops, record=True):
    """theorem C17_v2_sequence_no_profit on the implementation: any list of deposit / withdraw (None = everything) calls in one bar whose accepted
    deposits carry no positive price impact; if the GM holding at the end is at least the holding at the start, the value withdrawn (at the row's
    prices) does not exceed the value deposited.  Returns (holds?, paid, back, outcomes, any positive impact?) or None (premise not met)."""
    w = G.V2World.from_spec(spec)
    rep = {"world": spec, "sequence": {"ops": [ser_op(o) for o in ops]}}
    sub = ctx if record else Ctx(ctx.prop, ctx.tier, ctx.seed, False)
    d = w.market._market_status.data
    lp, sp = F(float(d.longPrice)), F(float(d.shortPrice))
    a0 = float(w.market.amount)
    paid = back = F(0)
    outs, positive = [], False
    for op in ops:
        pre = w.dump()
        out, res, _ = w.apply(op)
        post = w.dump()
        if out != "ok" or all(math.isfinite(float(getattr(res, k))) for k in ("long_amount", "short_amount")):
            wallet_delta_oracle(sub, 2, w, op, out, res, pre, post, rep)
        outs.append(out)
        if out == "ok" and op["kind"] == "deposit":
            paid += F(float(op["long"])) * lp + F(float(op["short"])) * sp
            positive = positive or res.price_impact_usd > 0
        elif out == "ok":
            back += F(res.long_amount) * lp + F(res.short_amount) * sp
    if not (float(w.market.amount) >= a0):
        return None
    ok = positive or back <= paid * (1 + F(1, 10 ** 11))
    if not ok and record:
        ctx.violate("v2.sequence.profit", f"{len(ops)} deposit/withdraw calls in one bar, no positive price impact -> {outs}: holding {a0!r} -> {w.market.amount!r}, value withdrawn "
                    f"{float(back)!r} > value deposited {float(paid)!r}"[:700], rep)
    if sub is not ctx and sub.violations:
        ok = False
    return ok, paid, back, outs, positive


def v2_sequence_runs(ctx: Ctx, n: int):
    for _ in range(n):
        pool, pcls = G.gen_v2_pool(ctx.rng)
        if pcls.startswith("zero"):
            continue
        cfg = G.gen_v2_cfg(ctx.rng)
        a0 = ctx.rng.choice([0.0, 0.0, round(G._logu(ctx.rng, -2, 6), 4)])
        w = G.V2World(pool, cfg, [("weth", Decimal(10) ** 9), ("usdc", Decimal(10) ** 12)], amount=a0)
        spec = w.spec()
        # the heavy side of the pool: deposits there are priced with a negative impact
        heavy_long = pool["longAmount"] * pool["longPrice"] >= pool["shortAmount"] * pool["shortPrice"]
        ops, shape = [], []
        for i in range(ctx.rng.randint(2, 6)):
            c = ctx.rng.random()
            held = float(w.market.amount)
            if c < 0.45 or i == 0:
                usd = G._logu(ctx.rng, 0, 6)
                side_long = heavy_long if ctx.rng.random() < 0.85 else not heavy_long
                both = ctx.rng.random() < 0.15
                op = {"kind": "deposit", "long": usd / pool["longPrice"] if (side_long or both) else 0.0, "short": usd / pool["shortPrice"] if (not side_long or both) else 0.0}
                sh = "d"
            elif c < 0.6:
                op, sh = {"kind": "withdraw", "amount": None}, "A"
            elif c < 0.7:
                op, sh = {"kind": "withdraw", "amount": held * 10 + 1}, "x"
            else:
                op, sh = {"kind": "withdraw", "amount": held * ctx.rng.uniform(0.05, 0.95)}, "w"
            w.apply(op)
            ops.append(op)
            shape.append(sh)
        surplus = float(w.market.amount) - a0
        if surplus > 0 and ctx.rng.random() < 0.8:
            ops.append({"kind": "withdraw", "amount": None if a0 == 0.0 and ctx.rng.random() < 0.6 else surplus})
            shape.append("A" if ops[-1]["amount"] is None else "c")
        r = v2_sequence_case(ctx, spec, ops)
        ctx.impl_traces += 1
        if r is None:
            ctx.case("v2:sequence:premise-not-met")
        else:
            ok, paid, back, outs, positive = r
            ctx.case(f"v2:sequence:{'ok' if ok else 'PROFIT'}:{'impact+' if positive else 'impact<=0'}:{''.join(shape)}:{'held0' if a0 == 0 else 'held+'}:"
                     f"{'some-rejected' if any(o != 'ok' for o in outs) else 'all-accepted'}:{'cfg' if cfg else 'default'}", {"pool": pcls, "paid": float(paid), "back": float(back)})


# ---------------------------------------------------------------------------------------------------- whole runs through the real Actuator
def _quiet_actuator():
    import logging
    logging.disable(logging.INFO)


def v1_actuator_runs(ctx: Ctx, n: int):
    """whole backtests through the real Actuator on GENERATED multi-row frames (every group of row fields changing between bars): a strategy
    buys / sells / reads fees at random bars on the one live market; Actuator itself moves the market from bar to bar and calls update().
    Every call, every bar's reported balance and wallet are compared with the model's own fold over the whole run (`gmx1.events`)."""
    import pandas as pd
    from demeter import Actuator, Strategy
    _quiet_actuator()
    folds = []
    for _ in range(n):
        rows, names, classes = G.gen_v1_frame(ctx.rng, nbars=ctx.rng.randint(5, 14))
        wallet = [(t, G.rand_dec(ctx.rng, 0, 7, 6)) for t in names]
        w = G.V1World(rows, names, wallet)
        a = Actuator()
        a.broker.add_market(w.market)
        w.broker = a.broker
        for t, b in wallet:
            a.broker.set_balance(w.tok[t], b)
        idx = [G.bar_ts(k) for k in range(len(rows))]
        a.set_price(pd.DataFrame({w.tok[t].name: [Decimal(int(r[f"{t}_price"])) / G.E30 for r in rows] for t in names}, index=idx))
        log = []          # per bar: [(op, cls, out, res, post)]
        spec0 = w.spec_bars()
        hist = []

        class S(Strategy):
            def on_bar(self_, snapshot):
                k = len(log)
                w.bar = k
                hist.append({"bar": k})
                done = []
                for probe in [ctx.rng.random() < 0.4 for _ in range(ctx.rng.choice([0, 0, 1, 1, 2, 3]))]:
                    op, cls = gen_fee_probe(ctx.rng, w) if probe else G.gen_v1_op(ctx.rng, w)
                    if op["kind"] == "update":
                        continue
                    pre = w.dump()
                    hist.append(ser_op(op))
                    rep = {"world": spec0, "events": list(hist), "via": "actuator"}
                    out, res, _ = w.apply(op)
                    post = w.dump()
                    v1_step_oracle(ctx, w, op, cls, out, res, pre, post, None, rep)
                    done.append((op, cls, out, res, post))
                hist.append({"kind": "update"})
                log.append(done)

        st0 = w.dump()
        env0 = w.env_json()
        a.strategy = S()
        a.run(print_result=False)
        ctx.impl_traces += len(rows)
        evs, seen = [], []
        for k in range(len(rows)):
            w.bar = k
            r = w.market.data.iloc[k]
            env = {"rows": env0["rows"] and [{"name": t, "price": F(r[f"{t}_price"]), "usdg": F(r[f"{t}_usdg"]), "weight": F(int(r[f"{t}_weight"]))} for t in [x["name"] for x in env0["rows"]]],
                   "tokenSet": env0["tokenSet"], "glp": F(r["glp"]), "aum": F(r["aum"]), "usdg": F(r["usdg"]), "interval": F(float(r["interval"])),
                   "glp_price": F(r["glp_price"]), "wavax_price": F(r["wavax_price"])}
            evs.append({"ev": "status", "env": env})
            seen.append(("status", k, None))
            for op, cls, out, res, post in log[k]:
                evs.append(v1_event_json(op, w))
                seen.append((op["kind"], k, (op, cls, out, res, post)))
            evs.append({"ev": "op", "op": {"kind": "update"}})
            seen.append(("update", k, None))
            evs.append({"ev": "balance"})
            seen.append(("balance", k, a._account_status_list[k]))
        folds.append((seen, classes, len(a.actions), w.market.market_info,
                      {"fn": "gmx1.events", "env0": env0, "state": {"glp": st0["glp"], "reward": st0["reward"], "wallet": st0["wallet"]}, "events": evs,
                              "allowNeg": bool(w.allow_negative)},
                      {"world": spec0, "events": list(hist), "via": "actuator"}))
    import logging
    logging.disable(logging.NOTSET)
    if not ctx.driver_ok:
        return
    for (seen, classes, nact, key, req, rep), fa in zip(folds, driver_json([f[4] for f in folds], exe="driver_gmx")):
        if isinstance(fa, dict):
            ctx.disagree(f"v1 actuator run: driver error {fa}"[:300], rep)
            continue
        ok = True
        for (kind, k, x), ans in zip(seen, fa):
            bad = None
            if kind == "balance":
                bal = x.market_status[key]
                mw = {t: F(v) for t, v in ans["wallet"]}
                iw = {t.name: F(v) for t, v in x.asset_balances.items()}
                if F(ans["net_value"]) != F(bal.net_value) or F(ans["glp"]) != F(bal.glp) or F(ans["reward"]) != F(bal.reward) or mw != iw:
                    bad = f"account row: impl {bal} wallet {iw} model {ans}"
            elif kind in ("buy", "sell", "fee"):
                op, cls, out, res, post = x
                if ans["outcome"] != out:
                    bad = f"{kind} ({cls}) outcome impl {out} model {ans['outcome']}"
                elif kind == "fee":
                    if out == "ok" and F(ans["fee"]) != F(res):
                        bad = f"fee impl {res} model {ans['fee']}"
                elif (out == "ok" and F(ans["result"]) != F(res)) or F(ans["state"]["glp"]) != F(post["glp"]) or \
                        [(t, F(v)) for t, v in ans["state"]["wallet"]] != [(t, F(v)) for t, v in post["wallet"]]:
                    bad = f"{kind} ({cls}): impl {res} {post} model {ans}"
                ctx.case(f"v1:actuator:{kind}:{out}:{cls}:{'bar0' if k == 0 else classes[k]}")
            if bad:
                ctx.disagree(f"v1 actuator run ({len(classes)} bars): first difference at bar {k} ({classes[k]}): {bad}"[:700], rep)
                ok = False
                break
        if ok and int(fa[-1]["actions"]) != nact:
            ctx.disagree(f"v1 actuator run: {nact} actions recorded, model {fa[-1]['actions']}", rep)
            ok = False
        ctx.case(f"v1:actuator-run:{'agree' if ok else 'DISAGREE'}", n=len(classes))


def v2_actuator_runs(ctx: Ctx, n: int):
    """the same for GmxV2Market: generated multi-row frames (and, if present, a window of the recorded sample day) through the real Actuator"""
    import os
    import pandas as pd
    from demeter import Actuator, Strategy
    from common import REPO
    _quiet_actuator()
    folds = []
    sample = os.path.join(REPO, "samples", "data", "arbitrum-GmxV2-0x70d95587d40a2caf56bd97485ab3eec10bee6336-2025-01-08.minute.csv")
    rec = pd.read_csv(sample, index_col=0, parse_dates=True) if os.path.exists(sample) and os.path.getsize(sample) > 0 else None
    ctx.note("v2_recorded_sample_rows", 0 if rec is None else len(rec))
    for i in range(n):
        if rec is not None and i % 3 == 2:
            nb = ctx.rng.randint(5, 30)
            st = ctx.rng.randrange(0, len(rec) - nb)
            pools = [{k_: float(rec.iloc[j][k_]) for k_ in G.V2_FIELDS} for j in range(st, st + nb)]
            classes = ["recorded"] * nb
        else:
            pools, classes = G.gen_v2_frame(ctx.rng, nbars=ctx.rng.randint(5, 14), series=True)
        cfg = G.gen_v2_cfg(ctx.rng)
        wallet = [("weth", G.rand_dec(ctx.rng, 0, 5, 9)), ("usdc", G.rand_dec(ctx.rng, 2, 8, 6))]
        w = G.V2World(pools, cfg, wallet, series=True)
        a = Actuator()
        a.broker.add_market(w.market)
        w.broker = a.broker
        for t, b in wallet:
            a.broker.set_balance(w.long if t == "weth" else w.short, b)
        idx = [G.bar_ts(k) for k in range(len(pools))]
        a.set_price(pd.DataFrame({w.long.name: [q["longPrice"] for q in pools], w.short.name: [q["shortPrice"] for q in pools]}, index=idx))
        log, hist = [], []
        spec0 = w.spec_bars()

        class S(Strategy):
            def on_bar(self_, snapshot):
                k = len(log)
                w.bar = k
                hist.append({"bar": k})
                done = []
                for _ in range(ctx.rng.choice([0, 0, 1, 1, 2])):
                    op, cls = G.gen_v2_op(ctx.rng, w)
                    pre = w.dump()
                    hist.append(ser_op(op))
                    rep = {"world": spec0, "events": list(hist), "via": "actuator"}
                    out, res, _ = w.apply(op)
                    post = w.dump()
                    v2_step_oracle(ctx, w, op, out, res, pre, post, rep)
                    done.append((op, cls, out, res, post))
                log.append(done)

        st0 = w.dump()
        pool0 = w.pool_json()
        a.strategy = S()
        a.run(print_result=False)
        ctx.impl_traces += len(pools)
        evs, seen = [], []
        for k in range(len(pools)):
            w.set_bar(k)
            evs.append({"ev": "status", "pool": w.pool_json()})
            seen.append(("status", k, None))
            for op, cls, out, res, post in log[k]:
                ev = {"ev": op["kind"]}
                if op["kind"] == "deposit":
                    ev["long"], ev["short"] = G.fl(float(op["long"])), G.fl(float(op["short"]))
                else:
                    ev["amount"] = None if op["amount"] is None else G.fl(float(op["amount"]))
                evs.append(ev)
                seen.append((op["kind"], k, (op, cls, out, res, post)))
            evs.append({"ev": "balance"})
            seen.append(("balance", k, a._account_status_list[k]))
        folds.append((seen, classes, len(a.actions), w.market.market_info,
                      w.events_request({"amount": G.fl(st0["amount"]), "wallet": st0["wallet"]}, pool0, evs), {"world": spec0, "events": list(hist), "via": "actuator"}))
    import logging
    logging.disable(logging.NOTSET)
    if not ctx.driver_ok:
        return
    tol = F(1, 10 ** 11)
    for (seen, classes, nact, key, req, rep), fa in zip(folds, driver_json([f[4] for f in folds], exe="driver_gmx")):
        if isinstance(fa, dict):
            ctx.disagree(f"v2 actuator run: driver error {fa}"[:300], rep)
            continue
        ok, nmodel = True, 0
        for (kind, k, x), ans in zip(seen, fa):
            bad = None
            nmodel += len(ans.get("state", {}).get("actions", []))
            if kind == "balance":
                bal = x.market_status[key]
                if ans["outcome"] != "ok" or any(not G.fclose(float(getattr(bal, f_)), ans[f_], tol) for f_ in ("net_value", "gm_amount", "long_amount", "short_amount")):
                    bad = f"account row: impl {bal} model {ans}"
                else:
                    iw = [[t.name, v] for t, v in x.asset_balances.items()]
                    d = G.state_eq_v2(ans["state"], {"amount": float(bal.gm_amount), "wallet": iw}, [], tol)
                    if d:
                        bad = "account row: " + "; ".join(d)
            elif kind in ("deposit", "withdraw"):
                op, cls, out, res, post = x
                if ans["outcome"] != out:
                    bad = f"{kind} ({cls}) outcome impl {out} model {ans['outcome']}"
                else:
                    d = G.state_eq_v2(dict(ans["state"], actions=[]), post, [], tol)
                    if out == "ok":
                        lp = G.lp_dict(res)
                        d += [f"{f_}: impl {lp[f_]!r} model {ans['result'][f_]}" for f_ in G.LP_FIELDS if not G.fclose(lp[f_], ans["result"][f_], tol)]
                    if d:
                        bad = f"{kind} ({cls}): " + "; ".join(d)
                ctx.case(f"v2:actuator:{kind}:{out}:{cls}:{'bar0' if k == 0 else classes[k]}")
            if bad:
                ctx.disagree(f"v2 actuator run ({len(classes)} bars): first difference at bar {k} ({classes[k]}): {bad}"[:700], rep)
                ok = False
                break
        if ok and nmodel != nact:
            ctx.disagree(f"v2 actuator run: {nact} actions recorded, model {nmodel}", rep)
            ok = False
        ctx.case(f"v2:actuator-run:{classes[0] if classes[0] == 'recorded' else 'generated'}:{'agree' if ok else 'DISAGREE'}", n=len(classes))


# ---------------------------------------------------------------------------------------------------- entry points
def run(ctx: Ctx):
    G.cap_violations(ctx)
    ctx.impl_traces = 0
    static0 = G.static_state_snapshot()
    v1_sequences(ctx, ctx.scale(700, 12000))
    v1_fee_sweep(ctx, ctx.scale(1500, 40000))
    v1_roundtrips(ctx, ctx.scale(500, 10000))
    v1_sequence_runs(ctx, ctx.scale(400, 8000))
    v1_multibar(ctx, ctx.scale(160, 3000))
    v2_sequences(ctx, ctx.scale(900, 15000))
    v2_roundtrips(ctx, ctx.scale(700, 12000))
    v2_sequence_runs(ctx, ctx.scale(400, 8000))
    v2_multibar(ctx, ctx.scale(160, 3000))
    v1_actuator_runs(ctx, ctx.scale(12, 150))
    v2_actuator_runs(ctx, ctx.scale(12, 150))
    G.special_stream(ctx, ctx.scale(500, 8000), "")
    G.static_state_check(ctx, static0)
    rec = G.recorded_rows()
    ctx.note("recorded_rows_available", rec is not None and len(rec))
    if rec is not None:
        # the accounting identity the generated rows are built on, checked on every recorded row
        worst = F(0)
        for i in range(0, len(rec), 1 if ctx.thorough else 7):
            r = rec.iloc[i]
            ident = (F(r["aum"]) / G.E30) / (F(r["glp"]) / G.E18)
            worst = max(worst, abs(F(r["glp_price"]) - ident) / ident)
        ctx.note("recorded_glp_price_identity_max_rel_dev", float(worst))
        if worst > F(1, 10 ** 12):
            ctx.disagree(f"recorded data: glp_price deviates from (aum/1e30)/(glp/1e18) by {float(worst)!r} relative", {"world": None})


def replay(ctx: Ctx, case) -> bool:
    sub = Ctx(ctx.prop, ctx.tier, ctx.seed, False)
    sp = case["world"]
    if "special" in case:
        return G.special_replay(case, "")
    if "sequence" in case:
        sq = case["sequence"]
        ops = [de_op(o) for o in sq["ops"]]
        r = v1_sequence_case(sub, sp, sq["tok"], ops) if sp["ver"] == 1 else v2_sequence_case(sub, sp, ops)
        print(f"   sequence -> {r}")
    elif "roundtrip" in case:
        rt = case["roundtrip"]
        if sp["ver"] == 1:
            r = v1_roundtrip_case(sub, sp, rt["tok"], Decimal(rt["amount"]), rt["parts"])
        else:
            r = v2_roundtrip_case(sub, sp, float(rt["long"]), float(rt["short"]))
    elif "fee" in case:
        w = G.V1World.from_spec(sp)
        fq = case["fee"]
        initial, weight, supply, total = G.v1_fee_inputs(w, fq["tok"])
        fee = F(w.market.get_fee_basis_points(w.token(fq["tok"]), Decimal(fq["usdg"]), fq["increase"]))
        vf = G.vault_fee_bps(initial, int(fq["usdg"]), G.vault_target(weight, supply, total), fq["increase"])
        print(f"   fee {fee} vault {vf}")
        if not (0 <= fee <= 85) or abs(fee - vf) > 1 + F(200 * total, max(1, weight * supply)):
            sub.violate("fee", "", {})
    elif "events" in case:
        w = G.V1World.from_spec(sp) if sp["ver"] == 1 else G.V2World.from_spec(sp)
        for o in case["events"]:
            if "bar" in o:
                w.set_bar(o["bar"])
                continue
            op = de_op(o)
            pre = w.dump()
            out, res, acts = w.apply(op)
            post = w.dump()
            rep = {"world": sp, "events": []}
            if sp["ver"] == 1:
                v1_step_oracle(sub, w, op, "", out, res, pre, post, None, rep)
                if out == "ok" and op["kind"] in ("buy", "sell") and F(op["amount"]) >= 0:
                    u = v1_op_usdg(w, op, pre["glp"])
                    if u is not None:
                        try:
                            v1_fee_oracle(sub, w, op["tok"], u[0], u[1], w.market.get_fee_basis_points(w.token(op["tok"]), Decimal(u[0]), u[1]), rep)
                        except ArithmeticError:
                            pass
            else:
                v2_step_oracle(sub, w, op, out, res, pre, post, rep)
    else:
        w = G.V1World.from_spec(sp) if sp["ver"] == 1 else G.V2World.from_spec(sp)
        for o in case["ops"]:
            op = de_op(o)
            pre = w.dump()
            spec = w.spec()
            out, res, acts = w.apply(op)
            post = w.dump()
            if sp["ver"] == 1:
                v1_step_oracle(sub, w, op, "", out, res, pre, post, spec)
            else:
                v2_step_oracle(sub, w, op, out, res, pre, post, {"world": spec, "ops": [o]})
    for v in sub.violations:
        print("  ", v["key"], v["what"])
    return not sub.violations
