"""C01 (Uniswap part) — UniLpMarket.get_market_balance equals an independent valuation of the raw positions (liquidity at the bar's
price plus uncollected amounts), each position once, positions transferred out (lent to another market) skipped; and the account's net
value on a Uniswap-only broker is wallet + that."""
from __future__ import annotations

from decimal import Decimal
from fractions import Fraction
from math import isqrt

from common import Ctx, driver_json, fmt
import uni_common as U
import c03_uni as G3

PROPERTY = "C01"
LEAN_MODULES = ["Proofs.C01.Uni", "Proofs.C01.UniLent", "Proofs.C01.UniSqueeth", "Proofs.C01.UniTransfer"]
DRIVERS = ["driver"]
RULE = ("[uni] random pools (decimals, fee tier, both token orders) and operation sequences (1–10 of add / remove / collect / swap / buy / sell / "
        "rebalance / add by value / transfer out / transfer in / a new bar with fee accrual); after every step get_market_balance and "
        "Broker.get_account_status are compared with a valuation written independently of the code paths (closed-form Uniswap amounts in exact "
        "Fractions from the raw position fields). Buckets = (last operation, #positions, #transferred, price regime mix, orientation). "
        "The count clause (every position counted exactly once) is evaluated too: this broker has no vault, so a position flagged `transferred` "
        "by a DIRECT call of the public transfer_position_out is counted by nobody (known finding uni.direct-transfer.flagged-position-without-vault, "
        "Lean witness C01_fails_direct_transfer).")
TRUSTED = ["[uni] the independent valuation uses the same integer sqrt price as the code (base_unit_price_to_sqrt_price_x96 is a C06/C07 matter) "
           "and exact Fractions for everything else; agreement is required at 1e-28 relative (Decimal rounding of ~10 operations)"]
ASSUMPTIONS = ["[uni] the account's price vector comes from the same status row (base = row price, quote = 1)"]
TOL = Fraction(1, 10 ** 28)
KEY_DIRECT_OUT = "uni.direct-transfer.flagged-position-without-vault"


def indep_amounts(s: int, sa: int, sb: int, liq, d0: int, d1: int):
    """closed-form token amounts of `liq` in [sa, sb] at sqrt price s (all Q96 integers), exact"""
    L = Fraction(liq)
    Q = 2 ** 96
    sa, sb = min(sa, sb), max(sa, sb)
    if L == 0:
        return Fraction(0), Fraction(0)
    if s <= sa:
        return L * Q * (sb - sa) / (sa * sb) / 10 ** d0, Fraction(0)
    if s < sb:
        return L * Q * (sb - s) / (s * sb) / 10 ** d0, L * (s - sa) / Q / 10 ** d1
    return Fraction(0), L * (sb - sa) / Q / 10 ** d1


def indep_balance(w):
    """net value, base/quote in positions, base/quote uncollected, count — from the raw fields only"""
    from demeter.uniswap.helper import base_unit_price_to_sqrt_price_x96 as p2s
    from demeter.uniswap.liquitidy_math import get_sqrt_ratio_at_tick as g
    pool, m = w.pool, w.market
    price = Fraction(m.market_status.data.price)
    s = p2s(m.market_status.data.price, pool.token0.decimal, pool.token1.decimal, pool.is_token0_quote)
    tot = {"base_in": Fraction(0), "quote_in": Fraction(0), "base_fee": Fraction(0), "quote_fee": Fraction(0), "count": 0}
    for k, p in m.positions.items():
        if p.transferred:
            continue
        a0, a1 = indep_amounts(s, g(k.lower_tick), g(k.upper_tick), p.liquidity, pool.token0.decimal, pool.token1.decimal)
        f0, f1 = Fraction(p.pending_amount0), Fraction(p.pending_amount1)
        if pool.is_token0_quote:
            a0, a1, f0, f1 = a1, a0, f1, f0      # -> (base, quote)
        tot["base_in"] += a0
        tot["quote_in"] += a1
        tot["base_fee"] += f0
        tot["quote_fee"] += f1
        tot["count"] += 1
    tot["net"] = (tot["base_in"] + tot["base_fee"]) * price + tot["quote_in"] + tot["quote_fee"]
    return tot


def close(a, b, scale):
    return abs(Fraction(a) - Fraction(b)) <= TOL * max(abs(Fraction(a)), abs(Fraction(b)), scale)


def check_state(ctx, w, rep, last_op):
    pool = w.pool
    ind = indep_balance(w)
    try:
        bal = w.market.get_market_balance()
    except Exception as e:  # noqa: BLE001
        ctx.violate(f"uni.balance.raises.{type(e).__name__}", f"get_market_balance raised {type(e).__name__} after {last_op}", rep)
        return
    scale = abs(ind["net"])
    price = Fraction(w.price) if w.price else Fraction(1)
    pairs = [("net_value", bal.net_value, ind["net"], scale), ("base_in_position", bal.base_in_position, ind["base_in"], scale / price),
             ("quote_in_position", bal.quote_in_position, ind["quote_in"], scale), ("base_uncollected", bal.base_uncollected, ind["base_fee"], scale / price),
             ("quote_uncollected", bal.quote_uncollected, ind["quote_fee"], scale),
             ("liquidity_value", bal.liquidity_value, ind["base_in"] * Fraction(w.market.market_status.data.price) + ind["quote_in"], scale)]
    for name, got, want, sc in pairs:
        if not close(got, want, sc):
            ctx.violate(f"uni.balance.{name}", f"after {last_op}: get_market_balance().{name} = {got}, independent valuation of the raw positions = {float(want):.20g}", rep)
        ctx.dev(Fraction(got), Fraction(want))
    if bal.position_count != ind["count"]:
        ctx.violate("uni.balance.position_count", f"position_count {bal.position_count} but {ind['count']} positions are not transferred out", rep)
    # the account on a uniswap-only broker: wallet at the bar's prices + the market's value, nothing else
    prices = {pool.base_token.name: w.market.market_status.data.price, pool.quote_token.name: Decimal(1)}
    st = w.broker.get_account_status(prices)
    wallet = sum(Fraction(a.balance) * Fraction(prices[t.name]) for t, a in w.broker.assets.items())
    if not close(st.net_value, wallet + ind["net"], scale + abs(wallet)):
        ctx.violate("uni.account.net_value", f"after {last_op}: account net value {st.net_value} != wallet {float(wallet):.12g} + positions {float(ind['net']):.12g}", rep)
    n_tr = sum(1 for p in w.market.positions.values() if p.transferred)
    # the count clause: this broker holds the pool alone — no vault references anything — so every position must be counted by the pool itself
    # (C01_uni_counted_exactly_once with no vaults); a flagged one is counted zero times and its value is missing from the account
    lost = [(k.lower_tick, k.upper_tick, p.liquidity) for k, p in w.market.positions.items() if p.transferred]
    if lost:
        ctx.violate(KEY_DIRECT_OUT, f"after {last_op}: position(s) {lost} (lower, upper, liquidity) are flagged `transferred` although no market holds them: "
                    f"counted 0 times, account net value {st.net_value} omits them", rep)
    ctx.case(f"uni:{last_op}:npos{min(len(w.market.positions), 3)}:transferred{min(n_tr, 2)}:{'q0' if pool.is_token0_quote else 'q1'}")


def gen_op(rng, w):
    keys = list(w.market.positions.keys())
    r = rng.random()
    if keys and r < 0.12:
        k = rng.choice(keys)
        return {"op": "transfer_out", "lower": k.lower_tick, "upper": k.upper_tick}, "-"
    if keys and r < 0.2:
        k = rng.choice(keys)
        return {"op": "transfer_in", "lower": k.lower_tick, "upper": k.upper_tick}, "-"
    if r < 0.3:
        return {"op": "bar"}, "-"
    return G3.gen_op(rng, w, False)


def new_bar(rng, w, spec=None):
    """the next bar's status row.  Rows built by load_uni_v3_data carry the PREVIOUS bar's close as `price` (what deposits, withdrawals and the
    valuation use) and this bar's close as `closeTick` (what the fee accrual uses): `lag` rows keep that shape, so price and closeTick may sit on
    different sides of a range bound; `same` rows (hand-built frames) have both at the new tick; `quiet` bars repeat the previous row's price"""
    sp = w.pool.tick_spacing
    if spec is None:
        mode = rng.choice(("same", "same", "lag", "lag", "quiet"))
        close = getattr(w, "close", w.tick)
        t = close if mode == "quiet" else close + rng.randint(-60, 60) * sp // 2
        spec = {"mode": mode, "tick": (close if mode in ("lag", "quiet") else t), "close": t, "liq": str(rng.randint(10 ** 12, 10 ** 24)),
                "in0": str(rng.randint(0, 10 ** 22)), "in1": str(rng.randint(0, 10 ** 22))}
    w.tick, w.close = spec["tick"], spec["close"]
    w.price = w.market.tick_to_price(w.tick)
    w.set_status(w.close, w.price, Decimal(spec["liq"]), Decimal(spec["in0"]), Decimal(spec["in1"]))
    with U.guard("update"):
        w.market.update()
    return spec


def run(ctx: Ctx):
    U.cap_violations(ctx)
    rng = ctx.rng
    reqs = []
    for _ in range(ctx.scale(400, 8000)):
        w = U.World(rng)
        w.spec = {"pool": U.pool_json(w.pool), "tick": w.tick}
        hist = []
        check_state(ctx, w, {"world": w.spec, "ops": []}, "init")
        for _ in range(rng.randint(1, 10)):
            op, cls = gen_op(rng, w)
            if op["op"] == "bar":
                opj = dict(new_bar(rng, w), op="bar")
            else:
                op = U.fill_oracles(w, op)
                U.apply_op(w, op)
                opj = {k: (fmt(v) if isinstance(v, Decimal) else v) for k, v in op.items()}
            hist.append(opj)
            rep = {"world": w.spec, "ops": list(hist)}
            with U.guard("get_market_balance/get_account_status", {"world": U.world_spec(w), "ops": []}):
                check_state(ctx, w, rep, op["op"])
                b = w.market.get_market_balance()
            impl = {"net_value": U.num(b.net_value), "liquidity_value": U.num(Decimal(b.liquidity_value)), "base_uncollected": U.num(Decimal(b.base_uncollected)),
                    "quote_uncollected": U.num(Decimal(b.quote_uncollected)), "base_in_position": U.num(Decimal(b.base_in_position)),
                    "quote_in_position": U.num(Decimal(b.quote_in_position)), "position_count": str(b.position_count)}
            reqs.append((rep, {"fn": "uni.balance", "pool": U.pool_json(w.pool), "state": w.dump()}, impl))
    ctx.impl_traces += len(reqs)
    if ctx.driver_ok and reqs:
        out = driver_json([r[1] for r in reqs])
        for (rep, req, impl), o in zip(reqs, out):
            if "ok" not in o:
                ctx.disagree(f"[uni] uni.balance: model {o.get('error')}, impl ok", rep)
            else:
                d = U.diff_json(impl, o["ok"])
                if d:
                    ctx.disagree(f"[uni] get_market_balance differs from the model at {d}", rep)
    U.report_process_state(ctx)


def replay(ctx: Ctx, case) -> bool:
    import random
    if isinstance(case, dict) and case.get("kind") == "process-state":
        return U.replay_process_state(case)
    sub = Ctx(ctx.prop, ctx.tier, ctx.seed, False)
    U.cap_violations(sub)
    rng = random.Random(5)
    pj = case["world"]["pool"]
    w = U.World(rng, pool_spec=(pj["d0"], pj["d1"], pj["q0"]), fee=float(Fraction(pj["fee_rate"]) * 100), tick=case["world"]["tick"])
    w.spec = case["world"]
    DEC = ("a0", "a1", "base", "quote", "amount", "price", "value", "max0", "max1", "lower_price", "upper_price")
    for opj in case["ops"]:
        if opj["op"] == "bar":
            new_bar(rng, w, opj if "close" in opj else None)
        else:
            op = {k: (Decimal(v) if k in DEC and v is not None else v) for k, v in opj.items() if k not in ("lt", "ut", "tick_est", "ratio_amt")}
            U.apply_op(w, U.fill_oracles(w, op))
        check_state(sub, w, {}, opj["op"])
    for v in sub.violations:
        print("  ", v["key"], v["what"][:300])
    return not sub.violations
