"""Shared plumbing for the per-property harness modules (run with /venv/bin/python, PYTHONPATH=/repo).

A harness module `cXX.py` exposes

    PROPERTY = "CXX"
    LEAN_MODULES = ["Proofs.CXX", ...]   # lake targets whose `theorem`s are the property's obligations
    def run(ctx: Ctx) -> None            # generate cases, run the implementation, compare with the model

and reports through `ctx`:  ctx.case(tag, sample)            one explored case (tag = distinct-bucket key)
                            ctx.disagree(what, replay)       model and implementation differ on a step
                            ctx.violate(key, what, replay)   the implementation's own observations falsify the property
"""
from __future__ import annotations

import json
import os
import random
import subprocess
import sys
import time
from decimal import Decimal
from fractions import Fraction

VERIF = os.path.dirname(os.path.dirname(os.path.abspath(__file__)))
REPO = os.environ.get("DEMETER_REPO", "/repo")
LEAN_DIR = os.path.join(VERIF, "lean")
DRIVER_BIN = os.path.join(LEAN_DIR, ".lake", "build", "bin", "driver")


# ------------------------------------------------------------------------------------------ numbers
def fmt(x) -> str:
    """canonical token for the driver: ints as digits, Decimal/Fraction as plain decimal or n/d"""
    if isinstance(x, bool):
        return "1" if x else "0"
    if isinstance(x, int):
        return str(x)
    if isinstance(x, Decimal):
        if not x.is_finite():
            return "nan"
        return format(x, "f") if x == x.to_integral_value() or x.as_tuple().exponent > -400 else frac_str(Fraction(x))
    if isinstance(x, Fraction):
        return frac_str(x)
    if isinstance(x, float):
        return frac_str(Fraction(x))
    if isinstance(x, str):
        return x
    raise TypeError(f"fmt: {type(x)}")


def frac_str(f: Fraction) -> str:
    return str(f.numerator) if f.denominator == 1 else f"{f.numerator}/{f.denominator}"


def parse_num(s: str) -> Fraction:
    return Fraction(s)


def to_frac(x) -> Fraction:
    if isinstance(x, Fraction):
        return x
    if isinstance(x, (int, Decimal, float)):
        return Fraction(x)
    if isinstance(x, str):
        return Fraction(x)
    raise TypeError(type(x))


def rel_close(a: Fraction, b: Fraction, tol: Fraction) -> bool:
    if a == b:
        return True
    m = max(abs(a), abs(b))
    return abs(a - b) <= tol * m


# ------------------------------------------------------------------------------------------ driver
class DriverUnavailable(Exception):
    pass


def driver_batch(lines: list[str], timeout=1800, exe: str = "driver") -> list[str]:
    """send all request lines to a compiled Lean driver (lean_exe `exe`), return one answer line per request"""
    DRIVER_BIN = os.path.join(LEAN_DIR, ".lake", "build", "bin", exe)
    if not os.path.exists(DRIVER_BIN):
        raise DriverUnavailable(DRIVER_BIN + " missing")
    if not lines:
        return []
    data = ("\n".join(lines) + "\n").encode()
    p = subprocess.run([DRIVER_BIN], input=data, stdout=subprocess.PIPE, stderr=subprocess.PIPE, timeout=timeout)
    if p.returncode != 0:
        raise DriverUnavailable(f"driver exited {p.returncode}: {p.stderr.decode()[:500]}")
    out = p.stdout.decode().split("\n")
    if out and out[-1] == "":
        out.pop()
    if len(out) != len(lines):
        raise DriverUnavailable(f"driver answered {len(out)} lines for {len(lines)} requests")
    return out


def driver_json(reqs: list[dict], timeout=1800, exe: str = "driver") -> list[dict]:
    """JSON-protocol requests (`J <json>` lines); every request has a "fn" field; numbers are strings (see jsonable)"""
    lines = ["J " + json.dumps(jsonable(r), separators=(",", ":")) for r in reqs]
    out = driver_batch(lines, timeout, exe)
    res = []
    for o in out:
        if o.startswith("ERR"):
            res.append({"error": o})
        else:
            res.append(json.loads(o))
    return res


# ------------------------------------------------------------------------------------------ reporting
class Ctx:
    def __init__(self, prop: str, tier: str, seed: int, driver_ok: bool, search: bool = False, boost: bool = False):
        self.boost = boost                  # the property's anchored source changed since the recorded fingerprint: enlarged budgets
        self.prop = prop
        self.tier = tier
        self.seed = seed
        self.rng = random.Random(seed * 1000003 + sum(map(ord, prop)))
        self.driver_ok = driver_ok          # compiled driver available and built from the current model
        self.search = search                # a proof obligation / the tie is broken: run with enlarged budgets
        self.evaluations = 0
        self.buckets: dict[str, int] = {}
        self.samples: list = []
        self.disagreements: list = []
        self.violations: list = []          # (key, what, replay)
        self.notes: dict = {}
        self.impl_traces = 0
        self.max_dev = Fraction(0)
        self.t0 = time.time()

    @property
    def thorough(self):
        return self.tier == "thorough"

    def scale(self, quick: int, thorough: int) -> int:
        n = thorough if self.thorough else quick
        if self.thorough:
            return n
        if self.search:
            return n * 4
        return n * 3 if self.boost else n

    def case(self, tag: str, sample=None, n: int = 1):
        self.evaluations += n
        self.buckets[tag] = self.buckets.get(tag, 0) + n
        if sample is not None and len(self.samples) < 12 and self.buckets[tag] <= 1:
            self.samples.append(sample)

    def disagree(self, what: str, replay):
        if len(self.disagreements) < 50:
            self.disagreements.append({"what": what, "replay": replay})
        else:
            self.notes["disagreements_truncated"] = self.notes.get("disagreements_truncated", 0) + 1

    def violate(self, key: str, what: str, replay):
        if getattr(self, "part", None) and isinstance(replay, dict) and "part" not in replay:
            replay = dict(replay, part=self.part)
        if len(self.violations) < 200:
            self.violations.append({"key": key, "what": what, "replay": replay})

    def note(self, k, v):
        self.notes[k] = v

    def count(self, k, n=1):
        self.notes[k] = self.notes.get(k, 0) + n

    def dev(self, a: Fraction, b: Fraction):
        """record relative deviation between the exact-context model and the implementation"""
        m = max(abs(a), abs(b))
        if m != 0:
            d = abs(a - b) / m
            if d > self.max_dev:
                self.max_dev = d


def jsonable(x):
    if isinstance(x, (Decimal, Fraction)):
        return fmt(x)
    if isinstance(x, dict):
        return {str(k): jsonable(v) for k, v in x.items()}
    if isinstance(x, (list, tuple)):
        return [jsonable(v) for v in x]
    if isinstance(x, (int, str, bool)) or x is None:
        return x
    if isinstance(x, float):
        return repr(x)
    return str(x)
