"""C04, wallet/broker part — a rejected swap or wallet debit leaves wallet and action log exactly as they were."""
from __future__ import annotations

from decimal import Decimal
from fractions import Fraction

from common import Ctx, driver_json, fmt
import broker_h as H

PROPERTY = "C04"
LEAN_MODULES = ["Proofs.C04.Broker"]
DRIVERS = [H.DRIVER]
RULE = ("broker: for each rejection cause of swap_by_from/swap_by_to/subtract_from_balance (insufficient balance, token not in wallet, price missing "
        "for from/to token, fee rate out of range, zero price) a state in which exactly that cause fires, plus valid swaps; each with the amount "
        "handed over as Decimal, float or int, with allow_negative_balance off and on, and always with an action-record callback attached "
        "(a raise while the record is built is a rejection too); bucket = (operation, cause, outcome, argument class, allow_negative)")
TRUSTED = []
ASSUMPTIONS = []
CAUSES = ["valid", "negative-amount", "insufficient", "unknown-from", "price-from-missing", "price-to-missing", "fee-range", "fee-negative", "zero-price-to"]


def gen(rng, cause, kind):
    toks = rng.sample(H.TOKS, 3)
    f, t, other = toks
    wallet = [(f, H.rnd_dec(rng, -2, 6, allow_zero=False)), (t, H.rnd_dec(rng, -2, 6)), (other, H.rnd_dec(rng, -2, 6))]
    rng.shuffle(wallet)
    prices = {x: H.rnd_dec(rng, -3, 5, allow_zero=False) for x in toks}
    fee = Decimal("0.003")
    bal = dict(wallet)[f]
    amt = bal * Decimal(str(round(rng.random(), 6)))
    if cause == "negative-amount":
        amt = -amt - Decimal("0.001")
    elif cause == "insufficient":
        amt = bal * rng.choice((Decimal("1.0001"), Decimal(2), Decimal(1000))) + rng.choice((0, 1))
    elif cause == "unknown-from":
        wallet = [(k, v) for k, v in wallet if k != f]
    elif cause == "price-from-missing":
        del prices[f]
    elif cause == "price-to-missing":
        del prices[t]
    elif cause == "fee-range":
        fee = rng.choice((Decimal(1), Decimal("1.5")))
    elif cause == "fee-negative":
        fee = Decimal("-0.01")
    elif cause == "zero-price-to":
        prices[t if kind == "from" else f] = Decimal(0)
    if kind == "to" and cause == "insufficient":
        amt = amt * prices[f] / prices[t]
    return wallet, prices, f, t, amt, fee


def as_arg(amt, argkind):
    """the amount as the caller hands it over, and the Decimal `float_param_formatter` (object_to_decimal: Decimal(str(x))
    for float and int) makes of it — computed here from the property of repr, not by calling the repo's helper"""
    if argkind == "float":
        x = float(amt)
        return x, Decimal(repr(x))
    if argkind == "int":
        x = int(amt) - (1 if amt < 0 else 0)
        return x, Decimal(x)
    return amt, amt


def one(ctx, cause, kind, case, reqs, metas, argkind="dec", allow_neg=False):
    from demeter import TokenInfo
    wallet, prices, f, t, amt, fee = case
    amt_arg, amt = as_arg(amt, argkind)
    actions = []
    b, toks = H.mk_broker(wallet, None, actions, allow_negative=allow_neg)
    for x in (f, t):
        toks.setdefault(x, TokenInfo(name=x, decimal=18))
    before = H.wallet_dump(b)
    err = None
    try:
        (b.swap_by_from if kind == "from" else b.swap_by_to)(toks[f], toks[t], amt_arg, prices, fee)
    except Exception as e:  # noqa
        err = H.exc_class(e)
    after = H.wallet_dump(b)
    rep = {"part": "c04_broker", "wallet": before, "prices": list(prices.items()), "kind": kind, "from": f, "to": t, "amount": amt, "fee_rate": fee, "cause": cause,
           "argkind": argkind, "allow_neg": allow_neg}
    ctx.case(f"broker:swap_{kind}:{cause}:{err or 'accepted'}:{argkind}:{'neg' if allow_neg else 'noneg'}", rep)
    ok = True
    if err is not None and (after != before or actions):
        ok = False
        key = f"broker:swap_by_{kind}:{cause}" if argkind == "dec" and not allow_neg else f"broker:swap_by_{kind}:{cause}:{argkind}-amount:{err}"
        ctx.violate(key, f"rejected ({err}) swap left wallet {after} (was {before}), {len(actions)} action(s) logged", rep)
    if err is None and len(actions) != 1:
        ok = False
        ctx.violate(f"broker:swap_by_{kind}:accepted-without-one-record", f"accepted swap logged {len(actions)} action records", rep)
    reqs.append({"fn": "swapByFrom" if kind == "from" else "swapByTo", "wallet": before, "allow_neg": allow_neg, "from": f, "to": t,
                 "amount": amt, "prices": [[k, v] for k, v in prices.items()], "fee_rate": fee})
    rec = None
    if err is None and actions:
        a = actions[0]
        rec = (Decimal(a.from_amount), Decimal(a.to_amount), Decimal(a.fee))
    metas.append((err, after, rep, rec))
    return ok


def run(ctx: Ctx):
    reqs, metas = [], []
    per = ctx.scale(25, 1500)
    for cause in CAUSES:
        for kind in ("from", "to"):
            for _ in range(per):
                one(ctx, cause, kind, gen(ctx.rng, cause, kind), reqs, metas)
            # the same causes with the amount handed over as float / int and with allow_negative_balance on
            for argkind, allow_neg in (("float", False), ("float", True), ("int", False), ("dec", True)):
                for _ in range(max(3, per // 4)):
                    one(ctx, cause, kind, gen(ctx.rng, cause, kind), reqs, metas, argkind, allow_neg)
    # direct wallet debits
    from demeter import TokenInfo
    for _ in range(ctx.scale(200, 5000)):
        bal = H.rnd_dec(ctx.rng, -3, 6)
        amt = bal * ctx.rng.choice((Decimal("1.00002"), Decimal(3), Decimal("1.000009"), Decimal("0.5"))) + ctx.rng.choice((0, 0, 1))
        b, toks = H.mk_broker([("USDC", bal)], None, [])
        before = H.wallet_dump(b)
        err = None
        try:
            b.subtract_from_balance(toks["USDC"], amt)
        except Exception as e:  # noqa
            err = H.exc_class(e)
        after = H.wallet_dump(b)
        rep = {"part": "c04_broker", "debit": True, "balance": bal, "amount": amt}
        ctx.case(f"broker:subtract_from_balance:{err or 'ok'}", rep)
        if err is not None and after != before:
            ctx.violate("broker:subtract_from_balance:insufficient", f"rejected debit changed the balance {before} -> {after}", rep)
        reqs.append({"fn": "assetSub", "balance": bal, "amount": amt, "allow_neg": False})
        metas.append((err, after, rep, None))
    ctx.impl_traces += len(reqs)
    if not ctx.driver_ok:
        return
    for (err, after, rep, rec), ans in zip(metas, driver_json(reqs, exe=H.DRIVER)):
        merr = ans.get("error")
        if (err or None) != (merr or None):
            ctx.disagree(f"outcome: impl {err} vs model {merr}", rep)
            continue
        if rep.get("debit"):
            if err is None and Fraction(ans["balance"]) != Fraction(after[0][1]):
                ctx.disagree(f"Asset.sub: impl {after} vs model {ans}", rep)
            continue
        if [(k, Fraction(v)) for k, v in ans["wallet"]] != [(k, Fraction(v)) for k, v in after]:
            ctx.disagree(f"wallet after swap: impl {after} vs model {ans['wallet']}", rep)
        elif rec is not None and tuple(Fraction(x) for x in rec) != (Fraction(ans["from_amount"]), Fraction(ans["to_amount"]), Fraction(ans["fee"])):
            ctx.disagree(f"action record of the swap: impl {rec} vs model {ans}", rep)


def replay(ctx, case):
    from demeter import TokenInfo
    if case.get("debit"):
        b, toks = H.mk_broker([("USDC", Decimal(case["balance"]))], None, [])
        before = H.wallet_dump(b)
        try:
            b.subtract_from_balance(toks["USDC"], Decimal(case["amount"]))
            return True
        except Exception:  # noqa
            return H.wallet_dump(b) == before
    wallet = [(k, Decimal(v)) for k, v in case["wallet"]]
    prices = {k: Decimal(v) for k, v in case["prices"]}
    actions = []
    b, toks = H.mk_broker(wallet, None, actions, allow_negative=bool(case.get("allow_neg", False)))
    for x in (case["from"], case["to"]):
        toks.setdefault(x, TokenInfo(name=x, decimal=18))
    before = H.wallet_dump(b)
    amt = Decimal(case["amount"])
    amt = {"float": float, "int": int}.get(case.get("argkind", "dec"), lambda x: x)(amt)
    try:
        (b.swap_by_from if case["kind"] == "from" else b.swap_by_to)(toks[case["from"]], toks[case["to"]], amt, prices, Decimal(case["fee_rate"]))
        return len(actions) == 1
    except Exception:  # noqa
        return H.wallet_dump(b) == before and not actions
