"""C01, broker part — Broker.get_account_status = wallet at the bar's prices + every market's net value converted into the
account's quote token, each holding once.  Markets are stubs here (quote token + reported net value): the per-market
valuations are the other C01 parts."""
from __future__ import annotations

from decimal import Decimal
from fractions import Fraction

from common import Ctx, driver_json, fmt, rel_close
import broker_h as H

PROPERTY = "C01"
LEAN_MODULES = ["Proofs.C01.Broker"]
DRIVERS = [H.DRIVER]
RULE = ("broker: random wallets (0-5 tokens), 0-4 markets quoted in the account's token or another one, Decimal prices, incl. a missing "
        "price (KeyError) and negative net values; bucket = (#markets, #foreign-quoted, #wallet tokens, outcome)")
TRUSTED = ["broker part: markets are stubs (quote token, net value); the reported sum is compared bit-exactly with the model under Decimal prec-35 "
           "semantics and with an exact Fraction sum at 1e-30 relative (the theorem is for exact arithmetic)"]
ASSUMPTIONS = ["Decimal arithmetic = exact result rounded half-even to 35 digits"]
TOL = Fraction(1, 10 ** 30)


def gen(rng):
    from demeter import MarketInfo, TokenInfo
    toks = rng.sample(H.TOKS, rng.randint(1, 5))
    quote = rng.choice(toks)
    wallet = [(t, H.rnd_dec(rng, -6, 9)) for t in toks[: rng.randint(0, len(toks))]]
    prices = {t: (Decimal(1) if t == quote else H.rnd_dec(rng, -4, 5, allow_zero=False)) for t in H.TOKS}
    missing = None
    if rng.random() < 0.12:
        missing = rng.choice(H.TOKS)
        del prices[missing]
    n = rng.randint(0, 4)
    markets = []
    for i in range(n):
        q = quote if rng.random() < 0.5 else rng.choice(H.TOKS)
        nv = H.rnd_dec(rng, -3, 9)
        if rng.random() < 0.1:
            nv = -nv
        markets.append((f"m{i}", q, nv))
    return quote, wallet, prices, markets, missing


def run_impl(quote, wallet, prices, markets):
    from demeter import MarketInfo, TokenInfo
    b, toks = H.mk_broker(wallet, quote)
    for name, q, nv in markets:
        b.add_market(H.FakeMarket(MarketInfo(name), TokenInfo(name=q, decimal=18) if q != quote else b.quote_token, nv))
    try:
        st = b.get_account_status(prices)
        return {"asset_value": st.asset_value, "net_value": st.net_value}
    except Exception as e:  # noqa
        return {"error": H.exc_class(e)}


def oracle(quote, wallet, prices, markets):
    tot = Fraction(0)
    for k, v in wallet:
        if k not in prices:
            return None
        tot += Fraction(v) * Fraction(prices[k])
    for _, q, nv in markets:
        if q == quote:
            tot += Fraction(nv)
        elif q not in prices:
            return None
        else:
            tot += Fraction(nv) * Fraction(prices[q])
    return tot


def check(ctx, case):
    quote, wallet, prices, markets, missing = case
    got = run_impl(quote, wallet, prices, markets)
    want = oracle(quote, wallet, prices, markets)
    nf = sum(1 for _, q, _ in markets if q != quote)
    tag = f"broker:{len(markets)}m/{nf}f/{len(wallet)}w:{'err' if 'error' in got else 'ok'}"
    rep = {"part": "c01_broker", "quote": quote, "wallet": wallet, "prices": list(prices.items()), "markets": markets}
    ctx.case(tag, rep)
    ok = True
    if want is None:
        if got.get("error") != "KeyError":
            ok = False
            ctx.violate("broker:get_account_status:missing-price", f"a missing price did not raise KeyError: {got}", rep)
    else:
        if "error" in got:
            ok = False
            ctx.violate("broker:get_account_status:error", f"get_account_status raised {got['error']} although every price is present", rep)
        else:
            nv = Fraction(got["net_value"])
            ctx.dev(nv, want)
            if not rel_close(nv, want, TOL) and abs(nv - want) > Fraction(1, 10 ** 30):
                ok = False
                ctx.violate("broker:get_account_status:sum", f"reported net value {got['net_value']} != independent valuation {fmt(want)}", rep)
    return got, rep, ok


def run(ctx: Ctx):
    n = ctx.scale(1500, 40000)
    cases = [gen(ctx.rng) for _ in range(n)]
    reqs, gots = [], []
    for c in cases:
        got, rep, _ = check(ctx, c)
        gots.append((got, rep))
        quote, wallet, prices, markets, _ = c
        reqs.append({"fn": "accountStatus", "quote": quote, "prices": [[k, v] for k, v in prices.items()],
                     "markets": [[n_, q, nv] for n_, q, nv in markets], "wallet": [[k, v] for k, v in wallet]})
    ctx.impl_traces += len(cases)
    if not ctx.driver_ok:
        return
    for (got, rep), ans in zip(gots, driver_json(reqs, exe=H.DRIVER)):
        if "error" in got or "error" in ans:
            if got.get("error") != ans.get("error"):
                ctx.disagree(f"get_account_status: impl {got} vs model {ans}", rep)
            continue
        for k in ("asset_value", "net_value"):
            if Fraction(got[k]) != Fraction(ans[k]):
                ctx.disagree(f"get_account_status.{k}: impl {got[k]} vs model {ans[k]}", rep)


def replay(ctx, case):
    c = (case["quote"], [tuple(x) for x in case["wallet"]], {k: Decimal(v) for k, v in case["prices"]},
         [tuple(x) for x in case["markets"]], None)
    c = (c[0], [(k, Decimal(v)) for k, v in c[1]], c[2], [(a, b, Decimal(v)) for a, b, v in c[3]], None)
    return check(ctx, c)[2]
