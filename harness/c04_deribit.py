"""C04, Deribit part — a rejected buy / sell / deposit / withdraw leaves cash, positions, visible order book, broker
wallet, cached balance and action log intact, for every rejection cause.

Rejection-directed generator: a random reachable state (random book, random prefix of accepted trades inside the
bar so levels are partly filled and sizes have become floats) and then one call built to fail exactly one
precondition.  Oracle: deep snapshot before/after the raising call.  Correspondence: the same call on driver_deribit."""
from __future__ import annotations

import copy
from decimal import Decimal
from fractions import Fraction

import deribit_lib as L
from common import Ctx

PROPERTY = "C04"
LEAN_MODULES = ["Proofs.C04.Deribit"]
DRIVERS = ["driver_deribit"]
RULE = ("[deribit] one bucket per (operation, intended rejection cause, exception class, state class: fresh book / after a prefix of accepted trades / "
        "closed bar); causes: market closed, unknown instrument, instrument not open, below min amount, no order at limit price (token and usd), "
        "insufficient depth (market / limit / under a mark cap), insufficient cash (plain, and after matching under a mark cap: market and limit), "
        "not held / exceeds holding (plain and with a mark floor), zero or negative cap multiple, "
        "wallet short, token missing from wallet, negative amount, cash short on withdraw")
TRUSTED = ["float arithmetic of order-book sizes reproduced with Lean Float in the driver; the theorems hold for every arithmetic context"]
ASSUMPTIONS = ["instrument names unique, sizes finite and non-negative (30 % of the sides are unsorted rows with repeated prices)"]

CAUSES_TRADE = ["closed", "unknown", "not-open", "below-min", "no-order-tok", "no-order-usd", "depth-market", "depth-limit", "depth-cap",
                "cap-zero", "cap-negative"]
CAUSES = {
    "buy": CAUSES_TRADE + ["cash", "cash-cap", "cash-limit-cap"],
    "sell": CAUSES_TRADE + ["not-held", "exceeds-holding", "not-held-cap", "exceeds-holding-cap"],
    "deposit": ["wallet-short", "wallet-missing", "negative"],
    "withdraw": ["cash-short", "negative"],
}


def snapshot(rig: L.Rig):
    """everything C04 names: cash, positions, visible book, wallet, cached balance, flags + action log length + the frame behind the book"""
    s = L.dump_state(rig)
    m = rig.market
    raw = {
        "positions_raw": {k: copy.deepcopy(vars(p)) for k, p in m.positions.items()},
        "balance_raw": m.balance,
        "assets_raw": {k.name: v.balance for k, v in rig.broker._assets.items()},
        "book_cells": [(n, copy.deepcopy(r["asks"]), copy.deepcopy(r["bids"])) for n, r in m.market_status.data.iterrows()],
        "n_actions": len(rig.actions),
        "quote": m.quote_token.name,
    }
    return s, raw


def base_state(rng, token):
    now = 60 * rng.randint(1, 200)
    instrs = L.gen_book(rng, token, now, crossed=True, n=rng.choice((2, 3, 4)), rough=0.3)
    # make sure there is an open instrument with depth on both sides and one closed instrument
    good = None
    for i in instrs:
        if i["state"] == "open" and len(i["asks"]) >= 2 and len(i["bids"]) >= 2 and all(l[1] for l in i["asks"] + i["bids"]):
            good = i
            break
    if good is None:
        good = instrs[0]
        good["state"] = "open"
        k = max(8, int(round(good["mark"] / 0.0005)))
        good["asks"] = [[L.grid_price(k + 1), rng.randint(1, 50)], [L.grid_price(k + 3), rng.randint(1, 500) / 10], [L.grid_price(k + 4), rng.randint(1, 90)]]
        good["bids"] = [[L.grid_price(k - 1), rng.randint(1, 50)], [L.grid_price(k - 3), float(rng.randint(1, 500))]]
    instrs[-1]["state"] = "closed" if instrs[-1] is not good else "open"
    held = Decimal(rng.randint(1, 40)) if token == "ETH" else Decimal(rng.randint(1, 400)) / 10
    positions = [{"name": good["name"], "expiry": good["expiry"], "strike": good["strike"], "kind": good["kind"], "amount": str(held),
                  "avgBuy": "0.03", "buyAmt": str(held + 1), "avgSell": "0.02", "sellAmt": "1"}]
    return now, instrs, good, positions, held


def build_case(rng, opname, cause):
    token = "ETH" if rng.random() < 0.75 else "BTC"
    step = Decimal(1) if token == "ETH" else Decimal("0.1")
    now, instrs, good, positions, held = base_state(rng, token)
    cash = Decimal(rng.choice(("1000", "25", "3.5")))
    wallet = Decimal(rng.choice(("5", "0.75", "120")))
    spec = {"instrs": instrs, "now": now, "token": token, "wallet": str(wallet), "cash": str(cash), "positions": positions, "is_open": None,
            "prefix": [], "wallet_missing": False}
    sclass = "fresh"
    if rng.random() < 0.5 and opname in ("buy", "sell"):
        # accepted trades first: partly filled levels (float sizes), an existing position record with history
        side_levels = good["asks"]
        a0 = min(L.level_dec(side_levels[0][1]), Decimal(3) if token == "ETH" else Decimal("0.3"))
        if a0 >= step:
            spec["prefix"].append({"type": "buy", "name": good["name"], "amount": a0.quantize(step)})
            spec["prefix"].append({"type": "sell", "name": good["name"], "amount": step})
            sclass = "after-trades"
    name = good["name"]
    # best price first, one level per price: what the order is matched against (the rows themselves may be unsorted / repeat a price)
    levels = L.norm_levels(good["asks"] if opname == "buy" else good["bids"], opname)
    op = {"type": opname}
    if opname in ("buy", "sell"):
        op.update({"name": name, "amount": step * rng.randint(1, 2)})
        total = sum((L.level_dec(l[1]) for l in levels), Decimal(0))
        if cause == "closed":
            spec["is_open"] = False
            sclass = "closed-bar"
        elif cause == "unknown":
            op["name"] = "ETH-1JAN30-9999-C"
        elif cause == "not-open":
            closed = [i for i in instrs if i["state"] != "open"]
            if not closed:
                instrs[0 if instrs[0] is not good else -1]["state"] = "closed"
                closed = [i for i in instrs if i["state"] != "open"]
            if not closed:   # single instrument book: close it
                good["state"] = "closed"
                closed = [good]
            op["name"] = closed[0]["name"]
        elif cause == "below-min":
            op["amount"] = rng.choice((0, -1, step / 2, step / 10, Decimal("0.9999") * step))
        elif cause == "no-order-tok":
            op["priceTok"] = rng.choice((Decimal(str(levels[0][0])) * Decimal("1.0011"), Decimal(str(levels[0][0])) * Decimal("0.9989"), 0, -0.02, 7.5))
        elif cause == "no-order-usd":
            op["priceUsd"] = rng.choice((0.01, 99999.0, round(levels[0][0] * good["underlying"] * 1.01, 2)))
        elif cause == "depth-market":
            op["amount"] = (total + step * rng.choice((1, 7, 1000))).quantize(step)
        elif cause == "depth-limit":
            op["priceTok"] = levels[-1][0]
            op["amount"] = (L.level_dec(levels[-1][1]) + step * rng.choice((1, 2))).quantize(step) + (step if token == "ETH" else 0)
        elif cause == "depth-cap":
            # a cap that leaves only the best level
            if opname == "buy":
                op["mult"] = Decimal(str(levels[0][0])) / Decimal(str(good["mark"])) * Decimal("1.00001")
            else:
                op["mult"] = Decimal(str(good["mark"])) / Decimal(str(levels[0][0])) * Decimal("1.00001")
            op["amount"] = (L.level_dec(levels[0][1]) + step * 2).quantize(step) + step
        elif cause == "cap-zero":
            op["mult"] = 0
        elif cause == "cap-negative":
            op["mult"] = rng.choice((-1, -0.5))
            if opname == "sell":
                op["amount"] = (held + step * 3).quantize(step)   # negative floor keeps every bid: reject through the holding
        elif cause == "cash":
            # the account can pay less than premium + fee: well short, short by a hair, exactly the premium, or the premium and part of the
            # fee (a debit made in two steps would take the premium and then fail on the fee)
            left, premium = Decimal(op["amount"]), Decimal(0)
            for l in levels:
                take = min(left, L.level_dec(l[1]))
                premium += take * Decimal(str(l[0]))
                left -= take
                if left <= 0:
                    break
            fee = min(Decimal("0.0003") * Decimal(op["amount"]), Decimal("0.125") * premium)
            spec["cash"] = str(rng.choice((premium * Decimal("0.9"), premium * Decimal("0.999999"), premium, premium + fee / 2,
                                           premium + fee * Decimal("0.999"), Decimal(0))))
            spec["prefix"] = []
            sclass = "fresh"
        elif cause in ("cash-cap", "cash-limit-cap"):
            # rejected AFTER the matching: the order passes check_transaction under a mark cap, the levels the cap allows are walked
            # (on copies), then the account cannot pay -- the visible book must still be what it was
            keep = rng.randint(1, len(levels))
            edge = Decimal(str(levels[keep - 1][0])) / Decimal(str(good["mark"]))
            op["mult"] = rng.choice((edge * Decimal("1.00001"), Decimal(1000), 50.0, 10 ** 6))
            allowed = levels[:keep] if isinstance(op["mult"], Decimal) and op["mult"] < 1000 else levels
            depth = sum((l[1] for l in allowed), Decimal(0))
            if cause == "cash-limit-cap":
                op["priceTok"] = allowed[0][0]
                depth = allowed[0][1]
            op["amount"] = max(step, (depth * Decimal(rng.randint(30, 100)) / 100).quantize(step))
            spec["cash"] = str(Decimal(str(allowed[0][0])) * op["amount"] * Decimal(rng.choice(("0.9", "0.5", "0.999", "0"))))
            spec["prefix"] = []
            sclass = "fresh"
        elif cause in ("not-held", "not-held-cap"):
            spec["positions"] = []
            spec["prefix"] = []
            sclass = "fresh"
            if cause == "not-held-cap":
                op["mult"] = rng.choice((Decimal(1000), 50.0, 10 ** 6))
        elif cause in ("exceeds-holding", "exceeds-holding-cap"):
            if cause == "exceeds-holding-cap":
                op["mult"] = rng.choice((Decimal(1000), 50.0, 10 ** 6))
            spec["prefix"] = []
            sclass = "fresh"
            bump = rng.choice((step, step * 10))
            need = held + bump
            # make sure the bids are deep enough so that only the holding check can fail
            good["bids"][0][1] = float(need + 5) if rng.random() < 0.5 else int(need + 5)
            op["amount"] = need
    elif opname == "deposit":
        if cause == "wallet-short":
            op["amount"] = wallet * Decimal(rng.choice(("1.01", "2", "1.0001")))
        elif cause == "wallet-missing":
            spec["wallet_missing"] = True
            op["amount"] = 1
        else:
            op["amount"] = rng.choice((-1, Decimal("-0.001"), -wallet))
    else:
        if cause == "cash-short":
            op["amount"] = cash * Decimal(rng.choice(("1.01", "3", "1.0000001")))
        else:
            op["amount"] = rng.choice((-1, Decimal("-0.001"), -cash))
    if rng.random() < 0.3 and spec["is_open"] is None and opname in ("deposit", "withdraw"):
        spec["now"] = now + rng.randint(1, 59)      # deposits/withdrawals also happen between the hours
        spec["is_open"] = False
        sclass = "closed-bar"
    spec["op"] = op
    return spec, sclass


def make_rig(spec):
    rig = L.Rig(spec["instrs"], now=spec["now"], token=spec["token"], wallet=None if spec["wallet_missing"] else Decimal(spec["wallet"]),
                cash=Decimal(spec["cash"]), positions=spec["positions"])
    rig.market.get_market_balance()     # a cached balance exists, as after any earlier bar
    for p in spec["prefix"]:
        L.apply_op(rig, p)
    if spec["is_open"] is not None:
        rig.market.is_open = spec["is_open"]
    return rig


def run_case(ctx: Ctx, spec, opname, cause, sclass, reqs):
    rig = make_rig(spec)
    rep = {"spec": spec, "op": opname, "cause": cause}
    S, raw = snapshot(rig)
    out, res = L.apply_op(rig, spec["op"])
    S2, raw2 = snapshot(rig)
    acts = [L.dump_action(a) for a in rig.actions[raw["n_actions"]:]]
    ctx.case(f"deribit:{opname}:{cause}:{out}:{sclass}", {"op": L.canon(L.op_json(spec["op"])), "cause": cause, "outcome": out})
    if out == "ok":
        ctx.count(f"deribit_directed_case_accepted:{opname}:{cause}")
    else:
        changed = [k for k in S if S[k] != S2[k]] + [k for k in raw if raw[k] != raw2[k]]
        if changed:
            ctx.violate(f"deribit.{opname}.{cause}.{out}.{changed[0]}",
                        f"DeribitOptionMarket.{opname}({L.canon(L.op_json(spec['op']))}) raised {out} ({cause}) but {', '.join(changed)} changed", rep)
        if out not in ("DemeterError", "InsufficientBalanceError", "AssertionError", "DivisionByZero", "InvalidOperation"):
            ctx.violate(f"deribit.{opname}.{cause}.crash.{out}", f"{opname} crashed with {out} instead of a rejection", rep)
    reqs.append((f"deribit:{opname}:{cause}", L.step_request(S, spec["op"], spec["token"]), out, res, S2, acts, rep))


def run(ctx: Ctx):
    reqs = []
    per = ctx.scale(12, 300)
    for opname, causes in CAUSES.items():
        for cause in causes:
            for _ in range(per):
                spec, sclass = build_case(ctx.rng, opname, cause)
                run_case(ctx, spec, opname, cause, sclass, reqs)
    if ctx.driver_ok and reqs:
        answers = L.model_answers([r[1] for r in reqs])
        for (tag, req, out, res, S2, acts, rep), ans in zip(reqs, answers):
            L.compare_step(ctx, tag, None, None, out, res, S2, acts, ans, rep)
            if "cause" in ans and ans.get("outcome") != "ok":
                ctx.count("deribit_model_cause:" + ans["cause"])


def restore(spec):
    spec = copy.deepcopy(spec)
    for i in spec["instrs"]:
        for k in ("asks", "bids"):
            i[k] = [[float(p), float(s) if isinstance(s, str) else s] for p, s in i[k]]

    def fix(o):
        o = dict(o)
        for k in ("amount", "priceTok", "priceUsd", "mult"):
            if isinstance(o.get(k), str):
                o[k] = Decimal(o[k])
        return o
    spec["op"] = fix(spec["op"])
    spec["prefix"] = [fix(p) for p in spec["prefix"]]
    return spec


def replay(ctx: Ctx, case) -> bool:
    sub = Ctx(ctx.prop, ctx.tier, ctx.seed, False)
    run_case(sub, restore(case["spec"]), case["op"], case["cause"], "replay", [])
    for v in sub.violations:
        print("  ", v["key"], v["what"])
    return not sub.violations
