"""C02 — no look-ahead; inputs intact; reruns reproduce (real Actuator runs on pairs of histories that share a prefix)."""
from __future__ import annotations

import copy
import hashlib
import math
import traceback
from decimal import Decimal

import pandas as pd

from common import Ctx, driver_json
import core_lib as cl

PROPERTY = "C02"
LEAN_MODULES = ["Proofs.C02"]
DRIVERS = ["driver_core"]
RULE = ("pairs of random histories sharing a prefix of k bars (k random, suffixes of different length and content) x market mix {probe market with "
        "data-dependent value, two probe markets minutely+hourly, real UniLpMarket, Uni+Aave, Uni+Deribit(hourly order books)} x bar interval "
        "{1min, 5min, 1h} x adaptive scripted strategies whose decisions depend on the snapshot; every run is also repeated on the same frames and the "
        "frames are hashed before/after; bucket = (market mix, interval, prefix class, what the strategy did, outcome)")
TRUSTED = ["in-place mutation of the supplied pandas frames and rerun equality are decided by measurement only (sha1 of a canonical dump incl. nested "
           "order-book lists, before vs after; second run on the same frames) — a pure model cannot exhibit aliasing",
           "that the implementation's lookups are the model's views is tied by the two-suffix runs and by comparing the views with the real helpers "
           "(_add_statistic_column price column, SqueethMarket.get_twap_price window, DeribitOptionMarket.set_market_status hourly row)"]
ASSUMPTIONS = ["the strategy reads the data only through the snapshots it is handed (a strategy may read self.data ahead of time; that is outside the property)",
               "a fresh account = new Actuator/Broker/Market objects over the same frames"]

KINDS = ("probe", "probe", "probe2", "uni", "uni", "uni+aave", "uni+deribit")
LIGHT = ("probe", "probe", "probe2", "uni", "uni", "uni+aave")


# ------------------------------------------------------------------------------------------ histories
def gen_bars(rng, n, tick0):
    """per-minute raw inputs of every market kind (a history = a list of these)"""
    bars, tick = [], tick0
    li, bi = 1010000, 1030000
    for _ in range(n):
        o = tick
        tick += rng.randint(-25, 25)
        li += rng.randint(1, 30)
        bi += rng.randint(10, 60)
        bars.append({"v": rng.randint(0, 999), "p": rng.randint(900, 1100), "open": o, "close": tick, "lo": min(o, tick) - rng.randint(0, 5),
                     "hi": max(o, tick) + rng.randint(0, 5), "n0": rng.randint(-10 ** 9, 10 ** 9), "n1": rng.randint(-10 ** 18, 10 ** 18),
                     "in0": rng.randint(10 ** 8, 10 ** 10), "in1": rng.randint(10 ** 17, 10 ** 19), "liq": rng.randint(10 ** 17, 10 ** 19),
                     "li": li, "bi": bi, "ask": rng.randint(20, 60), "asz": rng.randint(5, 50), "S": 1800 + rng.randint(-200, 200)})
    return bars


def gen_pair(rng, kind=None, small=False):
    kind = kind or rng.choice(KINDS)
    interval = rng.choice((1, 1, 1, 5, 60)) if kind != "uni+deribit" else rng.choice((1, 1, 60))
    unit = interval if kind != "uni+deribit" else 60
    nb = rng.randint(2, 40) if unit == 1 else rng.randint(2, 8) if unit == 5 else rng.randint(2, 2 if small else 4)
    k_units = rng.randint(1, nb)                                    # the common prefix, in complete bins
    start = 3600 * rng.randint(0, 12)
    tick0 = 201000 + rng.randint(-300, 300)
    pre = gen_bars(rng, k_units * unit, tick0)
    # the two futures start from the same last tick but differ in content and length
    last = pre[-1]["close"]
    s1 = gen_bars(rng, rng.randint(0, nb - k_units + 2) * unit + (rng.randint(0, unit - 1) if unit > 1 else 0), last)
    s2 = gen_bars(rng, rng.randint(1, nb - k_units + 3) * unit, last + rng.randint(-400, 400))
    return {"kind": kind, "interval": interval, "start": start, "k": k_units * unit, "pre": pre, "s1": s1, "s2": s2, "seed": rng.randint(0, 10 ** 9)}


# ------------------------------------------------------------------------------------------ building a run
def digest(x) -> str:
    """canonical text of a frame / series (nested lists included), independent of object identity"""
    if isinstance(x, pd.DataFrame):
        body = x.to_csv() + "|" + ",".join(map(str, x.dtypes)) + "|" + str(x.index.dtype)
    elif isinstance(x, pd.Series):
        body = x.to_csv() + "|" + str(x.dtype)
    else:
        body = repr(x)
    return hashlib.sha1(body.encode()).hexdigest()


def build(case, bars):
    """fresh Actuator over fresh market objects and freshly built frames for the history `bars`; returns everything observable"""
    cl.setup()
    from demeter import Actuator, MarketInfo, TokenInfo, Strategy, MarketTypeEnum
    kind, start, n = case["kind"], case["start"], len(bars)
    times = [start + 60 * i for i in range(n)]
    index = pd.DatetimeIndex([cl.at(t) for t in times])
    usdc, eth, weth = TokenInfo("usdc", 6), TokenInfo("eth", 18), TokenInfo("weth", 18)
    a = Actuator()
    frames, markets = {}, {}
    if kind.startswith("probe"):
        PM = cl.make_market_class()
        rec = cl.Recorder()
        rec.actuator = a
        rec.initialized = True
        df = pd.DataFrame({"x": times, "v": [b["v"] for b in bars]}, index=index)
        m = PM(MarketInfo("m0"), df, rec, 0)
        m.quote_token = usdc
        m.accrue = True
        a.broker.add_market(m)
        markets["m0"], frames["m0"] = m, df
        if kind == "probe2":
            hrs = [i for i, t in enumerate(times) if t % 3600 == 0]
            if hrs:
                dfh = pd.DataFrame({"x": [times[i] for i in hrs], "v": [bars[i]["v"] for i in hrs]}, index=index[hrs])
                mh = PM(MarketInfo("m1"), dfh, rec, 1)
                mh.quote_token = usdc
                mh.accrue = True
                a.broker.add_market(mh)
                markets["m1"], frames["m1"] = mh, dfh
        a.broker.set_balance(usdc, 1000)
        price = pd.DataFrame({"USDC": [Decimal(b["p"]) / 1000 for b in bars]}, index=index)
        frames["price"] = price
        a.set_price(price, usdc)
    else:
        from demeter.uniswap import UniV3Pool, UniLpMarket
        from demeter.uniswap.helper import get_price_from_data
        pool = UniV3Pool(usdc, eth, 0.05, usdc)
        um = UniLpMarket(MarketInfo("uni"), pool)
        # amounts are Decimal objects, as load_uni_v3_data's converters make them (plain ints beyond 2**63 would give the column a
        # data-dependent integer dtype whose resampled sum wraps around: a frame the loader never produces)
        df = pd.DataFrame([dict(netAmount0=Decimal(b["n0"]), netAmount1=Decimal(b["n1"]), closeTick=b["close"], openTick=b["open"], lowestTick=b["lo"],
                                highestTick=b["hi"], inAmount0=Decimal(b["in0"]), inAmount1=Decimal(b["in1"]), currentLiquidity=Decimal(b["liq"]))
                           for b in bars], index=index)
        for c in ("netAmount0", "netAmount1", "inAmount0", "inAmount1", "currentLiquidity"):
            df[c] = df[c].astype(object)
        um.add_statistic_column(df)
        um.data = df
        if kind == "uni+deribit":
            from demeter.deribit import DeribitOptionMarket
            dm = DeribitOptionMarket(MarketInfo("deribit", MarketTypeEnum.deribit_option), DeribitOptionMarket.ETH)
            rows = []
            for i, t in enumerate(times):
                if t % 3600 == 0:
                    b = bars[i]
                    for j, strike in enumerate((1700, 1900)):
                        rows.append({"time": cl.at(t), "instrument_name": f"ETH-X-{strike}-C", "state": "open", "type": "CALL", "strike_price": strike,
                                     "expiry_time": cl.at(start + 86400 * 3), "gamma": 0.001, "delta": 0.5, "underlying_price": float(b["S"]),
                                     "mark_price": b["ask"] * 0.0005,
                                     "asks": [[(b["ask"] + 1 + j) * 0.0005, b["asz"]], [(b["ask"] + 2 + j) * 0.0005, b["asz"] + 7]],
                                     "bids": [[max(1, b["ask"] - 1) * 0.0005, b["asz"]]]})
            ddf = pd.DataFrame(rows).set_index(["time", "instrument_name"]).sort_index() if rows else None
            if ddf is not None:
                dm.data = ddf
                a.broker.add_market(dm)
                dm.balance = Decimal(5)
                markets["deribit"], frames["deribit"] = dm, ddf
        a.broker.add_market(um)
        markets["uni"], frames["uni"] = um, df
        if kind == "uni+aave":
            import os
            import common
            from demeter.aave import AaveV3Market
            am = AaveV3Market(market_info=MarketInfo("aave", MarketTypeEnum.aave_v3), tokens=[weth, usdc],
                              risk_parameters_path=os.path.join(common.REPO, "tests", "aave_risk_parameters", "demo.csv"))
            for j, t in enumerate((weth, usdc)):
                am.set_token_data(t, pd.DataFrame([dict(liquidity_rate=Decimal("0.01"), stable_borrow_rate=Decimal("0.05"),
                                                        variable_borrow_rate=Decimal("0.03"),
                                                        liquidity_index=Decimal(b["li"] + 7 * j) / 10 ** 6,
                                                        variable_borrow_index=Decimal(b["bi"] + 11 * j) / 10 ** 6) for b in bars], index=index))
            a.broker.add_market(am)
            markets["aave"], frames["aave"] = am, am.data
            a.broker.set_balance(weth, Decimal(5))
        a.broker.set_balance(usdc, Decimal(20000))
        a.broker.set_balance(eth, Decimal(10))
        price = get_price_from_data(df, pool)
        if kind == "uni+aave":
            price[0][weth.name] = price[0][eth.name]
        frames["price"] = price[0]
        a.set_price(price)
    a.interval = {1: "1min", 5: "5min", 60: "1h"}[case["interval"]]
    obs = {"snaps": [], "did": set()}
    tokens = {"usdc": usdc, "eth": eth, "weth": weth}

    def snap_digest(snap):
        parts = [str(snap.timestamp), str(snap.row_id), digest(snap.prices)]
        for mi in snap.market_status.keys():
            parts.append(mi.name + ":" + digest(snap.market_status[mi]))
        return "|".join(parts)

    class Adaptive(Strategy):
        """every decision is a function of the snapshot handed in and of what the strategy did before"""

        def before_bar(self, snap):
            obs["snaps"].append(("before", snap_digest(snap)))

        def on_bar(self, snap):
            obs["snaps"].append(("on", snap_digest(snap)))
            try:
                self.act(snap)
            except Exception as e:  # noqa: BLE001  (refused operations are part of the behaviour, recorded by class)
                obs["snaps"].append(("refused", type(e).__name__))

        def after_bar(self, snap):
            obs["snaps"].append(("after", snap_digest(snap)))

        def act(self, snap):
            if kind.startswith("probe"):
                for name, m in markets.items():
                    st = snap.market_status[m.market_info]
                    if len(st) and not pd.isna(st["v"]):
                        v = int(st["v"])
                        if v % 3 == 0:
                            m.op(f"t{snap.row_id}", True, Decimal(v))
                            obs["did"].add("op")
                        elif v % 7 == 0:
                            m.op(f"r{snap.row_id}", False)
                return
            um = markets["uni"]
            st = snap.market_status[um.market_info]
            tick = int(st.closeTick)
            p = st.price
            if tick % 5 == 0 and len(um.positions) < 2:
                um.add_liquidity(p * Decimal("0.9"), p * Decimal("1.1"), Decimal(1), p)
                obs["did"].add("add")
            elif tick % 5 == 1 and um.positions:
                um.remove_liquidity(list(um.positions.keys())[0])
                obs["did"].add("remove")
            elif tick % 5 == 2:
                um.buy(Decimal("0.1"))
                obs["did"].add("buy")
            elif tick % 5 == 3:
                um.sell(Decimal("0.1"))
                obs["did"].add("sell")
            if "aave" in markets:
                am = markets["aave"]
                if tick % 4 == 0 and not am.supplies:
                    am.supply(tokens["weth"], Decimal(2))
                    obs["did"].add("supply")
                elif tick % 4 == 1 and am.supplies and not am.borrows:
                    am.borrow(tokens["usdc"], Decimal(300))
                    obs["did"].add("borrow")
            if "deribit" in markets:
                dm = markets["deribit"]
                if dm.is_open and tick % 2 == 0:
                    dm.buy("ETH-X-1700-C", 3)
                    obs["did"].add("option")

    a.strategy = Adaptive()
    return a, frames, markets, obs


def run_once(case, bars, frames_given=None):
    """returns (rows, actions, snaps, frame hashes before, after, error class)"""
    a, frames, markets, obs = build(case, bars)
    before = {k: digest(v) for k, v in frames.items()}
    err = None
    try:
        a.run(print_result=False)
    except Exception as e:  # noqa: BLE001
        err = type(e).__name__ + ": " + str(e)[:200] + " @ " + traceback.format_exc().strip().split("\n")[-3][:160]
    after = {k: digest(v) for k, v in frames.items()}
    rows, actions = [], []
    if err is None:
        df = a.account_status_df
        rows = [[str(ix)] + [str(v) for v in r] for ix, r in zip(df.index, df.itertuples(index=False))]
        actions = [[str(x.timestamp), type(x).__name__, str(x)] for x in a.actions]
    return {"rows": rows, "actions": actions, "snaps": obs["snaps"], "before": before, "after": after, "err": err, "did": sorted(obs["did"]),
            "bars": [r[0] for r in rows]}


def prefix_of(res, n_bars):
    """what the property compares for bars 0..n_bars-1"""
    cut_ts = set(res["bars"][:n_bars])
    rows = res["rows"][:n_bars]
    actions = [x for x in res["actions"] if x[0] in cut_ts]
    snaps, seen = [], 0
    for s in res["snaps"]:
        if s[0] == "before":
            seen += 1
        if seen > n_bars:
            break
        snaps.append(s)
    return rows, actions, snaps


def check_pair(ctx: Ctx, case):
    rep = {k: v for k, v in case.items()}
    h1, h2 = case["pre"] + case["s1"], case["pre"] + case["s2"]
    r1, r2, r1b = run_once(case, h1), run_once(case, h2), run_once(case, h1)
    kind, iv = case["kind"], case["interval"]
    tagbase = f"{kind}:i{iv}"
    for r in (r1, r2):
        if r["err"] is not None:
            ctx.case(f"{tagbase}:error:{r['err'].split(':')[0]}")
            ctx.violate(f"run:{kind}:{r['err'].split(':')[0]}", f"a run over a well-formed {kind} history raised {r['err']}", rep)
            return
    unit = iv if kind != "uni+deribit" else max(iv, 1)
    n_common = case["k"] // iv                                      # complete bars of the common prefix
    if kind == "uni+deribit" and iv == 1:
        n_common = case["k"]
    a1, a2 = prefix_of(r1, n_common), prefix_of(r2, n_common)
    for name, x, y in (("account", a1[0], a2[0]), ("actions", a1[1], a2[1]), ("snapshots", a1[2], a2[2])):
        if x != y:
            d = next((i for i, (p, q) in enumerate(zip(x, y)) if p != q), min(len(x), len(y)))
            ctx.violate(f"lookahead:{kind}:i{iv}:{name}",
                        f"{name} of bar-prefix {n_common} differ between two histories sharing {case['k']} minutes of data (first difference at item {d}: "
                        f"{str(x[d:d + 1])[:160]} vs {str(y[d:d + 1])[:160]})", rep)
    for r, which in ((r1, "first"), (r2, "second")):
        for f in r["before"]:
            if r["before"][f] != r["after"][f]:
                ctx.violate(f"frame-mutated:{kind}:{f}", f"the supplied {f} frame of a {kind} run changed during the run (interval {iv} min, strategy did {r['did']})", rep)
    if (r1["rows"], r1["actions"], r1["snaps"]) != (r1b["rows"], r1b["actions"], r1b["snaps"]):
        ctx.violate(f"rerun-differs:{kind}", "two runs with fresh accounts over identically built inputs differ", rep)
    pc = "all" if not case["s1"] else "short" if n_common <= 2 else "long"
    ctx.case(f"{tagbase}:{pc}:{'+'.join(sorted(set(r1['did']) | set(r2['did']))) or 'idle'}:ok",
             {"kind": kind, "interval": iv, "common_bars": n_common, "bars": (len(r1["rows"]), len(r2["rows"])), "did": r1["did"]})


# ------------------------------------------------------------------------------------------ the views against the real helpers
def check_views(ctx: Ctx, rng, reqs):
    cl.setup()
    from demeter import MarketInfo, TokenInfo, MarketStatus
    from demeter.uniswap import UniV3Pool, UniLpMarket
    from demeter.uniswap.helper import tick_to_base_unit_price
    usdc, eth = TokenInfo("usdc", 6), TokenInfo("eth", 18)
    pool = UniV3Pool(usdc, eth, 0.05, usdc)
    n = rng.randint(2, 30)
    bars = gen_bars(rng, n, 201000)
    start = 3600 * rng.randint(0, 5) + 60 * rng.randint(0, 59)
    times = [start + 60 * i for i in range(n)]
    index = pd.DatetimeIndex([cl.at(t) for t in times])
    df = pd.DataFrame({"closeTick": [b["close"] for b in bars], "openTick": [b["open"] for b in bars], "lowestTick": [b["lo"] for b in bars],
                       "highestTick": [b["hi"] for b in bars], "inAmount0": [b["in0"] for b in bars], "inAmount1": [b["in1"] for b in bars]}, index=index)
    UniLpMarket(MarketInfo("u"), pool).add_statistic_column(df)
    price = lambda t: tick_to_base_unit_price(int(t), 6, 18, True)  # noqa: E731
    impl_shift = [str(x) for x in df["price"]]
    closes, opens = [str(price(b["close"])) for b in bars], [str(price(b["open"])) for b in bars]
    # Squeeth TWAP window
    impl_twap = None
    try:
        from demeter.squeeth import SqueethMarket
        from demeter.squeeth.helper import calc_twap_price
        sdf = pd.DataFrame({"WETH": [Decimal(b["S"]) for b in bars]}, index=index)
        sm = SqueethMarket(MarketInfo("sq"), None, data=sdf)
        impl_twap = []
        for i in range(n):
            sm._market_status = MarketStatus(index[i].to_pydatetime(), sdf.iloc[i])
            impl_twap.append(str(sm.get_twap_price(TokenInfo("weth", 18))))
    except Exception as e:  # noqa: BLE001
        ctx.note("twap_probe", type(e).__name__ + str(e)[:80])
    # Deribit hourly row
    impl_hour = None
    try:
        from demeter import MarketTypeEnum
        from demeter.deribit import DeribitOptionMarket, DeribitMarketStatus
        hours = [t for t in range(times[0] - times[0] % 3600, times[-1] + 1, 3600) if rng.random() < 0.8]
        if hours:
            ddf = pd.DataFrame([{"time": cl.at(t), "instrument_name": "ETH-A", "mark_price": float(t)} for t in hours]).set_index(["time", "instrument_name"])
            dm = DeribitOptionMarket(MarketInfo("d", MarketTypeEnum.deribit_option), DeribitOptionMarket.ETH, data=ddf)
            impl_hour = []
            for i in range(n):
                st = DeribitMarketStatus(index[i], None)
                dm.set_market_status(st, None)
                impl_hour.append(int(st.data["mark_price"].iloc[0]) if len(st.data) else None)
        else:
            hours = []
    except Exception as e:  # noqa: BLE001
        ctx.note("hour_probe", type(e).__name__ + str(e)[:80])
        hours, impl_hour = [], None
    reqs.append(({"views": True, "n": n}, {"shift": impl_shift, "closes": closes, "opens": opens, "twap": impl_twap, "S": [b["S"] for b in bars],
                                            "hour": impl_hour, "times": times},
                 {"fn": "views", "ts": [str(t) for t in times], "hours": [str(t) for t in hours]}))
    ctx.case(f"views:n{min(n // 8, 3)}:{'twap' if impl_twap else '-'}:{'hour' if impl_hour else '-'}")


def compare_views(ctx, rep, obs, ans):
    if "error" in ans:
        ctx.disagree(f"driver error {ans['error']}", rep)
        return
    n = len(obs["times"])
    # shiftView: index of the row whose close (or, for bar 0, open) is the bar's price
    want = [obs["opens"][0] if j is None else obs["closes"][int(j)] for j in ans["shift"]]
    if want != obs["shift"]:
        ctx.disagree(f"Uniswap price column is not close.shift(1): impl {obs['shift'][:4]} model view {want[:4]}", rep)
    if any(j is not None and int(j) >= k for k, j in enumerate(ans["shift"])):
        ctx.disagree("model shift view reads a row >= k", rep)
    if obs["twap"] is not None:
        from demeter.squeeth.helper import calc_twap_price
        for k in range(n):
            win = [int(j) for j in ans["twap"][k]]
            if any(j > k for j in win):
                ctx.disagree("model TWAP window reads a row > k", rep)
            exp = str(calc_twap_price(pd.Series([Decimal(obs["S"][j]) for j in win])))
            if exp != obs["twap"][k]:
                ctx.violate("SqueethMarket.get_twap_price:window", f"TWAP at bar {k} is not the mean over the rows {win} (the last 7 minutes ending now)", rep)
                break
    if obs["hour"] is not None:
        got = [None if j is None else int(j) for j in ans["hour"]]
        if got != obs["hour"]:
            ctx.disagree(f"Deribit hourly row: impl {obs['hour'][:6]} model {got[:6]}", rep)


def run(ctx: Ctx):
    cl.setup()
    n = ctx.scale(24, 220)
    for i in range(n):
        if ctx.thorough:
            check_pair(ctx, gen_pair(ctx.rng))
        else:   # the hourly order-book market needs hour-long histories: two small pairs in the quick tier
            check_pair(ctx, gen_pair(ctx.rng, "uni+deribit", small=True) if i % 12 == 5 else gen_pair(ctx.rng, ctx.rng.choice(LIGHT)))
    reqs = []
    for _ in range(ctx.scale(20, 300)):
        check_views(ctx, ctx.rng, reqs)
    ctx.impl_traces = n * 3
    if ctx.driver_ok and reqs:
        out = driver_json([r[2] for r in reqs], exe="driver_core")
        for (rep, obs, _), ans in zip(reqs, out):
            compare_views(ctx, rep, obs, ans)


def replay(ctx: Ctx, case) -> bool:
    sub = Ctx(ctx.prop, ctx.tier, ctx.seed, False)
    if case.get("views"):
        return True
    check_pair(sub, case)
    for v in sub.violations:
        print("  ", v["key"], v["what"])
    return not sub.violations
