"""C02 — no look-ahead; inputs intact; reruns reproduce (real Actuator runs on pairs of histories that share a prefix)."""
from __future__ import annotations

import decimal
import hashlib
import traceback
from decimal import Decimal

import pandas as pd

from common import Ctx, driver_json
import core_lib as cl

PROPERTY = "C02"
LEAN_MODULES = ["Proofs.C02", "Proofs.C02.Rerun", "Proofs.C02.DrivingMarket", "Proofs.C02.Rerun2", "Proofs.C02.Markets", "Proofs.C02.RerunObject"]
DRIVERS = ["driver_core"]
RULE = ("pairs of random histories sharing a prefix of k bars (k random, suffixes of different length and content) x market mix {probe market with "
        "data-dependent value, two probe markets minutely+hourly, real UniLpMarket, Uni+Aave, Uni+Deribit (hourly order books; the histories part on "
        "the hour or in the middle of one), Deribit alone (prices from the option data), GMX v1, GMX v2 (GmxV2Market, float pool rows), Squeeth + its "
        "oSQTH pool} x bar interval {1min, 5min, 15min, 1h} x minutes missing from the supplied market / price frames (each frame its own holes, a "
        "coarser interval bridges them) x price frame {cells Decimal / float / int / mixed, given as frame / series / (frame, token) tuple, with or "
        "without a watched column whose feed starts late: NaN through the common prefix, ending inside it or beyond it} x option rows of an hour "
        "listed sorted / far expiry first / shuffled, single quotes missing from single hourly snapshots x adaptive scripted strategies whose "
        "decisions depend on the snapshot (incl. read-only estimate_cost queries on the bar's order book, off-hour deribit deposits / withdrawals "
        "with data-dependent amounts) and which own stateful triggers of every class (two installed at construction, three by initialize()); "
        "two probe markets whose frames cover different stretches (the second starts inside the common prefix; in the second history it does or does "
        "not end up with more rows than the first: the bar index is the index of the market with the most rows — finding E-5); "
        "seed-independent crafted pairs: the reviewer's [0,60,120]+[60,120] vs [0,60,120]+[60..240] frames, off-hour balance changes around a mid-hour parting point, a held option whose quote is missing from the "
        "last common snapshot and back afterwards, cost queries on books listed best-first. "
        "Per pair: history 1, then the SAME strategy object on the SAME frames with a fresh Actuator/Broker/markets (same process), then history 2. "
        "Compared on the common prefix: account rows, every field of every market's balance entry per bar, actions, snapshots; within each run: "
        "the history entry of a bar as the strategy reads it right after the bar against the entry the finished run holds (append-only history). "
        "Rerun order (E-7): strategies whose trigger objects are built once — 0..2 in strategy.triggers when run() is called, 1..3 appended in place by "
        "initialize() on every run; period / periods / at-time / range — run twice with fresh Actuators: oracle (second run = first, list handed back = "
        "list found) and correspondence with the model's runG2 / rerun2 through driver request run_g2 (bucket says whether the older reading, reset "
        "before initialize(), would answer differently). "
        "Every supplied frame is hashed when built, after set_price / data hand-over and after the run (column labels + their dtype, column dtypes, "
        "index class / dtype / names / freq / tz / labels in row order, attrs, every cell with its Python type, nested lists); the process-wide "
        "Decimal context is compared before/after each run; bucket = (market mix, interval, price cells/form, late-feed class, row order, holes, "
        "prefix class, what the strategy did, triggers fired, outcome)")
TRUSTED = ["in-place mutation of the supplied pandas frames and rerun equality are decided by measurement only (sha1 of a canonical dump incl. nested "
           "order-book lists, at construction vs after hand-over vs after the run; second run of the same strategy object on the same frames) — a pure "
           "model cannot exhibit aliasing of pandas frames; the trigger part of the rerun clause is also a theorem (Proofs/C02/Rerun.lean; "
           "Proofs/C02/Rerun2.lean for the code's order — initialize(), then reset — with the saved trigger list modelled as copy or alias "
           "behind the generated flag coreRunSavesTriggerListByCopy)",
           "that the implementation's lookups are the model's views is tied by the two-suffix runs and by comparing the views with the real helpers "
           "(_add_statistic_column price column, SqueethMarket.get_twap_price window, DeribitOptionMarket.set_market_status hourly row)"]
ASSUMPTIONS = ["the strategy reads the data only through the snapshots it is handed (a strategy may read self.data ahead of time; that is outside the property)",
               "a fresh account = new Actuator/Broker/Market objects over the same frames; the strategy object may be the same one",
               "supplied frames have a non-decreasing, duplicate-free time index (rows within one timestamp of a multi-row book may come in any order)"]

KINDS = ("probe", "probe", "probe2", "uni", "uni", "uni+aave", "uni+deribit", "deribit", "gmx", "gmx2", "squeeth", "squeeth")
LIGHT = ("probe", "probe2", "uni", "uni", "uni+aave", "deribit", "gmx", "gmx2", "gmx2", "squeeth", "squeeth")
HOURLY = ("uni+deribit", "deribit")


# ------------------------------------------------------------------------------------------ histories
def gen_bars(rng, n, tick0):
    """per-minute raw inputs of every market kind (a history = a list of these)"""
    bars, tick = [], tick0
    li, bi = 1010000, 1030000
    for _ in range(n):
        o = tick
        tick += rng.randint(-25, 25)
        li += rng.randint(1, 30)
        bi += rng.randint(10, 60)
        bars.append({"v": rng.randint(0, 999), "p": rng.randint(900, 1100), "open": o, "close": tick, "lo": min(o, tick) - rng.randint(0, 5),
                     "hi": max(o, tick) + rng.randint(0, 5), "n0": rng.randint(-10 ** 9, 10 ** 9), "n1": rng.randint(-10 ** 18, 10 ** 18),
                     "in0": rng.randint(10 ** 8, 10 ** 10), "in1": rng.randint(10 ** 17, 10 ** 19), "liq": rng.randint(10 ** 17, 10 ** 19),
                     "li": li, "bi": bi, "ask": rng.randint(20, 60), "asz": rng.randint(5, 50), "S": 1800 + rng.randint(-200, 200)})
    return bars


def gen_pair(rng, kind=None, small=False):
    kind = kind or rng.choice(KINDS)
    interval = (rng.choice((1, 1, 60)) if kind == "uni+deribit" else 60 if kind == "deribit" else
                rng.choice((1, 1, 5, 5, 15, 60)) if kind in ("gmx", "gmx2") else rng.choice((1, 1, 5, 5, 15)) if kind == "squeeth"
                else rng.choice((1, 1, 1, 5, 5, 60)))
    unit = interval if kind not in HOURLY else 60
    nb = (rng.randint(2, 40) if unit == 1 else rng.randint(2, 8) if unit == 5 else rng.randint(2, 5) if unit == 15
          else rng.randint(2, 2 if small else 4 if kind != "deribit" else 6))
    k_units = rng.randint(1, nb)                                    # the common prefix, in complete bins
    start = 3600 * rng.randint(0, 12)
    tick0 = 201000 + rng.randint(-300, 300)
    pre = gen_bars(rng, k_units * unit, tick0)
    # the two futures start from the same last tick but differ in content and length
    last = pre[-1]["close"]
    s1 = gen_bars(rng, rng.randint(0, nb - k_units + 2) * unit + (rng.randint(0, unit - 1) if unit > 1 else 0), last)
    s2 = gen_bars(rng, rng.randint(1, nb - k_units + 3) * unit, last + rng.randint(-400, 400))
    if kind == "uni+deribit" and interval == 1 and rng.random() < 0.7:
        # a minutely run next to the hourly book: the two histories part in the middle of an hour (the book rows are those of the whole hours)
        extra = gen_bars(rng, rng.randint(1, 45), last)
        pre, last = pre + extra, extra[-1]["close"]
        s1 = gen_bars(rng, rng.choice((0, rng.randint(1, 30))), last)
        s2 = gen_bars(rng, rng.randint(2, 30), last + rng.randint(-40, 40))
    case = {"kind": kind, "interval": interval, "start": start, "k": len(pre), "pre": pre, "s1": s1, "s2": s2, "seed": rng.randint(0, 10 ** 9)}
    # minutes missing from the supplied frames (each frame its own): a coarser bar interval bridges them (the first row of a bin is then not its
    # first minute); which minutes are missing is a function of the bin's own data, so histories that share a prefix share its holes
    if interval > 1 and kind in ("gmx", "gmx2", "squeeth", "probe", "probe2", "uni", "uni+aave") and rng.random() < 0.6:
        case["holes"] = rng.randint(1, 10 ** 6)
    # what the cells of the supplied price frame hold and how set_price is given it
    if kind.startswith("probe"):
        case["price_kind"], case["form"], case["aux"] = rng.choice(PRICE_KINDS), rng.choice(FORMS), rng.random() < 0.6
    else:
        case["price_kind"], case["form"] = rng.choice(("native", "native", "decimal")), rng.choice(("tuple", "tuple", "frame"))
    # a watched price column whose feed starts late: no quote for the first `late` minutes (NaN cells); the feed may start inside the common
    # prefix, exactly at its end, or only in the part that differs between the two histories
    if kind not in ("deribit",) and rng.random() < 0.6:
        k = case["k"]
        case["late"] = rng.choice((k, k, k + rng.randint(1, 2 * unit), max(1, k - rng.randint(1, unit)), rng.randint(1, max(1, k))))
    # the order in which the rows of one hour of an option book are listed (the (time, instrument) index is not sorted unless "sorted")
    if kind in HOURLY:
        case["row_order"] = rng.choice(("sorted", "far-first", "far-first", "shuffled"))
        case["book_holes"] = rng.random() < 0.5
    if kind.startswith("uni") and rng.random() < 0.35:
        case["tick_float"] = True     # tick columns as float64 without NaN: what a reindex + forward fill of the raw minute rows leaves
    if kind == "probe2" and not case.get("holes"):
        stagger(case)
    return case


def stagger(case):
    """E-5: two markets whose frames cover different stretches.  The first market's frame ends `m0` minutes into the history (inside or at the
    end of the first history), the second market's frame starts at minute `from` (inside the common prefix) and runs to the end of the history.
    In the first history the first market has at least as many rows as the second and defines the bar index; in the second history either
    the same holds ("same driving market": the clause must hold) or the second market has more rows — a fact that lies entirely after the
    common prefix — and the run is over ITS index.  Drawn from the case's own seed (the main stream is not touched)."""
    import random
    r = random.Random(case["seed"] ^ 0x5e5)
    if r.random() < 0.3:
        return
    k, unit = case["k"], case["interval"]
    n1 = k + len(case["s1"])
    o = r.randint(1, max(1, k - 1))
    if o >= n1:
        return                            # the second market would have no row at all in the first history
    m0 = r.randint(max(k, n1 - o), n1)
    room = m0 - k + o                    # the second history may be this long after the prefix without the second market outgrowing the first
    if r.random() < 0.5:
        extra = r.randint(1, 2 * unit + 1)
        last = (case["s2"] or case["pre"])[-1]["close"]
        need = room + extra - len(case["s2"])
        if need > 0:
            case["s2"] = case["s2"] + gen_bars(r, need, last)
    else:
        case["s2"] = case["s2"][:room]
    case["outgrow"] = {"from": o, "m0": m0}


# ------------------------------------------------------------------------------------------ inputs, hashed as supplied
def cell(v) -> str:
    return type(v).__name__ + ":" + repr(v)


def digest(x) -> str:
    """canonical text of a frame / series: the column labels in order, the dtype of every column, the index (dtype, names, labels) and every
    cell together with the Python type it holds (Decimal('1'), 1 and 1.0 are three different cells; nested order-book lists go in by repr).
    Independent of object identity; an added or dropped column, a converted cell and a changed dtype all change it."""
    if isinstance(x, pd.DataFrame):
        parts = ["columns=" + repr([repr(c) for c in x.columns]) + str(x.columns.dtype) + repr(list(x.columns.names)),
                 "dtypes=" + repr([str(t) for t in x.dtypes]),
                 "index=" + type(x.index).__name__ + str(x.index.dtype) + repr(list(x.index.names)) + repr(getattr(x.index, "freq", None)) +
                 repr(getattr(x.index, "tz", None)) + repr([repr(i) for i in x.index.tolist()]),
                 "attrs=" + repr(sorted(x.attrs.items(), key=repr)) + repr(x.flags.allows_duplicate_labels)]
        for j in range(x.shape[1]):
            parts.append("|".join(cell(v) for v in x.iloc[:, j].tolist()))
        body = "\n".join(parts)
    elif isinstance(x, pd.Series):
        body = str(x.dtype) + repr(x.name) + repr([repr(i) for i in x.index.tolist()]) + "|".join(cell(v) for v in x.tolist())
    else:
        body = repr(x)
    return hashlib.sha1(body.encode()).hexdigest()


def shape_of(x) -> str:
    """what a mutated frame looks like, for the report"""
    if isinstance(x, pd.DataFrame):
        return f"columns {list(map(str, x.columns))} dtypes {[str(t) for t in x.dtypes]} first row {[cell(v) for v in x.iloc[0].tolist()] if len(x) else []}"
    if isinstance(x, pd.Series):
        return f"series {x.name} dtype {x.dtype} first {cell(x.iloc[0]) if len(x) else None}"
    return repr(x)[:100]


PRICE_KINDS = ("decimal", "decimal", "float", "int", "mixed-d", "mixed-f")     # what the cells of the supplied price frame hold
FORMS = ("frame", "frame", "series", "tuple")                                      # how set_price is given it


def price_column(kind, vals):
    """vals: exact Decimal prices; the column as the caller might hold it"""
    if kind in ("decimal", "native"):
        return pd.Series(list(vals), dtype=object)
    if kind == "float":
        return pd.Series([float(v) for v in vals], dtype="float64")
    if kind == "int":
        return pd.Series([int(v * 1000) for v in vals], dtype="int64")
    first_dec = kind == "mixed-d"
    return pd.Series([(v if (i == 0) == first_dec else float(v)) for i, v in enumerate(vals)], dtype=object)


def with_late_feed(col, late):
    """the first `late` cells hold no quote"""
    if not late:
        return col
    vals = col.tolist()
    out = pd.Series([float("nan") if i < late else v for i, v in enumerate(vals)], dtype=object if col.dtype == object else "float64")
    return out


def book_rows(case, bars, times, start):
    """one hour of an option book per whole hour: three instruments quoting different underlying (futures) prices, listed in the case's row order"""
    import random
    rows = []
    order = case.get("row_order", "sorted")
    shuffle = random.Random(case["seed"] + 5)
    inst = [("ETH-X-1700-C", 1700, 3, 0), ("ETH-X-1900-C", 1900, 3, 1), ("ETH-Y-1800-C", 1800, 10, 2)]     # name, strike, expiry in days, j
    for i, t in enumerate(times):
        if t % 3600 == 0:
            b = bars[i]
            hour = []
            for name, strike, days, j in inst:
                # a quote missing from one hourly snapshot (the collector dropped it) while the others are there and the instrument is quoted again
                # later; which quotes are missing is a function of the hour's own data, so histories that share a prefix share its holes
                if case.get("book_holes") and j > 0 and (b["v"] + j) % 3 == 0:
                    continue
                if j in case.get("missing", {}).get(str((t - start) // 3600), ()):
                    continue
                hour.append({"time": cl.at(t), "instrument_name": name, "state": "open", "type": "CALL", "strike_price": strike,
                             "expiry_time": cl.at(start - start % 86400 + 86400 * days), "gamma": 0.001, "delta": 0.5,
                             "underlying_price": float(b["S"] + 10 * j), "mark_price": b["ask"] * 0.0005,
                             "asks": [[(b["ask"] + 1 + j) * 0.0005, b["asz"]], [(b["ask"] + 2 + j) * 0.0005, b["asz"] + 7]],
                             "bids": [[max(1, b["ask"] - 1) * 0.0005, b["asz"]]]})
            if order == "far-first":
                hour.reverse()
            elif order == "shuffled":
                shuffle.shuffle(hour)
            rows += hour
    if not rows:
        return None
    df = pd.DataFrame(rows).set_index(["time", "instrument_name"])
    return df.sort_index() if order == "sorted" else df


def keep_mask(case, bars, salt):
    """which minutes of a supplied frame exist (all, unless the case has holes): per bin of the bar interval a data-dependent choice, never the
    whole bin; the first and the last minute of the history are always there (the price frame has to cover the market data)"""
    n, iv, h = len(bars), case["interval"], case.get("holes")
    keep = [True] * n
    if not h:
        return keep
    for b0 in range(0, n, iv):
        idxs = list(range(b0, min(b0 + iv, n)))
        drop = [i for i in idxs if (bars[i]["v"] * 7 + bars[i]["p"] + salt + h) % 3 == 0]
        if len(drop) == len(idxs):
            drop = drop[1:]
        for i in drop:
            keep[i] = False
    keep[0] = keep[n - 1] = True
    return keep


def make_inputs(case, bars):
    """every frame the caller supplies for the history `bars`, built once; `pristine` = their digests before demeter has seen them"""
    cl.setup()
    from demeter import MarketInfo, TokenInfo
    kind, start, n = case["kind"], case["start"], len(bars)
    times = [start + 60 * i for i in range(n)]
    index = pd.DatetimeIndex([cl.at(t) for t in times])
    usdc, eth, weth = TokenInfo("usdc", 6), TokenInfo("eth", 18), TokenInfo("weth", 18)
    pk, form = case.get("price_kind", "decimal"), case.get("form", "frame")
    inp = {"times": times, "index": index, "tokens": {"usdc": usdc, "eth": eth, "weth": weth}, "frames": {}, "set_price": None}
    fr = inp["frames"]
    if kind.startswith("probe"):
        fr["m0"] = pd.DataFrame({"x": times, "v": [b["v"] for b in bars]}, index=index)
        og = case.get("outgrow")
        if kind == "probe2" and og:
            # E-5: the first market's frame ends `m0` minutes into the history, the second market's starts at minute `from` and runs to the
            # end of the history: whichever frame has more rows defines the run's bar index (Actuator.get_test_range)
            sel = list(range(og["from"], n))
            fr["m0"] = fr["m0"].iloc[:og["m0"]]
            if sel:
                fr["m1"] = pd.DataFrame({"x": [times[i] for i in sel], "v": [bars[i]["v"] for i in sel]}, index=index[sel])
        elif kind == "probe2":
            hrs = [i for i, t in enumerate(times) if t % 3600 == 0]
            if hrs:
                fr["m1"] = pd.DataFrame({"x": [times[i] for i in hrs], "v": [bars[i]["v"] for i in hrs]}, index=index[hrs])
        cols = {"USDC": price_column(pk, [Decimal(b["p"]) / 1000 for b in bars])}
        if (case.get("aux") or case.get("late")) and form != "series":
            cols["ETH"] = with_late_feed(price_column(pk if pk != "int" or not case.get("late") else "float", [Decimal(b["S"]) for b in bars]), case.get("late"))
        price = pd.DataFrame({k: v.values for k, v in cols.items()}, index=index)
        if case.get("holes"):
            price = price[keep_mask(case, bars, 1)]
            fr["m0"] = fr["m0"][keep_mask(case, bars, 5)]
        if form == "series":
            supplied = price["USDC"].copy()
            inp["set_price"] = (supplied, usdc)
        elif form == "tuple":
            supplied = price
            inp["set_price"] = ((price, usdc),)
        else:
            supplied = price
            inp["set_price"] = (price, usdc)
        fr["price"] = supplied
    elif kind == "deribit":
        # an option market alone: hourly bars; the price series is taken from the data with market.get_price_from_data() on every run
        fr["deribit"] = book_rows(case, bars, times, start)
    elif kind == "gmx":
        import numpy as np
        from demeter.gmx.helper import get_price_from_data as gmx_price
        rows, glp, usdg = [], 4 * 10 ** 26, 4 * 10 ** 26
        for b in bars:
            aum = 5 * 10 ** 38 + b["n1"] * 10 ** 16
            rows.append(dict(glp=Decimal(glp), aum=Decimal(aum), usdg=usdg, interval=np.float64(10 ** 13 + b["in0"]),
                             glp_price=(Decimal(aum) / Decimal(10 ** 30)) / (Decimal(glp) / Decimal(10 ** 18)),
                             wavax_price=Decimal(29 * 10 ** 30), weth_price=Decimal(b["S"] * 10 ** 30), weth_usdg=usdg * 3 // 10 + b["in0"] * 10 ** 12,
                             weth_weight=np.int64(30000), usdc_price=10 ** 30, usdc_usdg=usdg * 7 // 10, usdc_weight=np.int64(70000)))
        fr["gmx"] = pd.DataFrame({c: pd.Series([r[c] for r in rows], index=index, dtype=object) for c in rows[0]})
        price = gmx_price(fr["gmx"])
        price["USDC"] = Decimal(1)
        if case.get("late"):
            price["BTC"] = with_late_feed(pd.Series([Decimal(b["p"] * 30) for b in bars], dtype=object), case["late"]).values
        if case.get("holes"):
            price = price[keep_mask(case, bars, 1)]
            fr["gmx"] = fr["gmx"][keep_mask(case, bars, 2)]
        fr["price"] = price
        inp["set_price"] = (price,)
    elif kind == "gmx2":
        from demeter.gmx._typing2 import GmxV2Pool
        from demeter.gmx.helper2 import get_price_from_v2_data
        inp["gm_pool"] = GmxV2Pool(weth, usdc, weth)
        rows = []
        for b in bars:
            lp = float(b["S"])
            la, sa = 3000.0 + b["in0"] / 1e8, 6e6 + b["in1"] / 1e13
            pv = la * lp + sa + b["n0"] / 1e5
            rows.append(dict(longAmount=la, shortAmount=sa, virtualSwapInventoryLong=la * 2, virtualSwapInventoryShort=sa * 2, poolValue=pv,
                             marketTokensSupply=pv / (1.2 + (b["v"] % 10) / 100), impactPoolAmount=float(b["v"]), longPrice=lp,
                             shortPrice=1.0 - (b["p"] - 1000) / 1e6, indexPrice=lp))
        fr["gmx2"] = pd.DataFrame(rows, index=index)
        price = get_price_from_v2_data(fr["gmx2"], inp["gm_pool"])
        if case.get("late"):
            price = price.copy()
            price["BTC"] = with_late_feed(pd.Series([float(b["p"] * 30) for b in bars], dtype="float64"), case["late"]).values
        if pk == "decimal":
            from demeter.utils import to_decimal
            price = price.map(to_decimal)
        if case.get("holes"):
            price = price[keep_mask(case, bars, 1)]
            fr["gmx2"] = fr["gmx2"][keep_mask(case, bars, 3)]
        fr["price"] = price
        inp["set_price"] = (price,)
    elif kind == "squeeth":
        from demeter.uniswap import UniV3Pool, UniLpMarket
        from demeter import MarketTypeEnum
        from demeter.squeeth.helper import get_price_from_data as sq_price
        osqth = TokenInfo("osqth", 18)
        inp["tokens"]["osqth"] = osqth
        inp["sq_pool"] = UniV3Pool(weth, osqth, 0.3, weth)
        nf, rows, prow = Decimal("0.3"), [], []
        for b in bars:
            nf -= Decimal(1 + b["v"] % 9) / Decimal(10 ** 7)
            rows.append(dict(norm_factor=nf, WETH=Decimal(b["S"]), OSQTH=Decimal("0.1") + Decimal(b["p"] - 1000) / Decimal(10 ** 5)))
            t = 23000 + (b["close"] - 201000) // 4
            o = 23000 + (b["open"] - 201000) // 4
            prow.append(dict(netAmount0=Decimal(0), netAmount1=Decimal(0), closeTick=t, openTick=o, lowestTick=min(o, t), highestTick=max(o, t),
                             inAmount0=Decimal(b["in1"] // 10), inAmount1=Decimal(b["in1"]), currentLiquidity=Decimal(b["liq"] * 100)))
        fr["squeeth"] = pd.DataFrame(rows, index=index)
        pdf = pd.DataFrame(prow, index=index)
        for c in ("netAmount0", "netAmount1", "inAmount0", "inAmount1", "currentLiquidity"):     # as the loader's converters make them
            pdf[c] = pdf[c].astype(object)
        UniLpMarket(MarketInfo("uni_sq", MarketTypeEnum.uniswap_v3), inp["sq_pool"]).add_statistic_column(pdf)
        fr["uni_sq"] = pdf
        price = sq_price(fr["squeeth"])
        if case.get("late"):
            price["BTC"] = with_late_feed(pd.Series([Decimal(b["p"] * 30) for b in bars], dtype=object), case["late"]).values
        if case.get("holes"):
            price = price[keep_mask(case, bars, 1)]
            fr["squeeth"] = fr["squeeth"][keep_mask(case, bars, 4)]
        fr["price"] = price
        inp["set_price"] = (price,)
    else:
        from demeter.uniswap import UniV3Pool, UniLpMarket
        from demeter.uniswap.helper import get_price_from_data
        from demeter.utils import to_decimal
        pool = UniV3Pool(usdc, eth, 0.05, usdc)
        inp["pool"] = pool
        # amounts are Decimal objects, as load_uni_v3_data's converters make them (plain ints beyond 2**63 would give the column a
        # data-dependent integer dtype whose resampled sum wraps around: a frame the loader never produces)
        df = pd.DataFrame([dict(netAmount0=Decimal(b["n0"]), netAmount1=Decimal(b["n1"]), closeTick=b["close"], openTick=b["open"], lowestTick=b["lo"],
                                highestTick=b["hi"], inAmount0=Decimal(b["in0"]), inAmount1=Decimal(b["in1"]), currentLiquidity=Decimal(b["liq"]))
                           for b in bars], index=index)
        for c in ("netAmount0", "netAmount1", "inAmount0", "inAmount1", "currentLiquidity"):
            df[c] = df[c].astype(object)
        if case.get("tick_float"):
            for c in ("closeTick", "openTick", "lowestTick", "highestTick"):
                df[c] = df[c].astype("float64")
        UniLpMarket(MarketInfo("uni"), pool).add_statistic_column(df)     # the documented preparation step of the caller
        fr["uni"] = df
        if kind == "uni+deribit":
            book = book_rows(case, bars, times, start)
            if book is not None:
                fr["deribit"] = book
        if kind == "uni+aave":
            for j, t in enumerate((weth, usdc)):
                fr["aave:" + t.name] = pd.DataFrame([dict(liquidity_rate=Decimal("0.01"), stable_borrow_rate=Decimal("0.05"),
                                                          variable_borrow_rate=Decimal("0.03"),
                                                          liquidity_index=Decimal(b["li"] + 7 * j) / 10 ** 6,
                                                          variable_borrow_index=Decimal(b["bi"] + 11 * j) / 10 ** 6) for b in bars], index=index)
        price, quote = get_price_from_data(df, pool)
        if kind == "uni+aave":
            price[weth.name] = price[eth.name]
        if pk != "native":                      # the caller has converted the frame already: every cell a Decimal
            price = price.map(to_decimal)
        if case.get("late"):                    # a token the strategy only watches; its feed starts late
            price["BTC"] = with_late_feed(pd.Series([Decimal(b["p"] * 30) for b in bars], dtype=object), case["late"]).values
        if case.get("holes"):
            price = price[keep_mask(case, bars, 1)]
        fr["price"] = price
        inp["set_price"] = ((price, quote),) if form != "frame" else (price, quote)
    inp["pristine"] = {k: digest(v) for k, v in fr.items()}
    return inp


# ------------------------------------------------------------------------------------------ the strategy (one object, run again)
_cls = {}


def strategy_class():
    """an adaptive strategy: every decision is a function of the snapshot handed in and of what the strategy did before.  It owns stateful
    trigger objects of every class, two installed when the object is made and three — built once — installed by initialize() on every run.
    What a run sees of the world hangs on `self.env` (the fresh markets of this run), so the same object can be run again."""
    if "A" in _cls:
        return _cls["A"]
    import random
    from datetime import timedelta
    from demeter import Strategy
    from demeter.uniswap import PositionInfo
    from demeter.strategy.trigger import (PeriodTrigger, PeriodsTrigger, AtTimeTrigger, AtTimesTrigger, TimeRangeTrigger, TimeRange)

    def snap_digest(snap):
        parts = [str(snap.timestamp), str(snap.row_id), digest(snap.prices)]
        for mi in snap.market_status.keys():
            parts.append(mi.name + ":" + digest(snap.market_status[mi]))
        return "|".join(parts)

    class Adaptive(Strategy):
        def __init__(self, case):
            super().__init__()
            rng = random.Random(case["seed"])
            step = timedelta(minutes=case["interval"] if case["kind"] != "uni+deribit" or case["interval"] != 1 else rng.choice((1, 7, 60)))
            t0 = cl.at(case["start"])
            self.env = None
            self.triggers.append(PeriodTrigger(step * rng.randint(1, 3), self.on_trig, trigger_immediately=rng.random() < 0.5, tid="p"))
            self.triggers.append(AtTimeTrigger(t0 + step * rng.randint(0, 2), self.on_trig, tid="t"))
            self.late = [PeriodsTrigger([step * rng.randint(1, 2), step * rng.randint(2, 4)], self.on_trig, trigger_immediately=rng.random() < 0.5, tid="pp"),
                         AtTimesTrigger([t0 + step * rng.randint(0, 3) for _ in range(2)], self.on_trig, tid="tt"),
                         TimeRangeTrigger(TimeRange(t0 + step, t0 + step * rng.randint(2, 4)), self.on_trig, tid="r")]

        def initialize(self):
            self.triggers.extend(self.late)

        def on_trig(self, snap, tid):
            obs = self.env["obs"]
            obs["snaps"].append(("trigger", tid, str(snap.timestamp)))
            obs["did"].add("trig-" + tid)
            try:
                self.env["light"](snap, tid)
            except Exception as e:  # noqa: BLE001
                obs["snaps"].append(("refused", type(e).__name__))

        def before_bar(self, snap):
            obs = self.env["obs"]
            if self.account_status:
                # the entry of the bar that has just ended, as the strategy reads it now (strategy.account_status is the live history)
                obs["then"].append([str(v) for v in self.account_status[-1].to_array()])
            obs["snaps"].append(("before", snap_digest(snap)))

        def on_bar(self, snap):
            obs = self.env["obs"]
            obs["snaps"].append(("on", snap_digest(snap)))
            try:
                self.env["act"](snap)
            except Exception as e:  # noqa: BLE001  (refused operations are part of the behaviour, recorded by class)
                obs["snaps"].append(("refused", type(e).__name__))

        def after_bar(self, snap):
            self.env["obs"]["snaps"].append(("after", snap_digest(snap)))

    _cls["A"], _cls["PositionInfo"] = Adaptive, PositionInfo
    return Adaptive


def deribit_steps(dm, obs, steps, snap, data_value):
    """scripted deribit actions of a crafted case; `data_value` is a number read from the bar's own data"""
    for st in steps:
        what = st[0]
        if what == "deposit":
            dm.deposit(Decimal(st[1]))
        elif what == "deposit_data":
            dm.deposit(Decimal(1 + data_value % 3))            # an amount that depends on this bar's data
        elif what == "withdraw":
            dm.withdraw(Decimal(st[1]))
        elif what == "buy":
            dm.buy(st[1], st[2])
        elif what == "sell":
            dm.sell(st[1], st[2])
        elif what == "estimate":
            estimates(dm, obs, st[1], st[2])
        obs["did"].add("plan-" + what)


def estimates(dm, obs, name, amount):
    """read-only cost queries on the bar's book: market order and an order at the price of the best level, both sides; what they answer is part
    of what the strategy sees"""
    row = dm.market_status.data
    if row is None or not len(row) or name not in row.index:
        return
    inst = row.loc[name]
    for side, levels in (("buy", inst["asks"]), ("sell", inst["bids"])):
        if not levels:
            continue
        best = (min if side == "buy" else max)(lv[0] for lv in levels)
        for price in (None, best):
            try:
                est = dm.estimate_cost(name, amount, side, price)
            except Exception as e:  # noqa: BLE001
                est = type(e).__name__
            obs["snaps"].append(("estimate-cost", name, side, str(price), str(est)))
    obs["did"].add("estimate-cost")


def assemble(case, inp, strategy=None):
    """fresh Actuator, Broker and market objects over the frames of `inp`; the strategy object is new unless one is handed in"""
    cl.setup()
    from demeter import Actuator, MarketInfo, MarketTypeEnum
    kind = case["kind"]
    fr, tk = inp["frames"], inp["tokens"]
    usdc, eth, weth = tk["usdc"], tk["eth"], tk["weth"]
    a = Actuator()
    markets, internal = {}, {}
    obs = {"snaps": [], "did": set(), "then": []}
    if kind.startswith("probe"):
        PM = cl.make_market_class()
        rec = cl.Recorder()
        rec.actuator = a
        rec.initialized = True
        for i, name in enumerate(("m0", "m1")):
            if name in fr:
                m = PM(MarketInfo(name), fr[name], rec, i)
                m.quote_token = usdc
                m.accrue = True
                a.broker.add_market(m)
                markets[name] = m
        a.broker.set_balance(usdc, 1000)
        a.set_price(*inp["set_price"])

        def act(snap):
            for name, m in markets.items():
                st = snap.market_status[m.market_info]
                if len(st) and not pd.isna(st["v"]):
                    v = int(st["v"])
                    if v % 3 == 0:
                        m.op(f"t{snap.row_id}", True, Decimal(v))
                        obs["did"].add("op")
                    elif v % 7 == 0:
                        m.op(f"r{snap.row_id}", False)

        def light(snap, tid):
            markets["m0"].op(f"{tid}{snap.row_id}", True, Decimal(1))
    elif kind == "deribit":
        from demeter.deribit import DeribitOptionMarket
        dm = DeribitOptionMarket(MarketInfo("deribit", MarketTypeEnum.deribit_option), DeribitOptionMarket.ETH, fr["deribit"])
        a.broker.add_market(dm)
        a.broker.set_balance(DeribitOptionMarket.ETH, 10)
        markets["deribit"] = dm
        a.set_price(dm.get_price_from_data())             # the usual way: the underlying price of every hour, read from the data

        def act(snap):
            st = snap.market_status[dm.market_info]
            if case.get("plan") is not None:
                deribit_steps(dm, obs, case["plan"].get(str(snap.row_id), []), snap, int(float(st.iloc[0]["underlying_price"])) if len(st) else 0)
                return
            if snap.row_id == 0:
                dm.deposit(5)
                obs["did"].add("deposit")
            if len(st):
                mark = round(float(st.iloc[0]["mark_price"]) * 2000)
                if mark % 2 == 0:
                    estimates(dm, obs, "ETH-X-1700-C", 2)
                if mark % 3 == 0:
                    dm.buy("ETH-X-1700-C", 3)
                    obs["did"].add("option")
                elif mark % 3 == 1 and dm.positions:
                    dm.sell(list(dm.positions.keys())[0], 1)
                    obs["did"].add("option-sell")
                elif mark % 3 == 2 and "ETH-X-1900-C" in st.index:
                    dm.buy("ETH-X-1900-C", 2)           # an instrument whose quote is missing from some hours
                    obs["did"].add("option2")

        def light(snap, tid):
            dm.buy("ETH-Y-1800-C", 1)
    elif kind == "gmx":
        from demeter.gmx import GmxMarket
        gm = GmxMarket(MarketInfo("gmx", MarketTypeEnum.gmx_v1), tokens=[weth, usdc])
        gm.data = fr["gmx"]
        a.broker.add_market(gm)
        markets["gmx"] = gm
        a.broker.set_balance(weth, Decimal(10))
        a.broker.set_balance(usdc, Decimal(20000))
        a.set_price(*inp["set_price"])

        def act(snap):
            st = snap.market_status[gm.market_info]
            v = int(st["weth_usdg"]) // 10 ** 12
            if v % 4 == 0:
                gm.buy_glp(weth, Decimal("0.5"))
                obs["did"].add("glp-buy")
            elif v % 4 == 1 and gm.glp_amount > 0:
                gm.sell_glp(usdc, gm.glp_amount / 2)
                obs["did"].add("glp-sell")
            elif v % 4 == 2:
                gm.buy_glp(usdc, Decimal(300))
                obs["did"].add("glp-buy-usdc")

        def light(snap, tid):
            gm.buy_glp(usdc, Decimal(10))
    elif kind == "gmx2":
        from demeter.gmx import GmxV2Market
        g2 = GmxV2Market(MarketInfo("gmx2", MarketTypeEnum.gmx_v2), inp["gm_pool"])
        g2.data = fr["gmx2"]
        a.broker.add_market(g2)
        markets["gmx2"] = g2
        a.broker.set_balance(weth, Decimal(10))
        a.broker.set_balance(usdc, Decimal(20000))
        a.set_price(*inp["set_price"])

        def act(snap):
            st = snap.market_status[g2.market_info]
            v = int(st["impactPoolAmount"])
            if v % 4 == 0:
                g2.deposit(0.5, 0)
                obs["did"].add("gm-deposit-long")
            elif v % 4 == 1 and g2.amount > 0:
                g2.withdraw(g2.amount / 2)
                obs["did"].add("gm-withdraw")
            elif v % 4 == 2:
                g2.deposit(0, 300)
                obs["did"].add("gm-deposit-short")
            else:
                g2.deposit(0.1, 150)
                obs["did"].add("gm-deposit-both")

        def light(snap, tid):
            g2.deposit(0, 10)
    elif kind == "squeeth":
        from demeter.uniswap import UniLpMarket
        from demeter.squeeth import SqueethMarket
        osqth = tk["osqth"]
        pm = UniLpMarket(MarketInfo("uni_sq", MarketTypeEnum.uniswap_v3), inp["sq_pool"])
        pm.data = fr["uni_sq"]
        sm = SqueethMarket(MarketInfo("squeeth", MarketTypeEnum.squeeth), pm)
        sm.data = fr["squeeth"]
        a.broker.add_market(pm)
        a.broker.add_market(sm)
        markets["uni_sq"], markets["squeeth"] = pm, sm
        a.broker.set_balance(weth, Decimal(30))
        a.broker.set_balance(osqth, Decimal(20))
        a.set_price(*inp["set_price"])

        def act(snap):
            st = snap.market_status[sm.market_info]
            v = int(Decimal(st["WETH"]))
            if v % 5 == 0:
                sm.buy_squeeth(eth_amount=Decimal(1))
                obs["did"].add("sq-buy")
            elif v % 5 == 1 and len(sm.vault) < 2:
                sm.open_deposit_mint_by_collat_rate(Decimal(3), Decimal("2.5"))
                obs["did"].add("sq-short")
            elif v % 5 == 2:
                p = snap.market_status[pm.market_info].price
                pm.add_liquidity(p * Decimal("0.9"), p * Decimal("1.1"), Decimal(1), Decimal(1) / p)
                obs["did"].add("sq-lp")

        def light(snap, tid):
            sm.buy_squeeth(eth_amount=Decimal("0.1"))
    else:
        from demeter.uniswap import UniLpMarket
        um = UniLpMarket(MarketInfo("uni"), inp["pool"])
        um.data = fr["uni"]
        if "deribit" in fr:
            from demeter.deribit import DeribitOptionMarket
            dm = DeribitOptionMarket(MarketInfo("deribit", MarketTypeEnum.deribit_option), DeribitOptionMarket.ETH)
            dm.data = fr["deribit"]
            a.broker.add_market(dm)
            dm.balance = Decimal(5)
            markets["deribit"] = dm
        a.broker.add_market(um)
        markets["uni"] = um
        if kind == "uni+aave":
            import os
            import common
            from demeter.aave import AaveV3Market
            am = AaveV3Market(market_info=MarketInfo("aave", MarketTypeEnum.aave_v3), tokens=[weth, usdc],
                              risk_parameters_path=os.path.join(common.REPO, "tests", "aave_risk_parameters", "demo.csv"))
            for t in (weth, usdc):
                am.set_token_data(t, fr["aave:" + t.name])
            a.broker.add_market(am)
            markets["aave"] = am
            internal["aave.data"] = am.data          # built by the market from the supplied frames: must not change during a run either
            a.broker.set_balance(weth, Decimal(5))
        a.broker.set_balance(usdc, Decimal(20000))
        a.broker.set_balance(eth, Decimal(10))
        a.set_price(*inp["set_price"])
        PositionInfo = _cls.get("PositionInfo") or (strategy_class() and _cls["PositionInfo"])

        def act(snap):
            st = snap.market_status[um.market_info]
            tick = int(st.closeTick)
            p = st.price
            if case.get("plan") is not None:
                deribit_steps(markets["deribit"], obs, case["plan"].get(str(snap.row_id), []), snap, tick)
                return
            if tick % 5 == 0 and len(um.positions) < 2:
                um.add_liquidity(p * Decimal("0.9"), p * Decimal("1.1"), Decimal(1), p)
                obs["did"].add("add")
            elif tick % 5 == 1 and um.positions:
                um.remove_liquidity(list(um.positions.keys())[0])
                obs["did"].add("remove")
            elif tick % 5 == 2:
                um.buy(Decimal("0.1"))
                obs["did"].add("buy")
            elif tick % 5 == 3:
                um.sell(Decimal("0.1"))
                obs["did"].add("sell")
            else:
                # read-only estimates with the price inside the range (they go through base_unit_price_to_real_tick)
                lo = tick - tick % 10 - 2000
                est = um.estimate_amount(Decimal(1000), lo, lo + 4000)
                liq = um.estimate_liquidity(Decimal(500), PositionInfo(lo, lo + 4000))
                obs["snaps"].append(("estimate", str(est), str(liq)))
                obs["did"].add("estimate")
            if "aave" in markets:
                am_ = markets["aave"]
                if tick % 4 == 0 and not am_.supplies:
                    am_.supply(weth, Decimal(2))
                    obs["did"].add("supply")
                elif tick % 4 == 1 and am_.supplies and not am_.borrows:
                    am_.borrow(usdc, Decimal(300))
                    obs["did"].add("borrow")
            if "deribit" in markets:
                dm_ = markets["deribit"]
                if dm_.is_open and tick % 3 == 0:
                    estimates(dm_, obs, "ETH-X-1700-C", 2)
                if dm_.is_open and tick % 2 == 0:
                    dm_.buy("ETH-X-1700-C", 3)
                    obs["did"].add("option")
                elif dm_.is_open and tick % 4 == 1:
                    dm_.buy("ETH-X-1900-C", 2)          # an instrument whose quote is missing from some hours
                    obs["did"].add("option2")
                elif not dm_.is_open and tick % 7 == 3:
                    dm_.deposit(Decimal(1 + tick % 3))   # between two hourly bars, an amount that depends on the bar's data
                    obs["did"].add("deposit-off-hour")
                elif not dm_.is_open and tick % 7 == 4 and dm_.balance > 2:
                    dm_.withdraw(Decimal(1))
                    obs["did"].add("withdraw-off-hour")

        def light(snap, tid):
            um.sell(Decimal("0.01"))
    a.interval = {1: "1min", 5: "5min", 15: "15min", 60: "1h"}[case["interval"]]
    if strategy is None:
        strategy = strategy_class()(case)
    strategy.env = {"obs": obs, "act": act, "light": light}
    a.strategy = strategy
    return a, markets, internal, obs


def dec_context():
    c = decimal.getcontext()
    return {"prec": c.prec, "rounding": c.rounding, "Emin": c.Emin, "Emax": c.Emax, "capitals": c.capitals, "clamp": c.clamp,
            "traps": sorted(s.__name__ for s, on in c.traps.items() if on)}


def run_once(case, inp, strategy=None):
    """one run over the frames of `inp`; returns rows, actions, snapshots, digests of every supplied frame after the run, the process-wide
    Decimal context before and after, the error class, and the strategy object"""
    a, markets, internal, obs = assemble(case, inp, strategy)
    assembled = {k: digest(v) for k, v in inp["frames"].items()}
    internal_before = {k: digest(v) for k, v in internal.items()}
    ctx_before = dec_context()
    err = None
    # the market whose frame has the most distinct timestamps as supplied (the first of them in broker order), counted here on the frames
    sizes = [(mi.name, len(set(m.data.index.get_level_values(0)))) for mi, m in a.broker.markets.items()]
    driving = next(nm for nm, sz in sizes if sz == max(z for _, z in sizes)) if sizes else None
    try:
        a.run(print_result=False)
    except Exception as e:  # noqa: BLE001
        err = type(e).__name__ + ": " + str(e)[:200] + " @ " + traceback.format_exc().strip().split("\n")[-3][:160]
    ctx_after = dec_context()
    after = {k: digest(v) for k, v in inp["frames"].items()}
    internal_after = {k: digest(v) for k, v in internal.items()}
    rows, actions, entries = [], [], []
    if err is None:
        df = a.account_status_df
        rows = [[str(ix)] + [str(v) for v in r] for ix, r in zip(df.index, df.itertuples(index=False))]
        actions = [[str(x.timestamp), type(x).__name__, str(x)] for x in a.actions]
        entries = [[str(v) for v in s_.to_array()] for s_ in a.account_status]      # every field of every market's balance object, per bar
    return {"entries": entries, "then": obs["then"], "rows": rows, "actions": actions, "snaps": obs["snaps"], "assembled": assembled, "after": after, "err": err, "did": sorted(obs["did"]),
            "internal": (internal_before, internal_after), "dctx": (ctx_before, ctx_after), "bars": [r[0] for r in rows], "strategy": a.strategy,
            "n_triggers": len(a.strategy.triggers), "driving": driving, "sizes": sizes}


def prefix_of(res, n_bars):
    """what the property compares for bars 0..n_bars-1"""
    cut_ts = set(res["bars"][:n_bars])
    rows = res["rows"][:n_bars]
    actions = [x for x in res["actions"] if x[0] in cut_ts]
    snaps, seen = [], 0
    for s in res["snaps"]:
        if s[0] == "before":
            seen += 1
        if seen > n_bars:
            break
        snaps.append(s)
    return rows, actions, snaps


def restore_context(c):
    d = decimal.getcontext()
    d.prec, d.rounding, d.Emin, d.Emax, d.capitals, d.clamp = c["prec"], c["rounding"], c["Emin"], c["Emax"], c["capitals"], c["clamp"]


def first_diff(x, y):
    return next((i for i, (p, q) in enumerate(zip(x, y)) if p != q), min(len(x), len(y)))


def check_pair(ctx: Ctx, case):
    rep = {k: v for k, v in case.items()}
    kind, iv = case["kind"], case["interval"]
    pk, form = case.get("price_kind", "decimal"), case.get("form", "frame")
    late = case.get("late")
    lc = "-" if not late else "late<k" if late < case["k"] else "late=k" if late == case["k"] else "late>k"
    tagbase = (f"{kind}:i{iv}:{pk}/{form}:{lc}:{case.get('row_order', '-')}" + (":holes" if case.get("holes") else "") +
               (":" + case["crafted"] if case.get("crafted") else ""))
    cl.setup()
    home = dec_context()
    i1, i2 = make_inputs(case, case["pre"] + case["s1"]), make_inputs(case, case["pre"] + case["s2"])
    # first history: a run, then the SAME strategy object (its trigger objects included) on the SAME frames with a fresh account, in the same
    # process and under whatever process-wide settings the first run left behind; then the second history
    r1 = run_once(case, i1)
    r1b = run_once(case, i1, r1["strategy"]) if r1["err"] is None else None
    left = dec_context()
    restore_context(home)
    r2 = run_once(case, i2)
    restore_context(home)
    for r in (r1, r2):
        if r["err"] is not None:
            ctx.case(f"{tagbase}:error:{r['err'].split(':')[0]}")
            ctx.violate(f"run:{kind}:{r['err'].split(':')[0]}", f"a run over a well-formed {kind} history (price cells {pk}, given as {form}) raised {r['err']}", rep)
            return
    n_common = case["k"] // iv                                      # complete bars of the common prefix
    if kind == "uni+deribit" and iv == 1:
        n_common = case["k"]
    a1, a2 = prefix_of(r1, n_common), prefix_of(r2, n_common)
    # the bars themselves: the timestamps of the first n_common bars are a function of the common prefix.  If they differ, everything else of the
    # prefix differs as a consequence; reported once, under the cause (which market has the most rows is decided on the frames as supplied)
    same_bars = r1["bars"][:n_common] == r2["bars"][:n_common]
    if not same_bars:
        d = first_diff(r1["bars"][:n_common], r2["bars"][:n_common])
        if r1["driving"] != r2["driving"]:
            ctx.violate("lookahead:bar-index:driving-market-changes-in-suffix",
                        f"two {kind} histories sharing {case['k']} minutes of data (every frame identical on the shared bars): the market with the most rows "
                        f"is {r1['driving']} in the first ({r1['sizes']}) and {r2['driving']} in the second ({r2['sizes']}) — decided by rows AFTER the common "
                        f"prefix — so bar {d} of the run is {r1['bars'][d:d + 1]} vs {r2['bars'][d:d + 1]} and the account rows of the prefix differ "
                        f"({str(a1[0][d:d + 1])[:120]} vs {str(a2[0][d:d + 1])[:120]})", rep)
        else:
            ctx.violate(f"lookahead:{kind}:i{iv}:bar-index", f"bar {d} of the run is {r1['bars'][d:d + 1]} vs {r2['bars'][d:d + 1]} for two histories sharing "
                        f"{case['k']} minutes of data and the same driving market {r1['driving']}", rep)
    for name, x, y in (("account", a1[0], a2[0]), ("actions", a1[1], a2[1]), ("snapshots", a1[2], a2[2])):
        if x != y and same_bars:
            d = first_diff(x, y)
            ctx.violate(f"lookahead:{kind}:i{iv}:{name}",
                        f"{name} of bar-prefix {n_common} differ between two histories sharing {case['k']} minutes of data (first difference at item {d}: "
                        f"{str(x[d:d + 1])[:160]} vs {str(y[d:d + 1])[:160]})", rep)
    # the account history is append-only: the entry of a bar, as the strategy could read it when the bar had just ended, is the entry the finished
    # run holds for that bar (an entry rewritten by a later bar is look-ahead in the history of bars 0..k)
    for r, which in ((r1, "first"), (r2, "second")):
        for i, then in enumerate(r["then"]):
            if then != r["entries"][i]:
                j = first_diff(then, r["entries"][i])
                ctx.violate(f"history-rewritten:{kind}", f"the account-history entry of bar {i} of a {kind} run read right after that bar differs from the entry "
                            f"the finished run holds for it (field {j}: {then[j:j + 1]} then, {r['entries'][i][j:j + 1]} at the end; strategy did {r['did']}): a later "
                            f"bar wrote into an earlier bar's entry", rep)
                break
    e1, e2 = r1["entries"][:n_common], r2["entries"][:n_common]
    if e1 != e2 and same_bars:
        d = first_diff(e1, e2)
        ctx.violate(f"lookahead:{kind}:i{iv}:account-entries", f"the per-market balance entries of bar-prefix {n_common} differ between two histories sharing "
                    f"{case['k']} minutes of data (bar {d}: {str(e1[d:d + 1])[:160]} vs {str(e2[d:d + 1])[:160]})", rep)
    # inputs intact: every supplied frame is, after set_price / data assignment and after the run, what it was when the caller built it
    for r, inp, which in ((r1, i1, "first"), (r2, i2, "second")):
        for f, h in inp["pristine"].items():
            fname = f.split(":")[0]
            if r["assembled"][f] != h:
                ctx.violate(f"frame-mutated:{kind.split('+')[0] if fname == 'price' else kind}:{fname}:on-handover",
                            f"the supplied {f} frame (cells {pk}, given as {form}) changed when it was handed to the actuator / market: now "
                            f"{shape_of(inp['frames'][f])}", rep)
            elif r["after"][f] != h:
                ctx.violate(f"frame-mutated:{kind}:{fname}", f"the supplied {f} frame of a {kind} run changed during the run (interval {iv} min, strategy did "
                            f"{r['did']}): now {shape_of(inp['frames'][f])}", rep)
        for f in r["internal"][0]:
            if r["internal"][0][f] != r["internal"][1][f]:
                ctx.violate(f"frame-mutated:{kind}:{f}", f"{f} changed during the run (interval {iv} min, strategy did {r['did']})", rep)
    # process-wide settings are an input of the next run: a run leaves the Decimal context as it found it
    for r, which in ((r1, "first"), (r1b, "repeated"), (r2, "second")):
        if r is not None and r["dctx"][0] != r["dctx"][1]:
            ch = {k: (v, r["dctx"][1][k]) for k, v in r["dctx"][0].items() if r["dctx"][1][k] != v}
            ctx.violate(f"decimal-context-changed:{'+'.join(sorted(ch))}", f"a {kind} run (strategy did {r['did']}) left the process-wide Decimal context changed: {ch}", rep)
            break
    # reruns reproduce: same frames, same strategy object, fresh account -> the same result, digit for digit
    if r1b is not None:
        if r1b["err"] is not None:
            ctx.violate(f"rerun-raises:{kind}:{r1b['err'].split(':')[0]}", f"the repeated run raised {r1b['err']}", rep)
        else:
            for name, x, y in (("account", r1["rows"], r1b["rows"]), ("actions", r1["actions"], r1b["actions"]), ("snapshots", r1["snaps"], r1b["snaps"])):
                if x != y:
                    d = first_diff(x, y)
                    trig1 = sum(1 for s in r1["snaps"] if s[0] == "trigger")
                    trig2 = sum(1 for s in r1b["snaps"] if s[0] == "trigger")
                    cause = "triggers" if trig1 != trig2 else "digits" if len(x) == len(y) else "length"
                    ctx.violate(f"rerun-differs:{kind}:{cause}",
                                f"running the same strategy object again on the same frames with a fresh account gives different {name} (trigger calls "
                                f"{trig1} vs {trig2}; Decimal context after the first run {left}); first difference at item {d}: {str(x[d:d + 1])[:200]} vs "
                                f"{str(y[d:d + 1])[:200]}", rep)
                    break
            if r1["n_triggers"] != r1b["n_triggers"]:
                ctx.violate(f"rerun-differs:{kind}:trigger-list", f"strategy.triggers holds {r1['n_triggers']} objects after the first run, {r1b['n_triggers']} after the second", rep)
    pc = "all" if not case["s1"] else "short" if n_common <= 2 else "long"
    if case.get("outgrow"):
        pc += ":staggered-" + ("same-driver" if r1["driving"] == r2["driving"] else "driver-changes" + ("" if not same_bars else "-same-bars"))
    did = set(r1["did"]) | set(r2["did"])
    trig = "+".join(sorted(x for x in did if x.startswith("trig-")))
    ctx.case(f"{tagbase}:{pc}:{'+'.join(sorted(x for x in did if not x.startswith('trig-'))) or 'idle'}:{'trig' if trig else 'notrig'}:ok",
             {"kind": kind, "interval": iv, "price": pk, "form": form, "common_bars": n_common, "bars": (len(r1["rows"]), len(r2["rows"])), "did": r1["did"]})


# ------------------------------------------------------------------------------------------ the views against the real helpers
def check_views(ctx: Ctx, rng, reqs):
    cl.setup()
    from demeter import MarketInfo, TokenInfo, MarketStatus
    from demeter.uniswap import UniV3Pool, UniLpMarket
    from demeter.uniswap.helper import tick_to_base_unit_price
    usdc, eth = TokenInfo("usdc", 6), TokenInfo("eth", 18)
    pool = UniV3Pool(usdc, eth, 0.05, usdc)
    n = rng.randint(2, 30)
    bars = gen_bars(rng, n, 201000)
    start = 3600 * rng.randint(0, 5) + 60 * rng.randint(0, 59)
    times = [start + 60 * i for i in range(n)]
    index = pd.DatetimeIndex([cl.at(t) for t in times])
    df = pd.DataFrame({"closeTick": [b["close"] for b in bars], "openTick": [b["open"] for b in bars], "lowestTick": [b["lo"] for b in bars],
                       "highestTick": [b["hi"] for b in bars], "inAmount0": [b["in0"] for b in bars], "inAmount1": [b["in1"] for b in bars]}, index=index)
    UniLpMarket(MarketInfo("u"), pool).add_statistic_column(df)
    price = lambda t: tick_to_base_unit_price(int(t), 6, 18, True)  # noqa: E731
    impl_shift = [str(x) for x in df["price"]]
    closes, opens = [str(price(b["close"])) for b in bars], [str(price(b["open"])) for b in bars]
    # Squeeth TWAP window
    impl_twap = None
    try:
        from demeter.squeeth import SqueethMarket
        from demeter.squeeth.helper import calc_twap_price
        sdf = pd.DataFrame({"WETH": [Decimal(b["S"]) for b in bars]}, index=index)
        sm = SqueethMarket(MarketInfo("sq"), None, data=sdf)
        impl_twap = []
        for i in range(n):
            sm._market_status = MarketStatus(index[i].to_pydatetime(), sdf.iloc[i])
            impl_twap.append(str(sm.get_twap_price(TokenInfo("weth", 18))))
    except Exception as e:  # noqa: BLE001
        ctx.note("twap_probe", type(e).__name__ + str(e)[:80])
    # Deribit hourly row
    impl_hour = None
    try:
        from demeter import MarketTypeEnum
        from demeter.deribit import DeribitOptionMarket, DeribitMarketStatus
        hours = [t for t in range(times[0] - times[0] % 3600, times[-1] + 1, 3600) if rng.random() < 0.8]
        if hours:
            ddf = pd.DataFrame([{"time": cl.at(t), "instrument_name": "ETH-A", "mark_price": float(t)} for t in hours]).set_index(["time", "instrument_name"])
            dm = DeribitOptionMarket(MarketInfo("d", MarketTypeEnum.deribit_option), DeribitOptionMarket.ETH, data=ddf)
            impl_hour = []
            for i in range(n):
                st = DeribitMarketStatus(index[i], None)
                dm.set_market_status(st, None)
                impl_hour.append(int(st.data["mark_price"].iloc[0]) if len(st.data) else None)
        else:
            hours = []
    except Exception as e:  # noqa: BLE001
        ctx.note("hour_probe", type(e).__name__ + str(e)[:80])
        hours, impl_hour = [], None
    reqs.append(({"views": True, "n": n}, {"shift": impl_shift, "closes": closes, "opens": opens, "twap": impl_twap, "S": [b["S"] for b in bars],
                                            "hour": impl_hour, "times": times},
                 {"fn": "views", "ts": [str(t) for t in times], "hours": [str(t) for t in hours]}))
    ctx.case(f"views:n{min(n // 8, 3)}:{'twap' if impl_twap else '-'}:{'hour' if impl_hour else '-'}")


def compare_views(ctx, rep, obs, ans):
    if "error" in ans:
        ctx.disagree(f"driver error {ans['error']}", rep)
        return
    n = len(obs["times"])
    # shiftView: index of the row whose close (or, for bar 0, open) is the bar's price
    want = [obs["opens"][0] if j is None else obs["closes"][int(j)] for j in ans["shift"]]
    if want != obs["shift"]:
        ctx.disagree(f"Uniswap price column is not close.shift(1): impl {obs['shift'][:4]} model view {want[:4]}", rep)
    if any(j is not None and int(j) >= k for k, j in enumerate(ans["shift"])):
        ctx.disagree("model shift view reads a row >= k", rep)
    if obs["twap"] is not None:
        from demeter.squeeth.helper import calc_twap_price
        for k in range(n):
            win = [int(j) for j in ans["twap"][k]]
            if any(j > k for j in win):
                ctx.disagree("model TWAP window reads a row > k", rep)
            exp = str(calc_twap_price(pd.Series([Decimal(obs["S"][j]) for j in win])))
            if exp != obs["twap"][k]:
                ctx.violate("SqueethMarket.get_twap_price:window", f"TWAP at bar {k} is not the mean over the rows {win} (the last 7 minutes ending now)", rep)
                break
    if obs["hour"] is not None:
        got = [None if j is None else int(j) for j in ans["hour"]]
        if got != obs["hour"]:
            ctx.disagree(f"Deribit hourly row: impl {obs['hour'][:6]} model {got[:6]}", rep)


# ------------------------------------------------------------------------------------------ E-7: initialize(), THEN the reset; the list handed back
def gen_rerun_case(rng):
    """a strategy object that builds all its trigger objects once: `given` are in strategy.triggers when run() is called, `late` are appended by
    initialize() on every run (in place).  Two runs with fresh Actuators over the same one-market minute frame."""
    n, start = rng.randint(3, 14), 3600 * rng.randint(0, 5)

    def spec(i):
        k = rng.choice(("period", "period", "periods", "atTime", "range"))
        sp = {"k": k, "kw": "{}", "id": i}
        if k == "period":
            sp.update(d=60 * rng.randint(1, 4), imm=rng.random() < 0.5, pend=0)
        elif k == "periods":
            sp.update(ds=[60 * rng.randint(1, 4) for _ in range(rng.randint(1, 2))], imm=rng.random() < 0.5, pend=0)
        elif k == "atTime":
            sp.update(s=start + 60 * rng.randint(0, n))
        else:
            a = start + 60 * rng.randint(0, n)
            sp.update(s=a, e=a + 60 * rng.randint(0, 4))
        return sp
    ng = rng.randint(0, 2)
    return {"rerun_order": True, "n": n, "start": start, "given": [spec(i) for i in range(ng)], "late": [spec(ng + j) for j in range(rng.randint(1, 3))]}


def run_rerun_impl(case):
    cl.setup()
    import c18
    from demeter import Strategy
    times = [case["start"] + 60 * i for i in range(case["n"])]
    fires = []

    def mk_do(i):
        return lambda snapshot, **kw: fires.append([cl.sec(snapshot.timestamp), i])
    given = [c18.construct(sp, mk_do(sp["id"])) for sp in case["given"]]
    late = [c18.construct(sp, mk_do(sp["id"])) for sp in case["late"]]
    ident = {id(t): sp["id"] for t, sp in zip(given + late, case["given"] + case["late"])}

    class S(Strategy):
        def initialize(self):
            self.triggers.extend(late)          # the same objects on every run, in whatever state the previous run left them

    st = S()
    st.triggers.extend(given)
    out = []
    for _ in range(2):
        a, _ms, _rec = cl.build([("m0", times, False)], times)
        a.strategy = st
        del fires[:]
        err = None
        try:
            a.run(print_result=False)
        except Exception as e:  # noqa: BLE001
            err = type(e).__name__
        out.append({"fires": [list(f) for f in fires], "err": err, "after": [ident.get(id(t), -1) for t in st.triggers]})
    return times, out


def check_rerun_order(ctx: Ctx, case, reqs):
    times, out = run_rerun_impl(case)
    rep = dict(case)
    for o in out:
        if o["err"] is not None:
            ctx.violate(f"run:rerun-order:{o['err']}", f"a run with well-formed triggers {case['given']} + {case['late']} raised {o['err']}", rep)
            return
    # oracle (no model): the second run of the same strategy object reproduces the first; the list handed back is the list found
    if out[0]["fires"] != out[1]["fires"]:
        d = first_diff(out[0]["fires"], out[1]["fires"])
        ctx.violate("rerun-differs:rerun-order:triggers", f"same strategy object (triggers built once: {case['given']} installed before run(), {case['late']} "
                    f"appended by initialize()), fresh Actuator, same {case['n']} one-minute bars: trigger call {d} is {out[0]['fires'][d:d + 1]} in the first "
                    f"run and {out[1]['fires'][d:d + 1]} in the second", rep)
    want = [sp["id"] for sp in case["given"]]
    for which, o in zip(("first", "second"), out):
        if o["after"] != want:
            ctx.violate("rerun-differs:rerun-order:trigger-list", f"strategy.triggers holds the objects {o['after']} after the {which} run, {want} before it "
                        f"(initialize() appends {[sp['id'] for sp in case['late']]})", rep)
            break

    def js(sp):
        return {k: ([str(x) for x in v] if isinstance(v, list) else str(v) if isinstance(v, int) and not isinstance(v, bool) else v) for k, v in sp.items()}
    req = {"fn": "run_g2", "markets": [{"idx": [str(t) for t in times], "open": False}], "prices": [str(t) for t in times], "delta": "60",
           "resample": False, "specs": [js(sp) for sp in case["given"]], "script": {"init": [["tadd", js(sp)] for sp in case["late"]]}}
    reqs.append((rep, {"rerun_order": out, "want": want}, req))


def compare_rerun_order(ctx, rep, obs, ans):
    if "error" in ans:
        ctx.disagree(f"driver error {ans['error']}", rep)
        return
    out = obs["rerun_order"]

    def fires(r):
        return [[int(e[1]), int(e[2])] for e in r["trace"] if e[0] == "fire"]
    for which, o, r in (("first", out[0], ans), ("second", out[1], ans["second"])):
        if fires(r) != o["fires"] or (r["err"] is not None):
            d = first_diff(fires(r), o["fires"])
            ctx.disagree(f"rerun order: trigger calls of the {which} run: impl {o['fires'][d:d + 2]} model runG2 {fires(r)[d:d + 2]} (call {d})", rep)
            return
    if [int(x) for x in ans["handed_back"]] != out[1]["after"]:
        ctx.disagree(f"rerun order: strategy.triggers after the run: impl {out[1]['after']} model {ans['handed_back']}", rep)
    tells = fires(ans["second_reset_before_init"]) != fires(ans["second"])
    kinds = "+".join(sorted({sp["k"] for sp in rep["late"]}))
    ctx.case(f"rerun-order:given{len(rep['given'])}:late-{kinds}:{'reset-before-init-would-differ' if tells else 'orders-agree'}")
    if tells:
        ctx.count("rerun_order_cases_that_distinguish_reset_before_and_after_initialize")


def crafted_pairs():
    """pairs every run starts with (independent of the seed): situations the random stream reaches rarely"""
    import random
    rng = random.Random(20260930)
    out = []
    # (a) a minutely run next to the hourly option book; the histories part in the middle of the second hour; off-hour deposits / withdrawals
    #     before and after the parting point (the later ones with an amount read from that bar's data): the entries of the earlier minutes of the
    #     hour must not change
    for cut, later in ((75, (78, 80)), (63, (64, 70)), (118, (119,))):
        pre = gen_bars(rng, cut, 201000)
        last = pre[-1]["close"]
        plan = {"0": [["buy", "ETH-X-1700-C", 2]], "61": [["deposit", 1]], str(later[0]): [["deposit_data"]]}
        if len(later) > 1:
            plan[str(later[1])] = [["withdraw", 1]]
        out.append({"kind": "uni+deribit", "interval": 1, "start": 3600 * 5, "k": cut, "pre": pre, "s1": gen_bars(rng, rng.choice((0, 1)), last),
                    "s2": gen_bars(rng, later[-1] - cut + 5, last + 17), "seed": 11, "price_kind": "native", "form": "tuple", "row_order": "sorted",
                    "plan": plan, "crafted": "off-hour-balance"})
    # (b) a held option whose quote is missing from the last common hourly snapshot (the other instruments are quoted) and is quoted again — differently
    #     in the two histories — afterwards
    for order in ("sorted", "far-first"):
        pre = gen_bars(rng, 180, 201000)
        last = pre[-1]["close"]
        out.append({"kind": "deribit", "interval": 60, "start": 3600 * 3, "k": 180, "pre": pre, "s1": gen_bars(rng, 60, last), "s2": gen_bars(rng, 120, last + 90),
                    "seed": 12, "price_kind": "native", "form": "tuple", "row_order": order, "missing": {"2": [1]},
                    "plan": {"0": [["deposit", 5], ["buy", "ETH-X-1900-C", 2]], "1": [["estimate", "ETH-X-1900-C", 1]]}, "crafted": "quote-missing-then-back"})
    # (c) read-only cost queries on a book whose sides are listed best-first with unique prices (what an exchange delivers), then a trade
    pre = gen_bars(rng, 120, 201000)
    last = pre[-1]["close"]
    out.append({"kind": "deribit", "interval": 60, "start": 3600 * 2, "k": 120, "pre": pre, "s1": gen_bars(rng, 60, last), "s2": gen_bars(rng, 60, last + 50),
                "seed": 14, "price_kind": "native", "form": "tuple", "row_order": "sorted",
                "plan": {"0": [["deposit", 5], ["estimate", "ETH-X-1700-C", 2], ["buy", "ETH-X-1700-C", 2]],
                         "1": [["estimate", "ETH-X-1700-C", 3], ["estimate", "ETH-Y-1800-C", 1], ["sell", "ETH-X-1700-C", 1]],
                         "2": [["estimate", "ETH-X-1700-C", 1]]}, "crafted": "estimate-cost"})
    pre = gen_bars(rng, 70, 201000)
    last = pre[-1]["close"]
    out.append({"kind": "uni+deribit", "interval": 1, "start": 3600 * 7, "k": 70, "pre": pre, "s1": gen_bars(rng, 3, last), "s2": gen_bars(rng, 8, last + 5),
                "seed": 15, "price_kind": "native", "form": "tuple", "row_order": "far-first",
                "plan": {"0": [["estimate", "ETH-X-1700-C", 2], ["buy", "ETH-X-1700-C", 2]], "60": [["estimate", "ETH-X-1700-C", 2], ["estimate", "ETH-X-1900-C", 1]]},
                "crafted": "estimate-cost"})
    # (d) E-5, the reviewer's input: markets [0,60,120] and [60,120] versus [0,60,120] and [60,…,240]; and the same frames where the second market
    #     does not outgrow the first ([60,…,180]: three rows each, the first market still defines the index)
    for n2, name in ((2, "driver-changes"), (1, "same-driver")):
        pre = gen_bars(rng, 3, 201000)
        out.append({"kind": "probe2", "interval": 1, "start": 0, "k": 3, "pre": pre, "s1": [], "s2": gen_bars(rng, n2, pre[-1]["close"]), "seed": 16,
                    "price_kind": "decimal", "form": "frame", "aux": False, "outgrow": {"from": 1, "m0": 3}, "crafted": "staggered-" + name})
    return out


def run(ctx: Ctx):
    cl.setup()
    for case in crafted_pairs():
        check_pair(ctx, case)
    n = ctx.scale(84, 600)
    for i in range(n):
        if ctx.thorough:
            check_pair(ctx, gen_pair(ctx.rng))
        else:   # the hourly order-book market needs hour-long histories: two small pairs in the quick tier
            check_pair(ctx, gen_pair(ctx.rng, "uni+deribit", small=True) if i % 12 == 5 else gen_pair(ctx.rng, ctx.rng.choice(LIGHT), small=True))
    reqs = []
    for _ in range(ctx.scale(20, 300)):
        check_views(ctx, ctx.rng, reqs)
    n_rr = ctx.scale(40, 400)
    for _ in range(n_rr):
        check_rerun_order(ctx, gen_rerun_case(ctx.rng), reqs)
    ctx.impl_traces = n * 3 + n_rr * 2
    if ctx.driver_ok and reqs:
        out = driver_json([r[2] for r in reqs], exe="driver_core")
        for (rep, obs, _), ans in zip(reqs, out):
            if "rerun_order" in obs:
                compare_rerun_order(ctx, rep, obs, ans)
            else:
                compare_views(ctx, rep, obs, ans)


def replay(ctx: Ctx, case) -> bool:
    sub = Ctx(ctx.prop, ctx.tier, ctx.seed, False)
    if case.get("views"):
        return True
    if case.get("rerun_order"):
        reqs = []
        check_rerun_order(sub, case, reqs)
        if ctx.driver_ok and reqs:
            compare_rerun_order(sub, reqs[0][0], reqs[0][1], driver_json([reqs[0][2]], exe="driver_core")[0])
        for v in sub.violations:
            print("  ", v["key"], v["what"])
        return not sub.violations and not getattr(sub, "disagreements", [])
    check_pair(sub, case)
    for v in sub.violations:
        print("  ", v["key"], v["what"])
    return not sub.violations
