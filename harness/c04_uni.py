"""C04 (Uniswap part) — a rejected UniLpMarket operation leaves wallet, positions, status and action log intact."""
from __future__ import annotations

from decimal import Decimal
from fractions import Fraction

from common import Ctx, driver_json, fmt
import uni_common as U

PROPERTY = "C04"
LEAN_MODULES = ["Proofs.C04.Uni", "Proofs.C04.UniHelpers"]
DRIVERS = ["driver"]
RULE = ("[uni] for every public UniLpMarket operation (add_liquidity, add_liquidity_by_tick, _add_liquidity_by_tick, remove_liquidity, collect_fee, "
        "remove_all_liquidity, swap, buy, sell, even_rebalance, add_liquidity_by_value, transfer_position_in/out) and every rejection cause the "
        "code has (closed market, tick spacing, lower>upper, empty range, tick out of bounds, token0 short, token1 short with token0 sufficient, "
        "token1 short after token0's debit fell into Asset.sub's snap-to-zero window (balance within 1e-5 of the amount, either side, new and existing position), "
        "token missing from the wallet, unknown position, negative liquidity / collect amount, transferred position, same / foreign token, "
        "negative swap amount, zero price, value above balance, tick on the range bound) a state is built in which exactly that precondition "
        "fails, after a random prefix of accepted operations; plus a stream of mostly-valid random operations. "
        "Buckets = (operation, intended cause, outcome class, orientation, prefix length class).")
TRUSTED = ["[uni] float helpers (math.log tick estimate, estimate_ratio) are oracle inputs of the model: the value the real helper returned is passed along",
           "[uni] the action log is compared as (class name, numeric fields in dataclass order)"]
ASSUMPTIONS = ["liquidity arguments are integers below 1e33 (the declared type); a float liquidity is outside the model",
               "multi-step helpers (remove_liquidity with collect, add_liquidity_by_value, even_rebalance, remove_all_liquidity) are held to the "
               "property per constituent call, as the property says"]


# ------------------------------------------------------------------------------------------ generators
def rand_range(rng, w, around=True):
    sp = w.pool.tick_spacing
    c = (w.tick // sp) * sp
    a, b = rng.randint(1, 40) * sp, rng.randint(1, 40) * sp
    kind = rng.random()
    if not around or kind < 0.6:
        return c - a, c + b
    if kind < 0.8:
        return c + a, c + a + b      # price below the range
    return c - a - b, c - a          # price above the range


def raw_range(rng, w, around=True):
    """a range for an entry point that trims its ticks: aligned, exactly half way between two usable ticks (the rounding tie), or anywhere"""
    sp = w.pool.tick_spacing

    def raw(t):
        k = rng.random()
        return t if k < 0.5 else (t + rng.choice((-1, 1)) * (sp // 2) if k < 0.8 else t + rng.randint(-sp + 1, sp - 1))
    lo, up = rand_range(rng, w, around)
    return raw(lo), raw(up)


def amt(rng, hi=6):
    return Decimal(rng.randint(1, 10 ** rng.randint(1, hi))) / Decimal(10 ** rng.randint(0, 4))


def valid_op(rng, w):
    """a mostly-valid operation on the current state"""
    keys = list(w.market.positions.keys())
    r = rng.random()
    bb = w.broker.assets[w.pool.base_token].balance if w.pool.base_token in w.broker.assets else Decimal(0)
    qb = w.broker.assets[w.pool.quote_token].balance if w.pool.quote_token in w.broker.assets else Decimal(0)
    if r < 0.3 or not keys:
        lo, up = raw_range(rng, w)
        # the optional execution tick: mostly not given; when given, any integer in the tick range, the small ones (-1, 0, 1) included
        tk = None if rng.random() < 0.75 else rng.choice((-1, 0, 1, -2, 2, w.tick + rng.randint(-50, 50)))
        return {"op": "add_by_tick", "lower": lo, "upper": up, "base": U.offer(rng, bb), "quote": U.offer(rng, qb), "sqrt": None, "tick": tk, "trim": True}
    k = rng.choice(keys)
    if r < 0.45:
        liq = rng.choice((None, int(w.market.positions[k].liquidity) // 2, int(w.market.positions[k].liquidity) // 3, 0))
        return {"op": "remove", "lower": k.lower_tick, "upper": k.upper_tick, "liq": liq, "collect": rng.random() < 0.5, "sqrt": None, "remove_dry": rng.random() < 0.8}
    if r < 0.55:
        c0, c1, _ = U.collect_caps(rng, w.market.positions[k])
        return {"op": "collect", "lower": k.lower_tick, "upper": k.upper_tick, "max0": c0, "max1": c1, "remove_dry": True, "to_user": True}
    if r < 0.65:
        return {"op": "sell", "amount": bb * Decimal("0.1"), "price": None}
    if r < 0.75:
        return {"op": "buy", "amount": (qb / w.price * Decimal("0.1")) if w.price else Decimal(0), "price": None}
    if r < 0.8:
        return {"op": "even_rebalance", "price": None}
    if r < 0.9:
        lo, up = raw_range(rng, w)
        return {"op": "add_by_value", "lower": lo, "upper": up, "value": (qb + bb * w.price) * Decimal(rng.choice(("0.1", "0.5", "0.9"))), "trim": True}
    lo, up = rand_range(rng, w)
    p1, p2 = w.market.tick_to_price(lo), w.market.tick_to_price(up)
    return {"op": "add", "lower_price": min(p1, p2), "upper_price": max(p1, p2), "quote": U.offer(rng, qb), "base": U.offer(rng, bb)}


CAUSES = [
    # (operation, cause)
    ("add_by_tick", "closed"), ("add_by_tick", "spacing"), ("add_by_tick", "empty-range"), ("add_by_tick", "tick-bound"),
    ("add_by_tick", "token0-short"), ("add_by_tick", "token1-short"), ("add_by_tick", "both-short"), ("add_by_tick", "base-missing"),
    ("add_by_tick", "quote-missing"), ("add_by_tick", "zero-price"), ("add_by_tick", "tick-arg-bound"), ("add_by_tick", "existing-token1-short"),
    ("add_by_tick", "token0-snap-token1-short"), ("add_by_tick", "existing-token0-snap-token1-short"),
    ("add_raw", "lower>upper"), ("add_raw", "spacing"), ("add_raw", "token1-short"), ("add_raw", "closed"), ("add_raw", "token0-snap-token1-short"),
    ("add", "closed"), ("add", "token1-short"), ("add", "token0-short"),
    ("remove", "unknown"), ("remove", "negative"), ("remove", "closed"), ("remove", "transferred"), ("remove", "zero-price"),
    ("collect", "unknown"), ("collect", "negative"), ("collect", "closed"), ("collect", "transferred"),
    ("remove_all", "closed"),
    ("swap", "same-token"), ("swap", "foreign-token"), ("swap", "short"), ("swap", "negative"), ("swap", "zero-price"), ("swap", "from-missing"),
    ("buy", "short"), ("buy", "negative"), ("sell", "short"), ("sell", "negative"), ("buy", "zero-price"),
    ("even_rebalance", "zero-price"),
    ("add_by_value", "value>balance"), ("add_by_value", "lower>=upper"), ("add_by_value", "tick-on-bound"), ("add_by_value", "closed-after-swap"),
    ("add_by_value", "closed"),
    ("transfer_out", "unknown"), ("transfer_out", "already-out"), ("transfer_in", "unknown"), ("transfer_in", "not-out"),
]


def ensure_position(rng, w):
    if not w.market.positions:
        lo, up = rand_range(rng, w)
        U.apply_op(w, {"op": "add_by_tick", "lower": lo, "upper": up, "base": w.broker.assets[w.pool.base_token].balance * Decimal("0.2"),
                       "quote": w.broker.assets[w.pool.quote_token].balance * Decimal("0.2"), "sqrt": None, "tick": None, "trim": True})
    ks = list(w.market.positions.keys())
    return rng.choice(ks) if ks else None


def zero_price(w):
    d = w.market.market_status.data
    w.set_status(int(d.closeTick), Decimal(0), Decimal(d.currentLiquidity), d.inAmount0, d.inAmount1)


def snap_window(rng, w, a0, a1, lo, up):
    """balances for "the first debit lands in Asset.sub's snap-to-zero window, the second debit is refused": token0's balance within 1e-5
    relative of what the add will use (a little more, a little less, or exactly that), token1's balance half of what it needs.
    Returns False if this add would not use both tokens."""
    from demeter.uniswap.core import V3CoreLib
    from demeter.uniswap.helper import base_unit_price_to_sqrt_price_x96
    pool = w.pool
    try:
        s = base_unit_price_to_sqrt_price_x96(w.market.market_status.data.price, pool.token0.decimal, pool.token1.decimal, pool.is_token0_quote)
        u0, u1 = V3CoreLib.new_position(pool, a0, a1, lo, up, s)[:2]
    except Exception:  # noqa: BLE001
        return False
    if u0 <= 0 or u1 <= 0:
        return False
    delta = Decimal(rng.choice((0, 1, -1, 3, -3, 9, -9, 99, -99))) / Decimal(10 ** rng.choice((6, 7, 9)))   # |delta| < 1e-5 (snap), 9.9e-5 (no snap)
    w.broker.set_balance(pool.token0, u0 * (1 + delta))
    w.broker.set_balance(pool.token1, u1 / 2)
    return True


def rejected_op(rng, w, opk, cause):
    """mutate the world so that `cause` applies and return the operation; None if the cause cannot be set up here"""
    pool, m, br = w.pool, w.market, w.broker
    sp = pool.tick_spacing
    bb = br.assets[pool.base_token].balance if pool.base_token in br.assets else Decimal(5)
    qb = br.assets[pool.quote_token].balance if pool.quote_token in br.assets else Decimal(5)
    lo, up = rand_range(rng, w, around=False)       # price inside: both tokens needed
    add = {"op": "add_by_tick", "lower": lo, "upper": up, "base": bb / 2, "quote": qb / 2, "sqrt": None, "tick": None, "trim": True}
    big = Decimal(10) ** 15
    t0_is_base = not pool.is_token0_quote
    if opk in ("add_by_tick", "add_raw", "add"):
        if cause == "closed":
            m.is_open = False
        if opk == "add_by_tick":
            if cause == "spacing":
                add.update(lower=lo + 1, trim=False)
            elif cause == "empty-range":
                add.update(upper=lo)
            elif cause == "tick-bound":
                add.update(lower=-887272 - sp + (887272 % sp), upper=up, trim=False)
                add["lower"] = -(887272 // sp + 1) * sp
            elif cause == "token0-short":
                add.update(**({"base": bb * 3 + 1} if t0_is_base else {"quote": qb * 3 + 1}))
                add.update(**({"quote": qb * 3 + big} if t0_is_base else {"base": bb * 3 + big}))   # token1 plentiful in the request: token0 limits nothing
                # make the request need more token0 than held while token1 is not the limiting side
                add.update(base=bb * 3 + 1, quote=qb * 3 + 1)
                br.set_balance(pool.token1, big * 10 ** 6)
            elif cause == "token1-short":
                add.update(base=bb * 3 + 1, quote=qb * 3 + 1)
                br.set_balance(pool.token0, big * 10 ** 6)
            elif cause == "both-short":
                add.update(base=bb * 3 + 1, quote=qb * 3 + 1)
            elif cause == "base-missing":
                add.update(base=rng.choice((None, bb)))
            elif cause == "quote-missing":
                add.update(quote=rng.choice((None, qb)))
            elif cause == "zero-price":
                zero_price(w)
            elif cause == "tick-arg-bound":
                add.update(tick=900000)
            elif cause == "existing-token1-short":
                k = ensure_position(rng, w)
                bb, qb = br.assets[pool.base_token].balance, br.assets[pool.quote_token].balance
                add.update(lower=k.lower_tick, upper=k.upper_tick, base=bb * 3 + 1, quote=qb * 3 + 1)
                br.set_balance(pool.token0, big * 10 ** 6)
            elif cause in ("token0-snap-token1-short", "existing-token0-snap-token1-short"):
                if cause.startswith("existing"):
                    k = ensure_position(rng, w)
                    if k is None or not (k.lower_tick < w.tick < k.upper_tick):
                        return None
                    bb, qb = br.assets[pool.base_token].balance, br.assets[pool.quote_token].balance
                    add.update(lower=k.lower_tick, upper=k.upper_tick, base=bb / 2, quote=qb / 2)
                a0, a1 = (add["quote"], add["base"]) if pool.is_token0_quote else (add["base"], add["quote"])
                if not snap_window(rng, w, a0, a1, add["lower"], add["upper"]):
                    return None
            return add
        if opk == "add_raw":
            a0, a1 = (qb / 2, bb / 2) if pool.is_token0_quote else (bb / 2, qb / 2)
            raw = {"op": "add_raw", "a0": a0, "a1": a1, "lower": lo, "upper": up, "sqrt": None}
            if cause == "lower>upper":
                raw.update(lower=up, upper=lo)
            elif cause == "spacing":
                raw.update(upper=up + 1)
            elif cause == "token1-short":
                raw.update(a0=a0 * 5, a1=a1 * 5)
                br.set_balance(pool.token0, big * 10 ** 6)
            elif cause == "token0-snap-token1-short":
                if not snap_window(rng, w, a0, a1, lo, up):
                    return None
            return raw
        p1, p2 = m.tick_to_price(lo), m.tick_to_price(up)
        o = {"op": "add", "lower_price": min(p1, p2), "upper_price": max(p1, p2), "quote": qb / 2, "base": bb / 2}
        if cause == "token1-short":
            o.update(base=bb * 3 + 1, quote=qb * 3 + 1)
            br.set_balance(pool.token0, big * 10 ** 6)
        elif cause == "token0-short":
            o.update(base=bb * 3 + 1, quote=qb * 3 + 1)
            br.set_balance(pool.token1, big * 10 ** 6)
        return o
    if opk in ("remove", "collect", "transfer_out", "transfer_in", "remove_all"):
        k = ensure_position(rng, w)
        if k is None:
            return None
        if opk == "remove":
            o = {"op": "remove", "lower": k.lower_tick, "upper": k.upper_tick, "liq": None, "collect": rng.random() < 0.5, "sqrt": None, "remove_dry": True}
        elif opk == "collect":
            o = {"op": "collect", "lower": k.lower_tick, "upper": k.upper_tick, "max0": None, "max1": None, "remove_dry": True, "to_user": True}
        elif opk == "remove_all":
            o = {"op": "remove_all"}
        else:
            o = {"op": opk, "lower": k.lower_tick, "upper": k.upper_tick}
        if cause == "unknown":
            o.update(lower=k.lower_tick - sp)
        elif cause == "negative":
            if opk == "remove":
                o.update(liq=-5)
            else:
                o.update(**{rng.choice(("max0", "max1")): Decimal("-0.5")})
        elif cause == "closed":
            m.is_open = False
        elif cause == "transferred" or cause == "already-out":
            m.transfer_position_out(k)
        elif cause == "zero-price":
            zero_price(w)
        return o
    if opk == "swap":
        o = {"op": "swap", "amount": bb / 3, "from": pool.base_token.name, "to": pool.quote_token.name, "price": None, "log": True}
        if rng.random() < 0.5:
            o.update(amount=qb / 3, **{"from": pool.quote_token.name, "to": pool.base_token.name})
        if cause == "same-token":
            o.update(to=o["from"])
        elif cause == "foreign-token":
            o.update(**{rng.choice(("from", "to")): "zz"})
        elif cause == "short":
            o.update(amount=(bb if o["from"] == pool.base_token.name else qb) * 2 + 1)
        elif cause == "negative":
            o.update(amount=-o["amount"] - 1)
        elif cause == "zero-price":
            zero_price(w)
            o.update(amount=qb / 3, **{"from": pool.quote_token.name, "to": pool.base_token.name})
        elif cause == "from-missing":
            missing = pool.base_token if pool.base_token not in br.assets else pool.quote_token
            other = pool.quote_token if missing == pool.base_token else pool.base_token
            o.update(**{"from": missing.name, "to": other.name})
        return o
    if opk in ("buy", "sell"):
        o = {"op": opk, "amount": bb / 3, "price": None}
        if cause == "short":
            o.update(amount=(bb * 2 + 1) if opk == "sell" else (qb / w.price * 2 + 1))
        elif cause == "negative":
            o.update(amount=-(bb / 3) - 1)
        elif cause == "zero-price":
            zero_price(w)
        return o
    if opk == "even_rebalance":
        zero_price(w)
        return {"op": "even_rebalance", "price": None}
    if opk == "add_by_value":
        total = qb + bb * w.price
        o = {"op": "add_by_value", "lower": lo, "upper": up, "value": total / 2, "trim": True}
        if cause == "value>balance":
            o.update(value=total * 2 + 1)
        elif cause == "lower>=upper":
            o.update(lower=up, upper=rng.choice((lo, up)))
        elif cause == "tick-on-bound":
            from demeter.uniswap.helper import nearest_usable_tick
            t = nearest_usable_tick(U.oracle_tick(pool, w.price), sp)
            o.update(**({"lower": t} if rng.random() < 0.5 else {"upper": t}), trim=False)
            if o["lower"] >= o["upper"]:
                o.update(lower=t - 10 * sp, upper=t)
        elif cause == "closed":
            m.is_open = False
        elif cause == "closed-after-swap":
            # all value in one token, so that a swap is needed first; the market is closed: swap is accepted, the add is not
            br.set_balance(pool.base_token, Decimal(0))
            m.is_open = False
            o.update(value=qb / 2)
        return o
    return None


# ------------------------------------------------------------------------------------------ running a step
HELPERS = {"remove", "add_by_value", "even_rebalance", "remove_all"}


def step(ctx, rng, w, op, tag, reqs, rep_prefix):
    """apply `op` to the real market with snapshots; record the driver request; evaluate the oracle"""
    op = U.fill_oracles(w, op)
    before = w.dump()
    # snapshots after each completed constituent call of a helper
    marks = [before]
    m = w.market
    wrapped = {}
    if op["op"] in HELPERS:
        for name in ("swap", "add_liquidity_by_tick", "collect_fee", "remove_liquidity", "buy", "sell"):
            orig = getattr(m, name)

            def mk(orig):
                def f(*a, **k):
                    r = orig(*a, **k)
                    marks.append(w.dump())
                    return r
                return f
            wrapped[name] = orig
            setattr(m, name, mk(orig))
    try:
        err, res = U.apply_op(w, op)
    finally:
        for name in wrapped:
            delattr(m, name)
    after = w.dump()
    rep = {"prefix": rep_prefix, "op": {k: (fmt(v) if isinstance(v, Decimal) else v) for k, v in op.items()}, "world": w.spec,
           "wallet": before["wallet"], "open": before["open"]}
    if op.get("lt", 0) is None or op.get("tick_est", 0) is None:
        pass   # the float helper itself raised: outside the model, oracle only
    else:
        reqs.append((rep, U.op_req(w, op, before), err, res, after, tag))
    if err is not None:
        # the property: a rejected call leaves everything as it was — for helpers, as the last completed constituent left it
        d = U.obs_equal(marks[-1], after)
        if d:
            changed = "after " + str(len(marks) - 1) + " completed constituent call(s)" if len(marks) > 1 else "nothing completed"
            ctx.violate(f"uni.{op['op']}.{tag.split(':')[1] if ':' in tag else tag}.{err}",
                        f"{op['op']} raised {err} ({tag}) but changed the state ({changed}): {d}", rep)
    return err, res


def run_case(ctx, rng, reqs, opk=None, cause=None):
    missing = cause in ("base-missing", "quote-missing", "from-missing")
    bal = None
    if missing:
        b = (Decimal(rng.randint(1, 10 ** 6)) / 100, Decimal(rng.randint(1, 10 ** 9)) / 100)
        bal = (None, b[1]) if cause == "base-missing" or (cause == "from-missing" and rng.random() < 0.5) else (b[0], None)
    w = U.World(rng, allow_negative=False, balances=bal)
    w.spec = {"pool": U.pool_json(w.pool), "tick": w.tick, "balances": None if bal is None else [None if x is None else fmt(x) for x in bal]}
    prefix = []
    n = 0 if missing else rng.choice((0, 0, 1, 2, 4))
    for _ in range(n):
        op = valid_op(rng, w)
        err, _ = step(ctx, rng, w, op, f"{op['op']}:prefix", reqs, list(prefix))
        prefix.append({k: (fmt(v) if isinstance(v, Decimal) else v) for k, v in op.items()})
        ctx.case(f"uni:{op['op']}:valid-stream:{err or 'ok'}:{'q0' if w.pool.is_token0_quote else 'q1'}")
    if opk is None:
        return
    op = rejected_op(rng, w, opk, cause)
    if op is None:
        return
    err, _ = step(ctx, rng, w, op, f"{opk}:{cause}", reqs, list(prefix))
    ctx.case(f"uni:{opk}:{cause}:{err or 'ACCEPTED'}:{'q0' if w.pool.is_token0_quote else 'q1'}:prefix{min(n, 2)}",
             {"op": opk, "cause": cause, "outcome": err})
    if err is None:
        ctx.count(f"uni_cause_not_rejected_{opk}_{cause}")


def run(ctx: Ctx):
    U.cap_violations(ctx)
    rng = ctx.rng
    reqs = []
    per = ctx.scale(8, 200)
    for opk, cause in CAUSES:
        for _ in range(per):
            run_case(ctx, rng, reqs, opk, cause)
    for _ in range(ctx.scale(300, 8000)):
        run_case(ctx, rng, reqs)
    ctx.impl_traces += len(reqs)
    if ctx.driver_ok and reqs:
        out = driver_json([r[1] for r in reqs])
        for (rep, req, err, res, after, tag), o in zip(reqs, out):
            if "outcome" not in o:
                ctx.disagree(f"uni.step {tag}: driver error {o.get('error')}", rep)
                continue
            m_err = None if o["outcome"] == "ok" else o["outcome"]
            if m_err != err:
                ctx.disagree(f"uni.step {tag}: impl {err or 'ok'} model {m_err or 'ok'}", rep)
                continue
            d = U.diff_json(after, o["state"])
            if d:
                ctx.disagree(f"uni.step {tag} ({err or 'ok'}): state differs at {d}", rep)
                continue
            if err is None and res is not None:
                d = U.diff_json(res, o["result"])
                if d:
                    ctx.disagree(f"uni.step {tag}: result differs at {d}", rep)
    U.report_process_state(ctx)


def replay(ctx: Ctx, case) -> bool:
    import random
    if isinstance(case, dict) and case.get("kind") == "process-state":
        return U.replay_process_state(case)
    sub = Ctx(ctx.prop, ctx.tier, ctx.seed, False)
    U.cap_violations(sub)
    rng = random.Random(0)
    pj = case["world"]["pool"]
    spec = (pj["d0"], pj["d1"], pj["q0"])
    bal = case["world"].get("balances")
    w = U.World(rng, pool_spec=spec, fee=float(Fraction(pj["fee_rate"]) * 100), tick=case["world"]["tick"],
                balances=None if bal is None else tuple(None if x is None else Decimal(x) for x in bal))
    w.spec = case["world"]
    # the stored prefix fixes the operations, not the random balances: replay checks the property on a fresh world of the same shape
    ops = case["prefix"] + [case["op"]]
    for i, op in enumerate(ops):
        op = {k: (Decimal(v) if k in ("a0", "a1", "base", "quote", "amount", "price", "value", "max0", "max1", "lower_price", "upper_price") and v is not None else v)
              for k, v in op.items() if k not in ("lt", "ut", "tick_est", "ratio_amt")}
        if i == len(ops) - 1 and case.get("wallet") is not None:
            # the wallet the failing call saw (balance-dependent causes: short token, snap-to-zero window)
            for name, b in case["wallet"]:
                fb = Fraction(b)
                w.broker.set_balance(w.tok(name), Decimal(fb.numerator) / Decimal(fb.denominator))
            w.market.is_open = bool(case.get("open", True))
        step(sub, rng, w, op, f"{op['op']}:replay", [], [])
    for v in sub.violations:
        print("  ", v["key"], v["what"])
    return not sub.violations
